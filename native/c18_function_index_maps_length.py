"""C18 ('per-variable and per-constraint arrays broadcast to full length ... inconsistent shapes rejected') and C01: the index maps
objectives.function_estimators / objectives.realization_filters (and the same for the non-linear constraints) were neither broadcast
to the number of functions nor checked against it.  A map given once for two objectives left the second objective's value
uninitialised memory (np.empty in _calculate_estimated_functions).

Exit status 0: a map of length one is broadcast (both objectives use that estimator), a map of a wrong length is rejected."""
import sys

import numpy as np

from ropt.config.enopt import EnOptConfig
from ropt.ensemble_evaluator import EnsembleEvaluator
from ropt.evaluator import EvaluatorResult
from ropt.plugins import PluginManager

bad = []


def config(**objectives):
    return {"variables": {"initial_values": [0.0, 0.0]}, "realizations": {"weights": [1.0, 1.0, 2.0]},
            "objectives": {"weights": [0.5, 0.5], **objectives}, "function_estimators": [{"method": "mean"}, {"method": "stddev"}]}


def evaluator(x, ctx):
    r = ctx.realizations[:, None].astype(float)
    return EvaluatorResult(objectives=np.hstack([r + 1.0, 2.0 * r + 3.0]))


# a map given once: both objectives use estimator 1 (stddev)
try:
    cfg = EnOptConfig.model_validate(config(function_estimators=1))
    size = cfg.objectives.function_estimators.size
    (res,) = EnsembleEvaluator(cfg, None, evaluator, PluginManager()).calculate(np.zeros(2), compute_functions=True, compute_gradients=False)
    w = np.array([0.25, 0.25, 0.5])
    want = []
    for col in (np.array([1.0, 2.0, 3.0]), np.array([3.0, 5.0, 7.0])):
        m = (w * col).sum()
        want.append(np.sqrt(3 / 2 * (w * (col - m) ** 2).sum()))
    print("map given once: validated length", size, "objectives", res.functions.objectives, "expected", want)
    if size != 2 or not np.allclose(res.functions.objectives, want):
        bad.append("a map given once is not applied to every objective")
except ValueError as exc:
    print("map given once: rejected (%s)" % str(exc).splitlines()[0])  # rejecting is canonical too
# a map of a wrong length must be rejected
for field in ("function_estimators", "realization_filters"):
    try:
        extra = {"realization_filters": [{"method": "sort-objective", "options": {"sort": [0], "first": 0, "last": 1}}]} if field == "realization_filters" else {}
        cfg = EnOptConfig.model_validate({**config(**{field: [0, 0, 0]}), **extra})
        print("%s of length 3 for 2 objectives: accepted" % field)
        bad.append("%s of a wrong length is accepted" % field)
    except ValueError as exc:
        print("%s of length 3 for 2 objectives: rejected" % field)
print("\n".join(bad) or "ok")
sys.exit(1 if bad else 0)
