import numpy as np, uuid
from ropt.plan import Event, OptimizerContext, Plan
from ropt.enums import EventType
from ropt.plugins.plan._tracker import DefaultTrackerHandler
from ropt.results import FunctionResults, Functions, FunctionEvaluations, Realizations
def fr(obj):
    return FunctionResults(batch_id=None, metadata={}, evaluations=FunctionEvaluations.create(np.zeros(1), np.array([[obj]])),
        realizations=Realizations(failed_realizations=np.array([False])), functions=Functions.create(np.array(obj), np.array([obj])))
plan = Plan(OptimizerContext(evaluator=None)); src = uuid.uuid4()
def run(seq, flip):
    t = DefaultTrackerHandler(plan, what="best", sources={src})
    for v in seq:
        data = {"results": (fr(-v if flip else v),)}
        if flip: data["transformed_results"] = (fr(v),)
        t.handle_event(Event(event_type=EventType.FINISHED_EVALUATION, config=None, source=src, data=data))
    r = t["results"]; return None if r is None else float(r.functions.weighted_objective)
print("C12 best after [nan,3,1]:", run([np.nan,3.0,1.0], False), "(expected 1.0)")
print("C12 maximize, optimizer-domain [3,1,2]: user value kept", run([3.0,1.0,2.0], True), "(expected -1.0)")
