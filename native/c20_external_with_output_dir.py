import os, sys, time, subprocess
import numpy as np
from ropt.evaluator import EvaluatorResult
from ropt.plan import BasicOptimizer
def ev(x, ctx): return EvaluatorResult(objectives=((x-0.5)**2).sum(axis=1, keepdims=True))
cfg={"variables":{"initial_values":[0.0,0.1]},"optimizer":{"method":"external/slsqp","max_functions":3,"output_dir":"/tmp/ext_out"},"gradient":{"number_of_perturbations":2}}
os.makedirs("/tmp/ext_out", exist_ok=True)
try:
    opt=BasicOptimizer(cfg, ev).run()
    print("exit", opt.exit_code)
except Exception as exc:
    print("EXC", type(exc).__name__, str(exc)[:100])
time.sleep(0.5)
out=subprocess.run("ps aux | grep ropt_plugin_optimizer | grep -v grep | wc -l", shell=True, capture_output=True, text=True).stdout.strip()
print("children left:", out)
