import numpy as np
from ropt.config.enopt import EnOptConfig
from ropt.transforms import OptModelTransforms, VariableScaler
tr = OptModelTransforms(variables=VariableScaler(np.array([2.0,4.0]), np.array([1.0,1.0])))
cfg = EnOptConfig.model_validate({"variables":{"initial_values":[0.0,0.0]},
  "linear_constraints":{"coefficients":[[1.0,1.0]],"lower_bounds":[0.0],"upper_bounds":[1.0]}}, context=tr)
lc = cfg.linear_constraints
for name in ("coefficients","lower_bounds","upper_bounds"):
    a = getattr(lc,name); print(name, "writeable:", a.flags.writeable)
try:
    lc.lower_bounds = np.array([5.0]); print("assignment accepted ->", lc.lower_bounds)
except Exception as e: print("assignment rejected:", type(e).__name__, e)
