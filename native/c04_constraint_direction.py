import numpy as np
from ropt.config.enopt import EnOptConfig
from ropt.plugins.realization_filter.default import DefaultRealizationFilter
for lb,ub in ((0.0,np.inf),(-np.inf,0.0),(2.5,2.5)):
    cfg = EnOptConfig.model_validate({"variables":{"initial_values":[0.0]},"realizations":{"weights":[1]*4},
     "nonlinear_constraints":{"lower_bounds":[lb],"upper_bounds":[ub],"realization_filters":[0]},
     "realization_filters":[{"method":"cvar-constraint","options":{"sort":0,"percentile":0.25}}]})
    f=DefaultRealizationFilter(cfg,0)
    print(lb,ub,f.get_realization_weights(np.zeros((4,1)), np.array([[1.0],[2.0],[3.0],[4.0]])))
