"""C15: 'every event is delivered exactly once ... to the observers' - BasicOptimizer.run() registered its callbacks on the shared
optimizer context again at every call, so from the second run() of the same object on every results callback (and abort check)
was invoked twice, three times, ... per event.

Exit status 0: identical runs invoke the results callback equally often (once per FINISHED_EVALUATION event)."""
import sys

import numpy as np

from ropt.evaluator import EvaluatorResult
from ropt.plan import BasicOptimizer

cfg = {"variables": {"initial_values": [0.0, 0.1]}, "optimizer": {"method": "slsqp", "max_functions": 2}, "objectives": {"weights": [1.0]},
       "gradient": {"perturbation_magnitudes": 0.01}}
evaluations, callbacks = [], []


def evaluator(x, ctx):
    if ctx.perturbations is None:
        evaluations.append(len(x))
    return EvaluatorResult(objectives=((x - 0.5) ** 2).sum(axis=1)[:, None])


opt = BasicOptimizer(cfg, evaluator)
opt.set_results_callback(lambda results: callbacks.append(len(results)))
bad, first = 0, None
for run in (1, 2, 3):
    del evaluations[:], callbacks[:]
    opt.run()
    print("run %d: %d evaluator calls for functions, results callback invoked %d times" % (run, len(evaluations), len(callbacks)))
    first = len(callbacks) if first is None else first  # the runs are identical: the same events, hence the same number of callbacks
    bad += len(callbacks) != first
sys.exit(1 if bad else 0)
