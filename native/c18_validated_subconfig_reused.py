"""C18: 'frozen' and 'validation is idempotent' - a validated VariablesConfig / NonlinearConstraintsConfig object that is placed into a
second configuration dictionary and validated with the same transforms in the context was transformed AGAIN, in place: the first
(validated, frozen) configuration changed under the user's feet.

Exit status 0: the validated objects are unchanged by the second validation and the second configuration carries the same values."""
import sys

import numpy as np

from ropt.config.enopt import EnOptConfig
from ropt.transforms import OptModelTransforms, VariableScaler
from ropt.transforms.base import NonLinearConstraintTransform


class ConstraintScaler(NonLinearConstraintTransform):
    def __init__(self, k):
        self.k = k

    def to_optimizer(self, constraints):
        return constraints / self.k

    def from_optimizer(self, constraints):
        return constraints * self.k

    def bounds_to_optimizer(self, lower_bounds, upper_bounds):
        return lower_bounds / self.k, upper_bounds / self.k

    def nonlinear_constraint_diffs_from_optimizer(self, lower_diffs, upper_diffs):
        return lower_diffs * self.k, upper_diffs * self.k


tr = OptModelTransforms(variables=VariableScaler(np.array([2.0, 4.0]), np.array([0.5, -0.5])), nonlinear_constraints=ConstraintScaler(np.array([10.0])))
d = {"variables": {"initial_values": [1.0, 2.0], "lower_bounds": [0.0, 0.0], "upper_bounds": [10.0, 10.0]},
     "nonlinear_constraints": {"lower_bounds": [1.0], "upper_bounds": [5.0]}}
c1 = EnOptConfig.model_validate(d, context=tr)
snap = {"initial_values": c1.variables.initial_values.copy(), "lower_bounds": c1.variables.lower_bounds.copy(), "upper_bounds": c1.variables.upper_bounds.copy(),
        "nl_lower": c1.nonlinear_constraints.lower_bounds.copy(), "nl_upper": c1.nonlinear_constraints.upper_bounds.copy()}
c2 = EnOptConfig.model_validate({"variables": c1.variables, "nonlinear_constraints": c1.nonlinear_constraints}, context=tr)
bad = []
for cfg, name in ((c1, "first configuration"), (c2, "second configuration")):
    now = {"initial_values": cfg.variables.initial_values, "lower_bounds": cfg.variables.lower_bounds, "upper_bounds": cfg.variables.upper_bounds,
           "nl_lower": cfg.nonlinear_constraints.lower_bounds, "nl_upper": cfg.nonlinear_constraints.upper_bounds}
    for k, v in snap.items():
        if not np.array_equal(v, now[k]):
            bad.append("%s: %s was %s, is %s" % (name, k, v, now[k]))
print("\n".join(bad) or "ok: the validated objects are unchanged and the second configuration is equivalent")
sys.exit(1 if bad else 0)
