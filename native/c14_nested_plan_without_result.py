"""C14/C15: a nested optimization that ends without a result (every inner evaluation fails, or the user aborts at the first inner event)
makes the OUTER optimizer step raise TypeError instead of returning NESTED_OPTIMIZER_FAILED / USER_ABORT.

The inner function follows the pattern of tests/test_plan.py::test_nested_plan: it returns the inner tracker's result, which is None
when nothing was tracked.  Exit status 0: the step returns a documented exit code in both situations; 1: an exception escapes."""
import sys

import numpy as np

from ropt.enums import EventType, OptimizerExitCode
from ropt.evaluator import EvaluatorResult
from ropt.exceptions import OptimizationAborted
from ropt.plan import OptimizerContext, Plan

CFG = {
    "variables": {"initial_values": [0.0, 0.2, 0.1], "mask": [True, False, True]},
    "optimizer": {"method": "slsqp", "max_functions": 3, "tolerance": 1e-6},
    "objectives": {"weights": [1.0]},
    "gradient": {"perturbation_magnitudes": 0.01},
}
INNER = dict(CFG, variables={"initial_values": [0.0, 0.2, 0.1], "mask": [False, True, False]})


def run(inner_fails, abort_at_first_inner_event):
    state = {"inner": False}

    def evaluator(x, ctx):
        o = ((x - 0.5) ** 2).sum(axis=1)[:, None]
        if inner_fails and state["inner"]:
            o[:] = np.nan
        return EvaluatorResult(objectives=o)

    ctx = OptimizerContext(evaluator=evaluator)
    inner = Plan(ctx)
    istep = inner.add_step("optimizer")
    itrk = inner.add_handler("tracker", sources={istep})

    def observer(event):
        if abort_at_first_inner_event and event.source == istep:
            raise OptimizationAborted(exit_code=OptimizerExitCode.USER_ABORT)

    ctx.add_observer(EventType.START_OPTIMIZER_STEP, observer)

    def inner_function(plan, variables):
        state["inner"] = True
        try:
            plan.run_step(istep, config=INNER, variables=variables)
        finally:
            state["inner"] = False
        return inner.get(itrk, "results")

    inner.add_function(inner_function)
    outer = Plan(ctx)
    ostep = outer.add_step("optimizer")
    return outer.run_step(ostep, config=CFG, nested_optimization=inner)


bad = 0
for name, kw, want in (("every inner evaluation fails", {"inner_fails": True, "abort_at_first_inner_event": False}, OptimizerExitCode.NESTED_OPTIMIZER_FAILED),
                       ("abort at the first inner event", {"inner_fails": False, "abort_at_first_inner_event": True}, OptimizerExitCode.USER_ABORT)):
    try:
        code = run(**kw)
        ok = code == want
        print("%s: exit code %s (documented: %s)" % (name, code, want))
    except Exception as exc:  # noqa: BLE001
        ok = False
        print("%s: %s escaped from the outer step: %s" % (name, type(exc).__name__, exc))
    bad += not ok
sys.exit(1 if bad else 0)
