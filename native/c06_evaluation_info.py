import numpy as np
from ropt.config.enopt import EnOptConfig
from ropt.ensemble_evaluator import EnsembleEvaluator
from ropt.evaluator import EvaluatorResult
from ropt.plugins import PluginManager
cfg = EnOptConfig.model_validate({"variables":{"initial_values":[0.0]},"realizations":{"weights":[1,1]},"gradient":{"number_of_perturbations":2}})
info = np.array([10.0, 20.0]); info_g = np.arange(6.0)
def ev(x, ctx):
    n = x.shape[0]
    return EvaluatorResult(objectives=np.ones((n,1)), evaluation_info={"tag": info if n == 2 else info_g})
e = EnsembleEvaluator(cfg, None, ev, PluginManager())
r = e.calculate(np.zeros(1), compute_functions=True, compute_gradients=False)[0]
t = r.evaluations.evaluation_info["tag"]
print("functions: shares memory with evaluator's array:", np.shares_memory(t, info), "writeable:", t.flags.writeable)
before = t.copy(); info[0] = -1.0
print("delivered result changed after the evaluator modified its own array:", not np.array_equal(before, r.evaluations.evaluation_info["tag"]))
f, g = e.calculate(np.zeros(1), compute_functions=True, compute_gradients=True)
tg = g.evaluations.evaluation_info["tag"]
print("gradients: shares memory:", np.shares_memory(tg, info_g), "writeable:", tg.flags.writeable)
