"""C06: with split evaluations the activity flags of the gradient request ignored one kind of function when only the other
kind had filter weights.  (a) objectives filtered, constraints not: active_constraints was None, so context.active flagged a
realization inactive that the constraint needs, and a zero configured weight was not flagged for the constraints;
(b) constraints filtered, objectives not: the filter weights were ignored altogether (configured weights used for both).
Exit 0: property holds; 1: violated."""
import sys
import types

import numpy as np

from ropt.ensemble_evaluator._evaluator_results import _get_active_realizations
from ropt.evaluator import EvaluatorContext

cfg = types.SimpleNamespace(realizations=types.SimpleNamespace(weights=np.array([0.5, 0.5, 0.0])), objectives=types.SimpleNamespace(weights=np.ones(1)),
                            nonlinear_constraints=types.SimpleNamespace(lower_bounds=np.zeros(1)))
ok = True
# (a) the objective filter dropped realization 0, the constraint uses the configured weights [0.5, 0.5, 0]
ao, ac = _get_active_realizations(cfg, objective_weights=np.array([[0.0, 1.0, 0.0]]), constraint_weights=None)
ctx = EvaluatorContext(config=cfg, realizations=np.arange(3, dtype=np.intc), active_objectives=ao, active_constraints=ac)
print("(a) active per realization:", ctx.active, " constraint flags:", ac)
ok &= bool(ctx.active[0]) and ac is not None and not bool(ac[0, 2])
# (b) a CVaR filter on the constraint gave weight to realization 2 (configured weight zero)
ao, ac = _get_active_realizations(cfg, objective_weights=None, constraint_weights=np.array([[0.0, 0.5, 0.5]]))
print("(b) constraint flags:", ac)
ok &= ac is not None and bool(ac[0, 2]) and not bool(ac[0, 0])
sys.exit(0 if ok else 1)
