import numpy as np
from ropt.evaluator import EvaluatorResult
from ropt.plan import OptimizerContext, Plan
from ropt.transforms import OptModelTransforms
from ropt.transforms.base import NonLinearConstraintTransform
class CS(NonLinearConstraintTransform):
    def bounds_to_optimizer(self,l,u): return l,u
    def to_optimizer(self,c): return c
    def from_optimizer(self,c): return c
    def nonlinear_constraint_diffs_from_optimizer(self,l,u): return l,u
def ev3(x,ctx): return EvaluatorResult(objectives=np.full((x.shape[0],1),np.nan), constraints=np.zeros((x.shape[0],1)))
for step in ("optimizer","evaluator"):
    plan = Plan(OptimizerContext(evaluator=ev3)); st = plan.add_step(step)
    try: print("C14", step, "step rc:", plan.run_step(st, transforms=OptModelTransforms(nonlinear_constraints=CS()), config={
      "variables":{"initial_values":[0.0],"lower_bounds":[-1.0],"upper_bounds":[1.0]},"nonlinear_constraints":{"lower_bounds":[0.0],"upper_bounds":[1.0]}}))
    except Exception as e: print("C14", step, "step raised", type(e).__name__, e)
