import numpy as np
from ropt.config.enopt import EnOptConfig
from ropt.ensemble_evaluator import EnsembleEvaluator
from ropt.optimization import EnsembleOptimizer
from ropt.evaluator import EvaluatorResult
from ropt.plugins import PluginManager
cfg = EnOptConfig.model_validate({"variables":{"initial_values":[0.0,0.0]},"optimizer":{"method":"slsqp","split_evaluations":True},"gradient":{"number_of_perturbations":2}})
log=[]
def ev(x,ctx):
    log.append(None if ctx.perturbations is None else list(ctx.perturbations)); return EvaluatorResult(objectives=(x**2).sum(axis=1,keepdims=True))
pm=PluginManager()
eo=EnsembleOptimizer(cfg,EnsembleEvaluator(cfg,None,ev,pm),pm)
eo._fixed_variables=np.zeros(2)
g=eo._optimizer._gradient(np.array([1.0,2.0]))
print("labels per evaluator call:",log)
