import numpy as np
from ropt.evaluator import EvaluatorResult
from ropt.plan import OptimizerContext, Plan
from ropt.enums import EventType, OptimizerExitCode
from ropt.exceptions import OptimizationAborted
def ev_ok(x, ctx): return EvaluatorResult(objectives=(x**2).sum(axis=1,keepdims=True))
def boom(ev): raise OptimizationAborted(exit_code=OptimizerExitCode.USER_ABORT)
for step, ets in (("optimizer",(EventType.START_OPTIMIZER_STEP, EventType.START_EVALUATION, EventType.FINISHED_EVALUATION, EventType.FINISHED_OPTIMIZER_STEP)),
                  ("evaluator",(EventType.START_EVALUATOR_STEP, EventType.START_EVALUATION, EventType.FINISHED_EVALUATION, EventType.FINISHED_EVALUATOR_STEP))):
  for et in ets:
    ctx = OptimizerContext(evaluator=ev_ok); seen=[]
    for e2 in EventType: ctx.add_observer(e2, lambda ev, s=seen: s.append(ev.event_type.name))
    ctx.add_observer(et, boom)
    plan = Plan(ctx); st = plan.add_step(step)
    try: rc = plan.run_step(st, config={"variables":{"initial_values":[1.0,1.0]},"optimizer":{"max_functions":2}}); out=f"rc={rc.name}"
    except Exception as e: out=f"raised {type(e).__name__}"
    print(step, "abort at", et.name, "->", out, "aborted=",plan.aborted, "events:", seen)
# C14: evaluator step, filter aborts inside calculate
cfg = {"variables":{"initial_values":[0.0,0.0]},"realizations":{"weights":[1,1],"realization_min_success":0},
       "objectives":{"realization_filters":[0]},"realization_filters":[{"method":"cvar-objective","options":{"sort":[0],"percentile":0.5}}]}
def ev_nan(x, ctx): return EvaluatorResult(objectives=np.full((x.shape[0],1),np.nan))
for step in ("evaluator","optimizer"):
    plan = Plan(OptimizerContext(evaluator=ev_nan)); st = plan.add_step(step)
    try: print("C14", step, "step:", plan.run_step(st, config=cfg))
    except Exception as e: print("C14", step, "step raised", type(e).__name__, e)
