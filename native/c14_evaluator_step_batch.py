import numpy as np
from ropt.evaluator import EvaluatorResult
from ropt.plan import OptimizerContext, Plan
def ev(x, ctx):
    o = (x**2).sum(axis=1, keepdims=True)
    o[x[:, 0] > 0.5] = np.nan      # every realization of the second vector fails
    return EvaluatorResult(objectives=o)
plan = Plan(OptimizerContext(evaluator=ev)); st = plan.add_step("evaluator")
rc = plan.run_step(st, config={"variables": {"initial_values": [0.0]}, "realizations": {"weights": [1, 1]}}, variables=np.array([[0.0], [1.0]]))
print("evaluator step, batch of 2 vectors, the second one has too few realizations ->", rc.name)
rc = plan.run_step(st, config={"variables": {"initial_values": [0.0]}, "realizations": {"weights": [1, 1]}}, variables=np.array([[1.0], [0.0]]))
print("same with the failing vector first ->", rc.name)
