"""C08/C09: with a variable mask only the free variables are exposed to the algorithm - but the `integrality` option that the SciPy
plug-in derives from `variables.types` for differential evolution covers ALL variables, so SciPy gets an integrality vector that
does not fit the (free) variables: a ValueError from SciPy's broadcasting, or - with one free variable - the wrong variable's type.

Exit status 0: the integrality handed to SciPy is that of the free variables (and the run completes); 1 otherwise."""
import sys

import numpy as np

from ropt.enums import VariableType
from ropt.evaluator import EvaluatorResult
from ropt.plan import BasicOptimizer
import ropt.plugins.optimizer.scipy as plug

seen = {}
real_de = plug.differential_evolution


def spy(**kw):
    seen["integrality"] = None if kw.get("integrality") is None else np.asarray(kw["integrality"]).tolist()
    seen["n"] = len(kw["x0"])
    return real_de(**kw)


plug.differential_evolution = spy
cfg = {
    "variables": {"initial_values": [1.0, 0.2, 0.1], "lower_bounds": [0, 0, 0], "upper_bounds": [3, 1, 1],
                  "types": [VariableType.INTEGER, VariableType.REAL, VariableType.REAL], "mask": [True, False, True]},
    "optimizer": {"method": "differential_evolution", "max_functions": 20, "options": {"seed": 1, "popsize": 3, "maxiter": 2}},
    "objectives": {"weights": [1.0]},
}


def evaluator(x, ctx):
    return EvaluatorResult(objectives=((x - 0.5) ** 2).sum(axis=1)[:, None])


try:
    BasicOptimizer(cfg, evaluator).run()
    err = None
except Exception as exc:  # noqa: BLE001
    err = "%s: %s" % (type(exc).__name__, exc)
print("free variables handed to SciPy:", seen.get("n"), "integrality handed to SciPy:", seen.get("integrality"), "exception:", err)
sys.exit(0 if err is None and seen.get("integrality") == [True, False] else 1)
