import numpy as np
from ropt.config.enopt import EnOptConfig
from ropt.ensemble_evaluator import EnsembleEvaluator
from ropt.evaluator import EvaluatorResult
from ropt.plugins import PluginManager
from ropt.transforms import OptModelTransforms
from ropt.transforms.base import ObjectiveTransform
class Sc(ObjectiveTransform):
    def to_optimizer(self, o): return o/10.0
    def from_optimizer(self, o): return o*10.0
    def weighted_objective_from_optimizer(self, w): return w*10.0
tr=OptModelTransforms(objectives=Sc())
cfg = EnOptConfig.model_validate({"variables":{"initial_values":[0.0]},"realizations":{"weights":[1,1]}},context=tr)
memo=EvaluatorResult(objectives=np.array([[100.0],[200.0]]))
def ev(x,ctx): return memo
e=EnsembleEvaluator(cfg,tr,ev,PluginManager())
for i in range(3):
    r=e.calculate(np.zeros(1),compute_functions=True,compute_gradients=False)[0]
    print(r.functions.weighted_objective, memo.objectives.ravel())
