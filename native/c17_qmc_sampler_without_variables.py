import numpy as np
from ropt.config.enopt import EnOptConfig
from ropt.ensemble_evaluator import EnsembleEvaluator
from ropt.evaluator import EvaluatorResult
from ropt.plugins import PluginManager
for m in ("sobol","halton","lhs","norm","uniform"):
    cfg = EnOptConfig.model_validate({"variables":{"initial_values":[0.0,0.1,0.2],"mask":[False,True,True]},
        "gradient":{"number_of_perturbations":2,"samplers":[0,1,1]},
        "samplers":[{"method":m},{"method":"norm"}]})
    def ev(x, ctx): return EvaluatorResult(objectives=(x**2).sum(axis=1, keepdims=True))
    try:
        e = EnsembleEvaluator(cfg, None, ev, PluginManager())
        r = e.calculate(np.array([0.0,0.1,0.2]), compute_functions=True, compute_gradients=True)
        print(m, "ok", r[1].evaluations.perturbed_variables[0,:,0])
    except Exception as exc:
        print(m, "EXC", type(exc).__name__, exc)
