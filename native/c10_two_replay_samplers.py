"""C10: with two samplers, _perturb_variables adds the second sampler's samples IN PLACE into the array returned by the first
sampler.  A sampler that replays a fixed stencil (deterministic injection) therefore returns a corrupted stencil on the next
evaluation: the perturbed vectors of the second gradient evaluation are x + m*(s0 + 2*s1) instead of x + m*(s0 + s1).
Exit 0: property holds; 1: violated."""
import sys
import types

import numpy as np

from ropt.ensemble_evaluator._gradient import _perturb_variables


class Replay:
    def __init__(self, s):
        self.s = s

    def generate_samples(self):
        return self.s


s0 = np.zeros((1, 2, 2)); s0[..., 0] = [[0.5, -0.25]]
s1 = np.zeros((1, 2, 2)); s1[..., 1] = [[0.125, 1.0]]
keep0, keep1 = s0.copy(), s1.copy()
cfg = types.SimpleNamespace(
    gradient=types.SimpleNamespace(samplers=np.array([0, 1], dtype=np.intc), perturbation_magnitudes=np.array([0.1, 0.2]), boundary_types=np.array([1, 1], dtype=np.ubyte)),
    variables=types.SimpleNamespace(lower_bounds=np.full(2, -np.inf), upper_bounds=np.full(2, np.inf)))
x = np.array([1.0, 2.0])
want = x + cfg.gradient.perturbation_magnitudes * (keep0 + keep1)
first = _perturb_variables(cfg, x, [Replay(s0), Replay(s1)])
second = _perturb_variables(cfg, x, [Replay(s0), Replay(s1)])
ok = np.allclose(first, want) and np.allclose(second, want) and np.array_equal(s0, keep0) and np.array_equal(s1, keep1)
print("first ok:", np.allclose(first, want), "second ok:", np.allclose(second, want), "stencil 0 intact:", np.array_equal(s0, keep0))
sys.exit(0 if ok else 1)
