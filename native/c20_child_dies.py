import numpy as np, subprocess, sys
import ropt.plugins.optimizer.external as ext
from ropt.evaluator import EvaluatorResult
from ropt.plan import OptimizerContext, Plan
real = subprocess.Popen
class P(real):
    def __init__(self, args, **kw): super().__init__([sys.executable, "-c", "import sys; sys.exit(3)"], **kw)
ext.subprocess.Popen = P
def ev(x,ctx): return EvaluatorResult(objectives=(x**2).sum(axis=1,keepdims=True))
plan = Plan(OptimizerContext(evaluator=ev)); st = plan.add_step("optimizer")
try: print("C20 child exits 3 immediately -> rc:", plan.run_step(st, config={"variables":{"initial_values":[1.0]},"optimizer":{"method":"external/slsqp"}}).name)
except Exception as e: print("raised", type(e).__name__, e)
