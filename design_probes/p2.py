# Probe: concrete shapes, symbolic reals -> QF_NRA. Proof for correct code and counterexample for mutants.
import time
from z3 import *
def run(N):
    w = [Real(f'w{i}') for i in range(N)]; f=[Real(f'f{i}') for i in range(N)]
    fn=[Bool(f'fn{i}') for i in range(N)]   # f is NaN
    failed = fn  # failed iff nan (single objective)
    wz=[If(failed[i],0,w[i]) for i in range(N)]
    S=Sum(wz)
    code = Sum([If(fn[i],0,f[i])*(wz[i]/S) for i in range(N)])
    tot = Sum([If(failed[i],0,w[i]) for i in range(N)])
    spec = Sum([If(fn[i],0,f[i])*(If(failed[i],0,w[i])/tot) for i in range(N)])
    pre=[wi>=0 for wi in w]+[Sum(w)==1, S>0]
    uni=[If(failed[i],0,RealVal(1)) for i in range(N)]
    muts={"correct":code,
          "dropped":Sum([If(fn[i],0,f[i])*wz[i] for i in range(N)]),
          "uniform":Sum([If(fn[i],0,f[i])*(uni[i]/Sum(uni)) for i in range(N)])}
    for name,c in muts.items():
        s=Solver(); s.set("timeout",30000); s.add(pre); s.add(c!=spec)
        t=time.time(); r=s.check(); dt=round(time.time()-t,3)
        print(N,name,r,dt, (s.model() if r==sat else ""))
for N in (2,3,5): run(N)
