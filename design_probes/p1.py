# Probe: unbounded-N reasoning with lambda arrays + uninterpreted SUM (congruence/extensionality)
import time
from z3 import *
A = ArraySort(IntSort(), RealSort())
SUM = Function('SUM', IntSort(), A, RealSort())   # SUM(n, a) = sum_{k<n} a[k]
n = Int('n'); k = Int('k')
w = Array('w', IntSort(), RealSort())
f = Array('f', IntSort(), RealSort())
fnan = Array('fnan', IntSort(), BoolSort())        # isnan flag of f
failed = Array('failed', IntSort(), BoolSort())

def lam(body):   # zero outside [0,n) so extensionality applies
    return Lambda([k], If(And(k >= 0, k < n), body, RealVal(0)))

# code path: weights = where(failed,0,w); weights /= weights.sum(); dot(nan_to_num(f), weights)
wz = lam(If(failed[k], RealVal(0), w[k]))
S = SUM(n, wz)
wn = lam(wz[k] / S)
code = SUM(n, lam(If(fnan[k], RealVal(0), f[k]) * wn[k]))
# spec, written independently
j = Int('j')
def lamj(body): return Lambda([j], If(And(j >= 0, j < n), body, RealVal(0)))
tot = SUM(n, lamj(If(failed[j], 0, w[j])))
spec = SUM(n, lamj(If(fnan[j], 0, f[j]) * (If(failed[j], 0, w[j]) / tot)))
for name, c in [("correct", code),
                ("dropped-renorm", SUM(n, lam(If(fnan[k], RealVal(0), f[k]) * wz[k]))),
                ("uniform-weights", SUM(n, lam(If(fnan[k], RealVal(0), f[k]) * (If(failed[k],0,1) / SUM(n, lam(If(failed[k],RealVal(0),RealVal(1))))))))]:
    s = Solver(); s.set("timeout", 20000)
    s.add(n >= 1, S != 0, c != spec)
    t = time.time(); r = s.check(); print(name, r, round(time.time()-t, 3))
