import numpy as np, warnings
from ropt.config.enopt import EnOptConfig
from ropt.plugins.optimizer.scipy import SciPyOptimizer
from ropt.results import ConstraintInfo

# ---- C07 stale constraint value: call order obj(x1), con(x1), con(x2)
cfg = EnOptConfig.model_validate({
  "variables": {"initial_values":[0.0,0.0]},
  "nonlinear_constraints": {"lower_bounds":[0.0], "upper_bounds":[np.inf]},
  "optimizer": {"method":"slsqp"},
})
calls=[]
def cb(x, *, return_functions, return_gradients):
    calls.append((x.copy(), return_functions, return_gradients))
    f = np.array([x.sum(), x[0]*10]) if return_functions else np.array([])
    g = np.array([[1.0,1.0],[10.0,0.0]]) if return_gradients else np.array([])
    return f, g
opt = SciPyOptimizer(cfg, cb)
con = opt._constraints[0]
x1=np.array([1.0,1.0]); x2=np.array([2.0,3.0])
opt._function(x1); a=con["fun"](x1); b=con["fun"](x2)
print("C07 con(x1)=",a," con(x2)=",b," expected", x2[0]*10)

# ---- C07 speculative with gradient-free method
cfg2 = EnOptConfig.model_validate({"variables":{"initial_values":[0.0,0.0]},"optimizer":{"method":"nelder-mead","speculative":True}})
calls.clear(); SciPyOptimizer(cfg2, cb)._function(x1); print("C07 speculative NM callback flags:", [(c[1],c[2]) for c in calls])

# ---- C08 max_iterations dropped w/o options
cfg3 = EnOptConfig.model_validate({"variables":{"initial_values":[0.0,0.0]},"optimizer":{"method":"slsqp","max_iterations":3}})
print("C08 options w/o dict:", SciPyOptimizer(cfg3, cb)._options)
cfg4 = EnOptConfig.model_validate({"variables":{"initial_values":[0.0,0.0]},"optimizer":{"method":"slsqp","max_iterations":3,"options":{}}})
o=SciPyOptimizer(cfg4, cb); print("C08 options w {}:", o._options)

# ---- C13 mixed infinite bounds
cfg5 = EnOptConfig.model_validate({"variables":{"initial_values":[0.0,0.0],"lower_bounds":[0.0,-np.inf],"upper_bounds":[np.inf,1.0]}})
print("C13 info:", ConstraintInfo.create(cfg5, np.array([-5.0, 7.0]), None))

# ---- C18
print("C18 optimizer cfg mutable:", end=" ")
try:
    cfg5.optimizer.method = "foo"; print("mutated ->", cfg5.optimizer.method)
except Exception as e: print("rejected", type(e).__name__)
cfg6 = EnOptConfig.model_validate({"variables":{"initial_values":[0.0],"lower_bounds":[0.0],"upper_bounds":[10.0]},"gradient":{"perturbation_types":[2],"perturbation_magnitudes":[0.1]}})
cfg7 = EnOptConfig.model_validate(cfg6.model_dump(round_trip=True))
print("C18 relative magnitudes:", cfg6.gradient.perturbation_magnitudes, "->", cfg7.gradient.perturbation_magnitudes, "writable:", cfg6.gradient.perturbation_magnitudes.flags.writeable)
