import time
from z3 import *
M = DeclareSort('Mat')
mm = Function('mm', M, M, M)
I = Const('I', M)
U,Ut,S,Si,V,Vt,g,D = Consts('U Ut S Si V Vt g D', M)
a,b,c = Consts('a b c', M)
ax = [ForAll([a,b,c], mm(mm(a,b),c) == mm(a,mm(b,c))),
      ForAll([a], mm(I,a) == a),
      # numpy.linalg.svd contract (thin form, full column rank, every sigma selected & >0):
      D == mm(U, mm(S, V)), mm(Ut,U) == I, mm(Vt,V) == I, mm(Si,S) == I]
code = mm(mm(mm(Vt, Si), Ut), mm(D, g))     # v.T.dot(sigma_inv).dot(u.T).dot(vector), vector = D g
s = Solver(); s.set("timeout", 30000); s.add(ax); s.add(code != g)
t=time.time(); print("pinv exactness:", s.check(), round(time.time()-t,3))
# mutant: forgets u.T
s = Solver(); s.set("timeout", 10000); s.add(ax); s.add(mm(mm(Vt, Si), mm(D, g)) != g)
t=time.time(); print("mutant:", s.check(), round(time.time()-t,3))
