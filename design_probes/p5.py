import time
from z3 import *
def chk(name, hyps, goal, to=20000):
    s=Solver(); s.set("timeout",to); s.add(hyps); s.add(Not(goal)); t=time.time(); r=s.check(); print(f"{name:50s}", "PROVED" if r==unsat else r, round(time.time()-t,3))
    return s if r==sat else None
# --- Euclid: (b*R + r) div R == b, mod == r
b,R,r,P,d,p,k,q = Ints('b R r P d p k q')
chk("euclid div", [R>=1, 0<=r, r<R, b>=0], And((b*R+r)/R==b, (b*R+r)%R==r))
# --- C17 reshape WITHOUT transpose: result[r,p,k] = M_flat[(r*P+p)*d+k] -> row=(flat div d)=r*P+p, col = k
flat=(r*P+p)*d+k
chk("reshape no-T row/col", [d>=1,P>=1,R>=1,0<=k,k<d,0<=p,p<P,0<=r,r<R], And(flat/d==r*P+p, flat%d==k))
# --- WITH transpose: M.T has shape (d, R*P); flat index -> (flat div (R*P), flat mod (R*P)) = (col k', row)
#     element = M[flat mod (R*P), flat div (R*P)]; spec wants M[r*P+p, k]
s=chk("reshape with .T equals spec (expected cex)", [d>=1,P>=1,R>=1,0<=k,k<d,0<=p,p<P,0<=r,r<R], And(flat%(R*P)==r*P+p, flat/(R*P)==k))
if s: print("   cex:", s.model())
# --- argsort ghost inverse, _sort_and_select pointwise post at fresh index i
n,m,first,last,i = Ints('n m first last i')
idx=Function('idx',IntSort(),IntSort()); inv=Function('inv',IntSort(),IntSort())
failed=Function('failed',IntSort(),BoolSort()); cfg=Function('cfg',IntSort(),RealSort())
kk=Int('kk')
perm=[ForAll([kk], Implies(And(0<=kk,kk<n), And(0<=idx(kk), idx(kk)<n, inv(idx(kk))==kk)), patterns=[idx(kk)]),
      ForAll([kk], Implies(And(0<=kk,kk<n), And(0<=inv(kk), inv(kk)<n, idx(inv(kk))==kk)), patterns=[inv(kk)]),
      ForAll([kk], Implies(And(0<=kk,kk<n), (kk<m)==Not(failed(idx(kk)))), patterns=[idx(kk)])]  # NaN-last clause of argsort contract
lo=first; hi=If(last+1<m,last+1,m)   # indices[:m][first:last+1]
# code: weights = zeros; weights[idx[k]] = cfg[idx[k]] for k in [lo,hi)  -> by ghost inverse:
w_i = If(And(lo<=inv(i), inv(i)<hi), cfg(i), RealVal(0))
spec_i = If(And(Not(failed(i)), first<=inv(i), inv(i)<=last), cfg(i), RealVal(0))
chk("sort_and_select pointwise", perm+[n>=1,0<=m,m<=n,0<=first,first<=last,last<n,0<=i,i<n], w_i==spec_i)
# mutant: off-by-one slice [first:last]
hi2=If(last<m,last,m); w2=If(And(lo<=inv(i), inv(i)<hi2), cfg(i), RealVal(0))
s=chk("  mutant [first:last] (expected cex)", perm+[n>=1,0<=m,m<=n,0<=first,first<=last,last<n,0<=i,i<n], w2==spec_i)
