import numpy as np
from ropt.config.enopt import EnOptConfig
from ropt.ensemble_evaluator import EnsembleEvaluator
from ropt.optimization import EnsembleOptimizer
from ropt.evaluator import EvaluatorResult
from ropt.plugins import PluginManager
pm = PluginManager()
log=[]
def ev(x, ctx):
    log.append((x.shape[0], None if ctx.perturbations is None else sorted(set(ctx.perturbations.tolist()))))
    return EvaluatorResult(objectives=(x**2).sum(axis=1, keepdims=True))
cfg = EnOptConfig.model_validate({"variables":{"initial_values":[1.0,1.0]},"optimizer":{"method":"slsqp","split_evaluations":True},"gradient":{"number_of_perturbations":2}})
ee = EnsembleEvaluator(cfg, None, ev, pm)
eo = EnsembleOptimizer(cfg, ee, pm)
eo._fixed_variables = np.array([1.0,1.0])
opt = eo._optimizer
opt._gradient(np.array([0.3,0.4]))     # gradient requested first at a new point
print("C07 split, gradient-first: evaluator calls (rows, perturbation labels):", log)
