import time, sys
from z3 import *
F = Float64(); rm = RNE()
def q(nv, fixed=False):
    p = FP('p', F)
    nf = FPVal(float(nv), F); p_max = FPVal(1.0/nv, F)
    prod = fpMul(rm, p, nf)
    n_var_f = fpRoundToIntegral(RTZ(), prod)
    raw = fpSub(rm, p, fpMul(rm, n_var_f, p_max))
    p_var = fpMax(raw, FPVal(0.0,F)) if fixed else raw
    s = Solver(); s.set("timeout", 60000)
    s.add(fpGT(p, FPVal(0.0, F)), fpLEQ(p, FPVal(1.0, F)))
    s.add(fpLT(p_var, FPVal(0.0, F)))
    t=time.time(); r=s.check(); dt=round(time.time()-t,2)
    return r, dt, (s.model()[p] if r==sat else None)
for nv in (3, 10, 7):
    print(nv, q(nv))
