import numpy as np
from ropt.config.enopt import EnOptConfig
from ropt.ensemble_evaluator import EnsembleEvaluator
from ropt.evaluator import EvaluatorResult
from ropt.plugins import PluginManager
from ropt.plan import OptimizerContext, Plan
from ropt.transforms import OptModelTransforms
from ropt.transforms.base import NonLinearConstraintTransform
pm = PluginManager()

# C04 lower-bounded constraint: worst = smallest values
cfg = EnOptConfig.model_validate({
  "variables":{"initial_values":[0.0]},
  "nonlinear_constraints":{"lower_bounds":[0.0],"upper_bounds":[np.inf],"realization_filters":[0]},
  "realizations":{"weights":[1,1,1,1]},
  "realization_filters":[{"method":"cvar-constraint","options":{"sort":0,"percentile":0.25}}]})
cvals = np.array([[1.0],[2.0],[3.0],[4.0]])
def ev(x,ctx): return EvaluatorResult(objectives=np.zeros((4,1)), constraints=cvals.copy())
r = EnsembleEvaluator(cfg,None,ev,pm).calculate(np.zeros(1),compute_functions=True,compute_gradients=False)[0]
print("C04 lower-bounded c>=0, p=.25: weights", r.realizations.constraint_weights[0], "reported", r.functions.constraints, "(worst for >= is smallest = 1.0)")

# C06 zero-weight realization garbage influences sort filter
def run(garbage):
    cfg = EnOptConfig.model_validate({
      "variables":{"initial_values":[0.0]},
      "objectives":{"realization_filters":[0]},
      "realizations":{"weights":[0.5,0.5,0.0],"realization_min_success":1},
      "realization_filters":[{"method":"sort-objective","options":{"sort":[0],"first":0,"last":0}}]})
    seen={}
    def ev(x,ctx):
        seen["active"]=None if ctx.active_objectives is None else ctx.active_objectives.copy()
        return EvaluatorResult(objectives=np.array([[1.0],[2.0],[garbage]]))
    try:
        r=EnsembleEvaluator(cfg,None,ev,pm).calculate(np.zeros(1),compute_functions=True,compute_gradients=False)[0]
        return seen["active"].tolist(), float(r.functions.objectives[0])
    except Exception as e: return seen["active"].tolist(), type(e).__name__+":"+str(getattr(e,'exit_code',''))
print("C06 garbage=+1000:", run(1000.0)); print("C06 garbage=-1000:", run(-1000.0))

# C14 evaluator step: abort raised inside calculate (filter has no positive weight) -> 'results' unbound
def ev2(x,ctx): return EvaluatorResult(objectives=np.array([[1.0],[2.0],[-5.0]]))
plan = Plan(OptimizerContext(evaluator=ev2)); st = plan.add_step("evaluator")
try: print("C14 evaluator step rc:", plan.run_step(st, config={
      "variables":{"initial_values":[0.0]},"objectives":{"realization_filters":[0]},
      "realizations":{"weights":[0.5,0.5,0.0]},
      "realization_filters":[{"method":"sort-objective","options":{"sort":[0],"first":0,"last":0}}]}))
except Exception as e: print("C14 evaluator step raised", type(e).__name__, e)

# C14 transform assertion: nonlinear transform + too few realizations -> functions None -> no nonlinear diffs
class CS(NonLinearConstraintTransform):
    def bounds_to_optimizer(self,l,u): return l,u
    def to_optimizer(self,c): return c
    def from_optimizer(self,c): return c
    def nonlinear_constraint_diffs_from_optimizer(self,l,u): return l,u
def ev3(x,ctx): return EvaluatorResult(objectives=np.full((x.shape[0],1),np.nan), constraints=np.zeros((x.shape[0],1)))
plan = Plan(OptimizerContext(evaluator=ev3)); st = plan.add_step("optimizer")
try: print("C14 optimizer step rc:", plan.run_step(st, transforms=OptModelTransforms(nonlinear_constraints=CS()), config={
      "variables":{"initial_values":[0.0]},"nonlinear_constraints":{"lower_bounds":[0.0],"upper_bounds":[1.0]}}))
except Exception as e: print("C14 optimizer step raised", type(e).__name__, e)
