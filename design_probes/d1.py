import numpy as np, warnings
from ropt.config.enopt import EnOptConfig
from ropt.ensemble_evaluator import EnsembleEvaluator
from ropt.evaluator import EvaluatorResult
from ropt.plugins import PluginManager
from ropt.plugins.realization_filter.default import _get_cvar_weights_from_percentile
from ropt.ensemble_evaluator._gradient import _apply_bounds
from ropt.enums import BoundaryType

pm = PluginManager()
# ---- C01: configured non-uniform weights, obj0 filtered, obj1 unfiltered
cfg = EnOptConfig.model_validate({
  "variables": {"initial_values":[0.0,0.0]},
  "objectives": {"weights":[0.5,0.5], "realization_filters":[0,-1]},
  "realizations": {"weights":[0.7,0.2,0.1]},
  "realization_filters":[{"method":"sort-objective","options":{"sort":[0],"first":0,"last":1}}],
})
vals = np.array([[1.0,10.0],[2.0,20.0],[3.0,40.0]])
def ev(x, ctx): return EvaluatorResult(objectives=np.tile(vals,(x.shape[0]//3,1)))
r = EnsembleEvaluator(cfg, None, ev, pm).calculate(np.zeros(2), compute_functions=True, compute_gradients=False)[0]
print("C01 obj1 reported", r.functions.objectives[1], "expected", float(np.dot(vals[:,1],[0.7,0.2,0.1])), "weights row", r.realizations.objective_weights[1])

# ---- C04
w = _get_cvar_weights_from_percentile(np.arange(10.0), np.zeros(10,bool), 0.7)
print("C04 min weight", w.min(), "nonzero", np.count_nonzero(w))
try:
    _get_cvar_weights_from_percentile(np.arange(3.0), np.ones(3,bool), 0.5)
except Exception as e: print("C04 all failed ->", type(e).__name__)

# ---- C10
print("C10 NONE:", _apply_bounds(np.array([1.5,-0.5]), np.zeros(2), np.ones(2), np.array([BoundaryType.NONE]*2,dtype=np.ubyte)))
