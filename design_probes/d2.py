import numpy as np, warnings
from ropt.config.enopt import EnOptConfig
from ropt.ensemble_evaluator import EnsembleEvaluator
from ropt.evaluator import EvaluatorResult
from ropt.plugins import PluginManager
pm = PluginManager()

# ---- C02 merged gradient on affine ensemble, shared perturbations
slopes = np.array([[1.0,2.0],[3.0,-1.0],[0.5,0.5]])
def ev(x, ctx):
    return EvaluatorResult(objectives=np.array([[slopes[r] @ xi + r] for xi, r in zip(x, ctx.realizations)]))
for merge in (False, True):
    cfg = EnOptConfig.model_validate({
      "variables": {"initial_values":[0.0,0.0]},
      "realizations": {"weights":[0.5,0.3,0.2]},
      "gradient": {"number_of_perturbations": 4, "merge_realizations": merge, "perturbation_magnitudes": 0.1},
      "samplers":[{"method":"norm","shared":True}],
    })
    f,g = EnsembleEvaluator(cfg, None, ev, pm).calculate(np.zeros(2), compute_functions=True, compute_gradients=True)
    print("C02 merge",merge, g.gradients.weighted_objective, "true", np.array([0.5,0.3,0.2])@slopes)

# ---- C06 evaluator array mutation
cfg = EnOptConfig.model_validate({
  "variables": {"initial_values":[0.0,0.0]},
  "nonlinear_constraints": {"lower_bounds":[0.0], "upper_bounds":[1.0]},
  "realizations": {"weights":[1,1], "realization_min_success":1},
})
O = np.array([[1.0],[np.nan]]); C = np.array([[5.0],[6.0]])
def ev2(x, ctx): return EvaluatorResult(objectives=O, constraints=C)
EnsembleEvaluator(cfg, None, ev2, pm).calculate(np.zeros(2), compute_functions=True, compute_gradients=False)
print("C06 evaluator's constraint array after call:", C.ravel())

# ---- C17 QMC point integrity
from ropt.plugins.sampler.scipy import SciPySampler
from numpy.random import default_rng
from scipy.stats.qmc import LatinHypercube, scale
cfg = EnOptConfig.model_validate({
  "variables": {"initial_values":[0.0,0.0,0.0]},
  "realizations": {"weights":[1,1]},
  "gradient": {"number_of_perturbations": 4},
  "samplers":[{"method":"lhs"}],
})
s = SciPySampler(cfg, 0, None, default_rng(3)).generate_samples()
ref = scale(LatinHypercube(3, seed=default_rng(3)).random(8), [-1]*3, [1]*3)
print("C17 lhs points equal underlying:", np.allclose(s.reshape(8,3), ref), " strata per var:", [sorted(np.floor((s.reshape(8,3)[:,k]+1)*4).astype(int)) for k in range(3)])
