# Probe: IEEE-754 double reasoning for the CVaR scalar kernel
import time
from z3 import *
F = Float64(); rm = RNE()
p = FP('p', F); n = Int('n')
N = 64
nf = fpToFP(rm, ToReal(n), F)            # float(n)  (exact for small ints)
p_max = fpDiv(rm, FPVal(1.0, F), nf)
prod = fpMul(rm, p, nf)
# int(): truncate toward zero
n_var_f = fpRoundToIntegral(RTZ(), prod)
p_var = fpSub(rm, p, fpMul(rm, n_var_f, p_max))
s = Solver(); s.set("timeout", 120000)
s.add(n >= 1, n <= N, fpGT(p, FPVal(0.0, F)), fpLEQ(p, FPVal(1.0, F)))
s.add(fpLT(p_var, FPVal(0.0, F)))
t=time.time(); r=s.check(); print("neg p_var:", r, round(time.time()-t,2))
if r==sat:
    m=s.model(); print(m[n], m[p], float(eval(str(m.eval(fpToReal(p))).replace('?',''))) if False else m.eval(p))
