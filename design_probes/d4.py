import numpy as np, warnings, traceback
from ropt.config.enopt import EnOptConfig
from ropt.evaluator import EvaluatorResult
from ropt.plan import BasicOptimizer, OptimizerContext, Plan
from ropt.enums import EventType, OptimizerExitCode
from ropt.exceptions import OptimizationAborted
from ropt.transforms import OptModelTransforms
from ropt.transforms.base import ObjectiveTransform

# ---- C12 NaN first result (DE allows nan) -- emulate through tracker util directly
from ropt.plugins.plan._utils import _update_optimal_result
from ropt.results import FunctionResults, Functions, FunctionEvaluations, Realizations
def fr(obj):
    return FunctionResults(batch_id=None, metadata={}, evaluations=FunctionEvaluations.create(np.zeros(1), np.array([[obj]])),
        realizations=Realizations(failed_realizations=np.array([False])), functions=Functions.create(np.array(obj), np.array([obj])))
best=None
for v in [np.nan, 3.0, 1.0]:
    n=_update_optimal_result(best,(fr(v),),(fr(v),),1e-10); best = n if n is not None else best
print("C12 best after [nan,3,1]:", best.functions.weighted_objective)
# maximization transform: user-domain objective = -optimizer-domain
best=None
for v in [3.0, 1.0, 2.0]:   # optimizer-domain values (minimized); user sees -v
    n=_update_optimal_result(best,(fr(-v),),(fr(v),),1e-10); best = n if n is not None else best
print("C12 maximize: optimizer-domain best should be 1.0; tracker kept user value", best.functions.weighted_objective, "(i.e. optimizer-domain", -float(best.functions.weighted_objective),")")

# ---- C14 evaluator step with aborting filter -> UnboundLocalError
cfg = {"variables":{"initial_values":[0.0,0.0]},"realizations":{"weights":[1,1],"realization_min_success":0},
       "objectives":{"realization_filters":[0]},"realization_filters":[{"method":"cvar-objective","options":{"sort":[0],"percentile":0.5}}]}
def ev_nan(x, ctx): return EvaluatorResult(objectives=np.full((x.shape[0],1),np.nan))
plan = Plan(OptimizerContext(evaluator=ev_nan)); st = plan.add_step("evaluator")
try: print("C14 evaluator step:", plan.run_step(st, config=cfg))
except Exception as e: print("C14 evaluator step raised", type(e).__name__, e)
plan = Plan(OptimizerContext(evaluator=ev_nan)); st = plan.add_step("optimizer")
try: print("C14 optimizer step:", plan.run_step(st, config=cfg))
except Exception as e: print("C14 optimizer step raised", type(e).__name__, e)

# ---- C15 abort at START_OPTIMIZER_STEP
def ev_ok(x, ctx): return EvaluatorResult(objectives=(x**2).sum(axis=1,keepdims=True))
for et in (EventType.START_OPTIMIZER_STEP, EventType.START_EVALUATION, EventType.FINISHED_EVALUATION, EventType.FINISHED_OPTIMIZER_STEP):
    ctx = OptimizerContext(evaluator=ev_ok); seen=[]
    for e2 in EventType: ctx.add_observer(e2, lambda ev, s=seen: s.append(ev.event_type.name))
    def boom(ev): raise OptimizationAborted(exit_code=OptimizerExitCode.USER_ABORT)
    ctx.add_observer(et, boom)
    plan = Plan(ctx); st = plan.add_step("optimizer")
    try: rc = plan.run_step(st, config={"variables":{"initial_values":[1.0,1.0]},"optimizer":{"max_functions":2}}); out=f"rc={rc.name}"
    except Exception as e: out=f"raised {type(e).__name__}"
    print("C15 abort at", et.name, "->", out, "aborted=",plan.aborted, "events:", seen[:2], "...", seen[-1])
