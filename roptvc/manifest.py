"""Regenerate MANIFEST.json from the contract modules that exist (python -m roptvc.manifest)."""
from __future__ import annotations

import importlib
import json
import os
import sys

HERE = os.path.dirname(os.path.dirname(os.path.abspath(__file__)))
sys.path.insert(0, HERE)
import roptvc  # noqa: E402,F401

NOT_APPLICABLE = {}  # property -> reason (filled from contracts/NOT_APPLICABLE.json)


def main():
    props = [json.loads(l)["id"] for l in open(os.path.join(HERE, "properties.jsonl"))]
    na_path = os.path.join(HERE, "contracts", "NOT_APPLICABLE.json")
    na = json.load(open(na_path)) if os.path.exists(na_path) else {}
    checks, not_app, served = [], [], []
    for p in props:
        if os.path.exists(os.path.join(HERE, "contracts", p + ".py")) and p not in na:
            mod = importlib.import_module("contracts." + p)
            m = mod.MANIFEST
            served.append(p)
            checks.append({
                "property_id": p,
                "quick_cmd": "bin/check %s --tier quick" % p,
                "thorough_cmd": "bin/check %s --tier thorough" % p,
                "evidence_file": "evidence/%s.json" % p,
                "replay_cmd_template": "bin/replay {path}",
                "engine": "roptvc",
                "level_claimed": {"category": m["category"], "text": m["text"], "design_ref": m.get("design_ref", "DESIGN.md section 7, %s" % p)},
                "level_note": m["note"],
                "technique": m["technique"],
            })
        else:
            not_app.append({"property_id": p, "reason": na.get(p, "check not built yet (build in progress; see DESIGN.md section 10.2)")})
    man = {
        "version": 1,
        "setup_cmd": "bin/ensure-env",
        "hooks": {
            "guard": "TNO_ROPT_ROPT_VERIF",
            "enable": "no hooks: contracts are sidecar files under /verif/contracts and the checks read /repo's current source; /repo carries no instrumentation, so there is nothing to switch on",
            "baseline_off_cmd": "cd /repo && /venv/bin/python -m pytest -ra -q -p no:cacheprovider --timeout=900 --continue-on-collection-errors",
            "source_commits": [],
            "add_only": True,
        },
        "engines": [{
            "name": "roptvc", "path": "roptvc/", "serves_properties": served,
            "kind_free_text": "contract checker for the real Python source: every run re-reads the modules under /repo/src, executes the real function bodies with symbolic proxy values (extended reals, booleans, integers in NumPy object arrays; `np` replaced by a modelled shim; callees under contract replaced by contract stubs), forks on every symbolic branch and discharges each `path condition => post-condition` with z3 (cvc5 as second opinion). The same scenario text is also run on the unshadowed code with random concrete inputs (bounded run-time contract checking) and with the solver's counter-model (replay).",
        }],
        "checks": checks,
        "notes": "Exit codes of every check: 0 held / 1 violation (VIOLATION lines) / 2 undecided (solver unknown or construct outside the engine) / 3 checker failure. Known findings and repaired defects: known_findings.txt. VERIF_REPO=<tree> checks another tree (used by bin/mutant).",
        "not_applicable": not_app,
    }
    json.dump(man, open(os.path.join(HERE, "MANIFEST.json"), "w"), indent=1)
    print("checks:", served, "not applicable/not built:", [n["property_id"] for n in not_app])


if __name__ == "__main__":
    main()
