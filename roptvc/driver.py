"""bin/check driver: run all scenarios of one property, decide, write evidence.

Exit codes: 0 held on everything explored / 1 violation / 2 undecided / 3 checker failure.
"""
from __future__ import annotations

import argparse
import hashlib
import importlib
import json
import multiprocessing as mp
import os
import re
import sys
import time
import traceback

HERE = os.path.dirname(os.path.dirname(os.path.abspath(__file__)))
sys.path.insert(0, HERE)
OUT = os.environ.get("ROPTVC_OUT", HERE)  # where evidence/ and replays/ are written (self-tests redirect it)

import roptvc  # noqa: E402,F401  (puts $VERIF_REPO/src first on sys.path)
import numpy as rnp  # noqa: E402

from roptvc import engine as eng  # noqa: E402
from roptvc import extract, snp, sym  # noqa: E402

TRUSTED_BASE = [
    "z3 5.1 (Python API, z3-solver wheel); /usr/bin/cvc5 1.0.3 as second opinion on z3 'unknown'",
    "CPython 3.12 as the interpreter of the code under verification (the real source text is compiled and run with proxy values)",
    "roptvc: symbolic scalar semantics (roptvc/sym.py), NumPy value-operation models (roptvc/snp.py); structural NumPy operations are executed by NumPy itself on object arrays",
    "floats are extended reals: exact arithmetic on finite values, IEEE-754 NaN/inf propagation; no rounding, no overflow, no signed zero",
]


class Scenario:
    def __init__(self, name, fn, cases, concrete=None, doc=""):
        self.name, self.fn, self.cases = name, fn, cases
        self.concrete = concrete or {"quick": 5, "thorough": 50}
        self.doc = doc


def load_known(prop):
    known, fixed = {}, []
    p = os.path.join(HERE, "known_findings.txt")
    if os.path.exists(p):
        for line in open(p):
            line = line.strip()
            m = re.match(r"finding:\s+property=(\S+)\s+key=(\S+)\s+(.*)", line)
            if m and m.group(1) == prop:
                known[m.group(2)] = m.group(3)
            m = re.match(r"fixed:\s+property=(\S+)\s+(\S+)\s+(.*)", line)
            if m and m.group(1) == prop:
                fixed.append((m.group(2), m.group(3)))
    return known, fixed


def _seed_for(seed, *parts):
    h = hashlib.sha256(("%d|" % seed + "|".join(map(str, parts))).encode()).digest()
    return int.from_bytes(h[:8], "little")


def _work(args):
    """Worker: one (scenario, case)."""
    prop, modname, sc_name, case_id, case, tier, seed = args
    t0 = time.time()
    out = {"scenario": sc_name, "case_id": case_id, "results": [], "functions": {}, "assumed": {}, "undecided": [], "paths": 0,
           "vacuous": 0, "samples": [], "concrete_runs": 0, "concrete_distinct": 0, "concrete_counts": {}, "concrete_failures": [],
           "replays": [], "error": None, "oplog": [], "concrete_sample": None}
    try:
        mod = importlib.import_module(modname)
        sc = next(s for s in mod.SCENARIOS if s.name == sc_name)
        E = eng.Engine(prop)
        snp.OPLOG.clear()
        symbolic = not case.get("__concrete_only__", False) if isinstance(case, dict) else True
        if symbolic:
            E.explore(sc.fn, case, case_id)
        out["oplog"] = sorted(snp.OPLOG)
        # replay of refuted instances on the real code
        for r in E.results:
            if r.status == "refuted" and r.model is not None:
                rng = rnp.random.default_rng(0)
                try:
                    T, st = E.run_concrete(sc.fn, case, case_id, rng, given=eng.from_jsonable(r.model) if False else {k: eng.from_jsonable(v) for k, v in r.model.items()})
                    names = [n for n, _ in T.failed]
                    exc = None
                except BaseException as exc_:  # noqa: BLE001
                    names, exc = [], "%s: %s" % (type(exc_).__name__, exc_)
                reproduced = r.name in names or (r.name.endswith("no_unexpected_exception") and exc is not None)
                out["replays"].append({"name": r.name, "case_id": case_id, "reproduced": bool(reproduced), "native_failed": names, "native_exception": exc})
        E.concrete_failures.clear()
        E.concrete_runs = 0
        E.concrete_distinct = set()
        E.concrete_counts = {}
        # bounded run-time contract checking on the real code
        n = sc.concrete.get(tier, 0) if isinstance(sc.concrete, dict) else int(sc.concrete)
        rng = rnp.random.default_rng(_seed_for(seed, prop, sc_name, case_id))
        # n runs whose inputs satisfy the pre-conditions of the scenario (a draw rejected by an `assume` is drawn again, up to 25 n draws)
        attempts = done = 0
        while done < n and attempts < 25 * n:
            attempts += 1
            try:
                T, st = E.run_concrete(sc.fn, case, case_id, rng)
                if st == "unbound":
                    break
                done += st == "ok"
                if out["concrete_sample"] is None and st == "ok":
                    out["concrete_sample"] = {"scenario": sc_name, "case": case_id, "inputs": eng.to_jsonable(T.inputs)}
            except BaseException as exc:  # noqa: BLE001
                if isinstance(exc, (KeyboardInterrupt, sym.EngineError)):
                    raise
                done += 1
                E.concrete_failures.append(("%s.no_unexpected_exception" % prop, case_id, eng.to_jsonable(getattr(T, "inputs", {})) if "T" in dir() else {}, "%s: %s\n%s" % (type(exc).__name__, exc, traceback.format_exc(limit=-5))))
        out["results"] = [r.as_dict() for r in E.results]
        out["functions"] = E.functions
        out["assumed"] = E.assumed
        out["undecided"] = E.undecided
        out["paths"] = E.paths
        out["vacuous"] = E.vacuous_paths
        out["samples"] = E.samples
        out["concrete_runs"] = E.concrete_runs
        out["concrete_planned"] = n
        out["concrete_distinct"] = len(E.concrete_distinct)
        out["concrete_counts"] = E.concrete_counts
        out["concrete_failures"] = E.concrete_failures
    except BaseException as exc:  # noqa: BLE001
        out["error"] = "%s: %s\n%s" % (type(exc).__name__, exc, traceback.format_exc())
    out["wall"] = time.time() - t0
    return out


def _child(conn, task):
    try:
        conn.send(_work(task))
    except BaseException as exc:  # noqa: BLE001
        try:
            conn.send({"__died__": "%s: %s" % (type(exc).__name__, exc)})
        except Exception:  # noqa: BLE001
            pass
    finally:
        conn.close()


def _lost(task, why):
    """A case whose worker process died or ran out of time: undecided, never a verdict about the code."""
    return {"scenario": task[2], "case_id": task[3], "results": [], "functions": {}, "assumed": {}, "undecided": [(task[3], why)], "paths": 0,
            "vacuous": 0, "samples": [], "concrete_runs": 0, "concrete_distinct": 0, "concrete_counts": {}, "concrete_failures": [],
            "replays": [], "error": None, "oplog": [], "concrete_sample": None, "wall": 0.0}


def run_tasks(tasks, jobs, case_timeout):
    """One forked process per case (a solver crash or hang loses that case only)."""
    if jobs <= 1 and os.environ.get("ROPTVC_INPROCESS"):
        return [_work(t) for t in tasks]
    ctxm = mp.get_context("fork")
    pending = list(enumerate(tasks))[::-1]
    running, results = {}, [None] * len(tasks)
    while pending or running:
        while pending and len(running) < jobs:
            idx, task = pending.pop()
            parent, child = ctxm.Pipe(duplex=False)
            proc = ctxm.Process(target=_child, args=(child, task), daemon=True)
            proc.start()
            child.close()
            running[idx] = (proc, parent, time.time(), task)
        progressed = False
        for idx in list(running):
            proc, conn, t_start, task = running[idx]
            if conn.poll():
                try:
                    res = conn.recv()
                except EOFError:
                    res = {"__died__": "worker closed the pipe"}
                proc.join(5)
                results[idx] = _lost(task, "worker failed: " + res["__died__"]) if "__died__" in res else res
                del running[idx]
                progressed = True
            elif not proc.is_alive():
                # the worker may have sent its result and exited between the poll above and this test: look again before
                # declaring it dead (a result that is in the pipe is never thrown away)
                res = None
                if conn.poll(0.5):
                    try:
                        res = conn.recv()
                    except EOFError:
                        res = None
                if res is not None:
                    results[idx] = _lost(task, "worker failed: " + res["__died__"]) if "__died__" in res else res
                else:
                    results[idx] = _lost(task, "worker process died (exit code %s): solver crash?" % proc.exitcode)
                del running[idx]
                progressed = True
            elif time.time() - t_start > case_timeout:
                proc.terminate()
                proc.join(5)
                results[idx] = _lost(task, "case exceeded %d s" % case_timeout)
                del running[idx]
                progressed = True
        if not progressed:
            time.sleep(0.01)
    return results


def safe_name(s):
    return re.sub(r"[^A-Za-z0-9_.\-\[\]=,]+", "_", s)[:150]


def main(argv=None):
    ap = argparse.ArgumentParser()
    ap.add_argument("prop")
    ap.add_argument("--tier", default=os.environ.get("VERIF_TIER", "quick"), choices=["quick", "thorough"])
    ap.add_argument("--jobs", type=int, default=int(os.environ.get("ROPTVC_JOBS", "16")))
    ap.add_argument("--update-lock", action="store_true")
    ap.add_argument("--only", default=None, help="run only this scenario (debugging; evidence not written)")
    a = ap.parse_args(argv)
    prop, tier = a.prop, a.tier
    os.environ["VERIF_TIER_EFFECTIVE"] = tier
    seed = int(os.environ.get("VERIF_SEED", "0") or 0)
    t0 = time.time()
    modname = "contracts.%s" % prop
    try:
        mod = importlib.import_module(modname)
    except Exception:  # noqa: BLE001
        traceback.print_exc()
        print("CHECKER-ERROR property=%s cannot load contracts" % prop)
        return 3
    known, fixed = load_known(prop)

    tasks = []
    for sc in mod.SCENARIOS:
        if a.only and sc.name != a.only:
            continue
        if not a.only:
            os.environ.pop("ROPTVC_CASE_FILTER", None)
        for case_id, case in sc.cases(tier):
            if os.environ.get("ROPTVC_CASE_FILTER") and os.environ["ROPTVC_CASE_FILTER"] not in case_id:
                continue  # debugging aid, only honoured together with --only
            tasks.append((prop, modname, sc.name, case_id, case, tier, seed))
    if not tasks:
        print("CHECKER-ERROR property=%s no cases generated" % prop)
        return 3
    jobs = max(1, min(a.jobs, len(tasks)))
    sigdir = None
    if a.update_lock:
        # record the parameter lists of the private functions the scenarios enter by (see engine.signature_guard)
        import tempfile

        sigdir = tempfile.mkdtemp(prefix="sigs-", dir=os.path.join(HERE, ".tmp") if os.path.isdir(os.path.join(HERE, ".tmp")) else None)
        os.environ["ROPTVC_RECORD_SIGNATURES"] = sigdir
    outs = run_tasks(tasks, jobs, int(os.environ.get("ROPTVC_CASE_TIMEOUT_S", "600" if tier == "quick" else "1800")))
    if sigdir:
        import shutil

        os.environ.pop("ROPTVC_RECORD_SIGNATURES", None)
        sig_path = os.path.join(HERE, "contracts", "SIGNATURES.lock.json")
        sigs = json.load(open(sig_path)) if os.path.exists(sig_path) else {}
        for fn in os.listdir(sigdir):
            for line in open(os.path.join(sigdir, fn)):
                try:
                    k, v = json.loads(line)
                    sigs[k] = v
                except ValueError:
                    pass
        json.dump(sigs, open(sig_path, "w"), indent=1, sort_keys=True)
        shutil.rmtree(sigdir, ignore_errors=True)

    # ---- aggregate
    errors = [o for o in outs if o["error"]]
    inst = []  # obligation instances
    functions, assumed, undecided, samples = {}, {}, [], []
    paths = vac = conc_runs = conc_distinct = 0
    conc_counts, conc_fail, replays, oplogs = {}, [], {}, {}
    conc_sample = None
    for o in outs:
        for r in o["results"]:
            r["scenario"] = o["scenario"]
            inst.append(r)
        functions.update(o["functions"])
        assumed.update(o["assumed"])
        undecided += [(o["scenario"], c, why) for c, why in o["undecided"]]
        samples += o["samples"]
        paths += o["paths"]
        vac += o["vacuous"]
        conc_runs += o["concrete_runs"]
        if o.get("concrete_planned", 0) and o["concrete_runs"] < o["concrete_planned"] and os.environ.get("ROPTVC_REPORT_STARVED"):
            print("STARVED scenario=%s case=%s runs=%d planned=%d" % (o["scenario"], o["case_id"], o["concrete_runs"], o["concrete_planned"]))
        conc_distinct += o["concrete_distinct"]
        for k, v in o["concrete_counts"].items():
            conc_counts[k] = conc_counts.get(k, 0) + v
        for f in o["concrete_failures"]:
            conc_fail.append((o["scenario"],) + tuple(f))
        for rp in o["replays"]:
            replays[(o["scenario"], rp["case_id"], rp["name"])] = rp
        oplogs.setdefault(o["scenario"], set()).update(o["oplog"])
        if conc_sample is None and o["concrete_sample"] is not None:
            conc_sample = o["concrete_sample"]

    names = sorted({r["name"] for r in inst})
    by_name = {n: [r for r in inst if r["name"] == n] for n in names}
    refuted = [r for r in inst if r["status"] in ("refuted", "refuted-nomodel")]
    unknown = [r for r in inst if r["status"] == "unknown"]

    lock_path = os.path.join(HERE, "contracts", "OBLIGATIONS.lock.json")
    lock = json.load(open(lock_path)) if os.path.exists(lock_path) else {}
    if a.update_lock:
        lock.setdefault(prop, {})[tier] = names
        json.dump(lock, open(lock_path, "w"), indent=1, sort_keys=True)
    expected = set(lock.get(prop, {}).get(tier, []))
    missing = sorted(n for n in expected - set(names) if not n.endswith("no_unexpected_exception"))

    # ---- violations
    os.makedirs(os.path.join(OUT, "replays", prop), exist_ok=True)
    casemap = {(t[2], t[3]): t[4] for t in tasks}
    lines, nviol, known_hit = [], 0, {}
    seen_v = set()

    def report(name, scenario, case_id, inputs, how, detail, reproduced, solver_output=""):
        nonlocal nviol
        if name in known:
            known_hit[name] = known[name]
            return
        key = (name, scenario)
        first = key not in seen_v
        seen_v.add(key)
        path = os.path.join(OUT, "replays", prop, safe_name("%s__%s__%s.json" % (name, scenario, case_id)))
        json.dump({"property": prop, "obligation": name, "scenario": scenario, "case_id": case_id, "case": casemap.get((scenario, case_id)),
                   "inputs": inputs, "found_by": how, "reproduced_on_real_code": reproduced, "detail": detail, "solver_output": solver_output},
                  open(path, "w"), indent=1, default=repr)
        if first:
            nviol += 1
            lines.append("VIOLATION property=%s replay=%s obligation=%s case=%s%s" % (prop, path, name, case_id, "" if reproduced else " no-failing-input-found"))

    for r in list(refuted):
        rp = replays.get((r["scenario"], r["case"], r["name"]))
        reproduced = bool(rp and rp["reproduced"])
        no_symbolic_inputs = isinstance(r.get("model"), dict) and r["model"].get("__symbolic_inputs__") is False
        if no_symbolic_inputs and not reproduced and rp is not None and rp.get("native_exception") is None:
            # the failing path has no symbolic input at all, so the native run of the same scenario is decisive: it passed,
            # hence the failure is an artefact of the engine (undecided), never reported as a violation
            undecided.append((r["scenario"], r["case"], "obligation %s fails under the engine on a fully concrete path but holds natively (engine artefact)" % r["name"]))
            refuted.remove(r)
            continue
        if r["name"].endswith("no_unexpected_exception") and not reproduced:
            # an exception seen only under symbolic execution: the native run on the counter-model is decisive for
            # exceptions, so this is an engine limitation (undecided), never reported as a violation
            undecided.append((r["scenario"], r["case"], "exception under symbolic execution not reproduced natively: " + r["detail"].splitlines()[0]))
            refuted.remove(r)
            continue
        report(r["name"], r["scenario"], r["case"], r["model"], "symbolic counter-model (%s)" % r["backend"], r["detail"], reproduced,
               solver_output="sat; model=%s; native replay=%s" % (json.dumps(r["model"], default=repr)[:2000], rp))
    for scn, name, case_id, inputs, detail in conc_fail:
        report(name, scn, case_id, inputs, "run-time contract on the real code (bounded)", detail, True)

    # ---- verdict
    status = 0
    lost_proof = False
    if errors:
        for o in errors[:3]:
            print("CHECKER-ERROR property=%s scenario=%s case=%s\n%s" % (prop, o["scenario"], o["case_id"], o["error"]))
        status = 3
    for ln in lines:
        print(ln)
    for k, txt in known_hit.items():
        print("KNOWN-FINDING: property=%s %s: %s" % (prop, k, txt))
    if nviol:
        status = 1 if status != 3 else 3
    elif status == 0 and (unknown or undecided or missing):
        # Lost proof (DESIGN section 4): some obligation could not be decided deductively (solver 'unknown', a construct outside
        # the engine, an obligation of the locked baseline not generated).  That is never an alarm.  If the bounded run-time
        # contract checks of the same scenarios ran on the real code and found nothing, the property is reported as held at the
        # bounded level only (exit 0, level downgraded in the evidence); without any such evidence the verdict is 'undecided' (2).
        tag = "LOST-PROOF" if conc_runs > 0 else "UNDECIDED"
        status = 0 if conc_runs > 0 else 2
        lost_proof = True
        for r in unknown[:5]:
            print("%s property=%s obligation=%s case=%s (solver: unknown)" % (tag, prop, r["name"], r["case"]))
        for scn, c, why in undecided[:5]:
            print("%s property=%s scenario=%s case=%s %s" % (tag, prop, scn, c, why))
        for n in missing[:5]:
            print("%s property=%s obligation %s of the locked baseline was not generated" % (tag, prop, n))
        if status == 0:
            print("LOST-PROOF property=%s: held at the bounded level only (%d run-time contract checks on the real code, no violation)" % (prop, conc_runs))
    # scenarios whose per-shape proof is claimed to hold for every shape because the code is element-wise: the claim is checked
    claims = getattr(mod, "ALL_SHAPES_BY_ELEMENTWISE", ())
    elementwise_claims = {}
    for scn_name in claims:
        ops = sorted(oplogs.get(scn_name, ()))
        bad = [o for o in ops if o != "elementwise"]
        elementwise_claims[scn_name] = {"operation_classes_seen": ops, "holds": not bad and scn_name in oplogs}
        if bad and scn_name in oplogs:
            print("NOTE property=%s scenario=%s: operations %s couple array elements; the per-element proof is claimed for the enumerated shapes only, not for all shapes" % (prop, scn_name, bad))
    n_obl = len(inst)
    n_dis = sum(1 for r in inst if r["status"] == "proved")
    if status == 0 and n_obl == 0:
        print("CHECKER-ERROR property=%s zero obligations generated" % prop)
        status = 3

    # ---- evidence
    if not a.only:
        per_obl = []
        for n in sorted(set(names) | set(conc_counts)):
            rs = by_name.get(n, [])
            per_obl.append({"name": n, "instances": len(rs), "proved": sum(1 for r in rs if r["status"] == "proved"),
                            "refuted": sum(1 for r in rs if r["status"].startswith("refuted")), "unknown": sum(1 for r in rs if r["status"] == "unknown"),
                            "backends": sorted({r["backend"] for r in rs}), "solver_wall_s": round(sum(r["wall"] for r in rs), 3),
                            "runtime_checks_on_real_code": conc_counts.get(n, 0), "known_finding": n in known,
                            "decided_by": "proof" if rs else "bounded run-time check only (never counted as proved)"})
        level = getattr(mod, "LEVEL", "proof")
        if (n_dis < n_obl or lost_proof) and level == "proof":
            level = "other"
        ev = {
            "property_id": prop, "tier": tier, "seed": seed, "level": level, "wall_s": round(time.time() - t0, 2), "violations": nviol,
            "coverage": {
                "obligations": n_obl, "discharged": n_dis,
                "checker_cmd": "bin/check %s --tier %s" % (prop, tier),
                "trusted_base": TRUSTED_BASE + list(getattr(mod, "TRUSTED", [])),
                "explanation": getattr(mod, "EXPLANATION", ""),
                "obligation_table": per_obl,
                "functions_under_contract": sorted(functions.values(), key=lambda d: d["function"]),
                "callees_replaced_by_assumed_contracts": assumed,
                "symbolic_cases": len([t for t in tasks]), "paths_explored": paths, "infeasible_paths": vac,
                "solver_time_s": round(sum(r["wall"] for r in inst), 2),
                "evaluations": conc_runs, "distinct_nontrivial": conc_distinct,
                "rule": "bounded stand-in (never counted as proved): the same scenario run on the real, unshadowed code with random concrete inputs per case; distinct = distinct (case, input) tuples that satisfied the pre-condition",
                "samples": (samples[:2] + ([conc_sample] if conc_sample else [])) or [{"note": "no non-trivial sample"}],
                "numpy_ops_seen_per_scenario": {k: sorted(v) for k, v in oplogs.items()},
                "all_shapes_by_elementwise_argument": elementwise_claims,
                "known_findings_hit": known_hit, "fixed_defects": [{"commit": c, "what": w} for c, w in fixed],
                "undecided": [list(u) for u in undecided][:20], "unknown_obligations": [r["name"] + "@" + r["case"] for r in unknown][:20],
                "exit_status": status, "lost_proof": lost_proof,
            },
            "assumptions": list(getattr(mod, "ASSUMPTIONS", [])) + ["%s is replaced by its contract stub: %s" % (k, (v or "").strip().splitlines()[0] if v else "") for k, v in sorted(assumed.items())],
        }
        os.makedirs(os.path.join(OUT, "evidence"), exist_ok=True)
        json.dump(ev, open(os.path.join(OUT, "evidence", "%s.json" % prop), "w"), indent=1, default=repr)
    print("SUMMARY property=%s tier=%s obligations=%d discharged=%d refuted=%d unknown=%d paths=%d runtime_checks=%d violations=%d known=%d exit=%d wall=%.1fs"
          % (prop, tier, n_obl, n_dis, len(refuted), len(unknown), paths, conc_runs, nviol, len(known_hit), status, time.time() - t0))
    return status


if __name__ == "__main__":
    sys.exit(main())
