"""Exploration / proving engine and the scenario facade `T`.

A *scenario* is a Python function ``scenario(T, case)`` written once and run in three ways:

* symbolic   (T.symbolic)  : inputs are symbolic, the function under contract is the shadow version
                             (real source, `np` shim, callees by contract stub); every ``T.prove`` is a
                             proof obligation ``path-condition => condition`` discharged by z3 (cvc5 second);
* concrete   (random)      : inputs are random concrete NumPy values, the function is the real one
                             (bounded run-time contract checking, "tier C");
* replay     (from a model): inputs come from a counter-model, the function is the real one.
"""
from __future__ import annotations

import json
import math
import os
import random
import subprocess
import tempfile
import time
import traceback
from fractions import Fraction

import numpy as rnp
import z3

from . import extract, snp, sym
from .snp import SNP, SymArray
from .sym import InfeasiblePath, SBool, SInt, Unsupported, XR

MAX_PATHS = int(os.environ.get("ROPTVC_MAX_PATHS", "4000"))


class Result:
    """Result of one obligation instance."""

    __slots__ = ("name", "case", "status", "backend", "wall", "model", "detail", "path")

    def __init__(self, name, case, status, backend="z3", wall=0.0, model=None, detail="", path=None):
        self.name, self.case, self.status, self.backend = name, case, status, backend
        self.wall, self.model, self.detail, self.path = wall, model, detail, path

    def as_dict(self):
        return {k: getattr(self, k) for k in self.__slots__}


# -----------------------------------------------------------------------------------
# solver back ends


# -----------------------------------------------------------------------------------
# np.empty in the bounded runs: arbitrary contents for real

UNINITIALISED_BASE, UNINITIALISED_STEP = 7.77e200, 1e195
_GARBAGE_COUNTER = [0]


def is_uninitialised_garbage(values):
    """True where a value is one of the sentinels that the bounded runs put into np.empty arrays (an entry that was never written)."""
    v = rnp.asarray(values, dtype=float)
    return (v >= UNINITIALISED_BASE) & (v <= UNINITIALISED_BASE + 1e6 * UNINITIALISED_STEP)


class _garbage_in_uninitialised_arrays:
    """While a scenario runs natively, numpy.empty / numpy.empty_like hand out floating-point arrays filled with a sentinel that
    differs from call to call (process-wide counter): what np.empty promises is 'arbitrary contents', and zero-filled fresh pages
    hide reads of entries that were never written.  Code that writes every entry before reading it is unaffected."""

    def __enter__(self):
        self.saved = (rnp.empty, rnp.empty_like)
        real_empty, real_like = self.saved

        def fill(a):
            if isinstance(a, rnp.ndarray) and a.dtype.kind == "f" and a.size:
                _GARBAGE_COUNTER[0] = (_GARBAGE_COUNTER[0] + 1) % 1000000
                a[...] = UNINITIALISED_BASE + _GARBAGE_COUNTER[0] * UNINITIALISED_STEP
            return a

        def empty(*a, **k):
            return fill(real_empty(*a, **k))

        def empty_like(*a, **k):
            return fill(real_like(*a, **k))

        rnp.empty, rnp.empty_like = empty, empty_like
        return self

    def __exit__(self, *exc):
        rnp.empty, rnp.empty_like = self.saved
        return False


Z3_TIMEOUT_MS = int(os.environ.get("ROPTVC_Z3_TIMEOUT_MS", "8000"))
Z3_RETRY_FACTOR = int(os.environ.get("ROPTVC_Z3_RETRY_FACTOR", "8"))
MAX_SOLVER_RETRIES = 4  # per case (one process per case)
SOLVER_RETRIES = [0]
CVC5_TLIMIT_S = int(os.environ.get("ROPTVC_CVC5_TLIMIT_S", "20"))


def _solve(pc, goal, rlimit=sym.RLIMIT_PROVE, timeout_ms=None):
    """Check pc /\\ not goal.  Returns (status, backend, model|None).  status in proved/refuted/unknown."""
    s = z3.Solver()
    s.set("rlimit", rlimit)
    s.set("timeout", timeout_ms or Z3_TIMEOUT_MS)
    for c in pc:
        s.add(c)
    s.add(z3.Not(goal))
    r = s.check()
    if r == z3.unknown and timeout_ms is None and SOLVER_RETRIES[0] < MAX_SOLVER_RETRIES and "rlimit" not in s.reason_unknown() and "resource" not in s.reason_unknown():
        # the wall-clock limit (not the deterministic resource limit) stopped the solver: the machine may just be busy.
        # One retry with a much longer wall-clock limit keeps the verdict independent of the load; the resource limit still bounds it.
        SOLVER_RETRIES[0] += 1
        s.set("timeout", (timeout_ms or Z3_TIMEOUT_MS) * Z3_RETRY_FACTOR)
        r = s.check()
    if r == z3.unsat:
        return "proved", "z3", None
    if r == z3.sat:
        return "refuted", "z3", s.model()
    # second opinion: cvc5 on the SMT-LIB text (thorough tier only: it costs up to CVC5_TLIMIT_S per open obligation)
    if os.environ.get("VERIF_TIER_EFFECTIVE", "quick") != "thorough":
        return "unknown", "z3", None
    try:
        st = _cvc5(s.to_smt2())
    except Exception:  # noqa: BLE001
        st = "unknown"
    if st == "unsat":
        return "proved", "cvc5", None
    if st == "sat":
        return "refuted-nomodel", "cvc5", None
    return "unknown", "z3+cvc5", None


def _cvc5(smt2, tlimit_s=None):
    tlimit_s = tlimit_s or CVC5_TLIMIT_S
    if not os.path.exists("/usr/bin/cvc5"):
        return "unknown"
    with tempfile.NamedTemporaryFile("w", suffix=".smt2", delete=False, dir=os.environ.get("ROPTVC_TMP", None)) as f:
        f.write("(set-logic ALL)\n" + smt2)
        name = f.name
    try:
        out = subprocess.run(["/usr/bin/cvc5", "--tlimit=%d" % (tlimit_s * 1000), name], capture_output=True, text=True, timeout=tlimit_s + 10)
        first = (out.stdout.strip().splitlines() or ["unknown"])[0].strip()
        return first if first in ("sat", "unsat") else "unknown"
    except Exception:  # noqa: BLE001
        return "unknown"
    finally:
        os.unlink(name)


# -----------------------------------------------------------------------------------
# value <-> json


def _num_to_json(x):
    x = float(x)
    if math.isnan(x):
        return "nan"
    if math.isinf(x):
        return "inf" if x > 0 else "-inf"
    return x


def _json_to_num(x):
    if isinstance(x, str):
        return float(x)
    return x


def to_jsonable(v):
    if isinstance(v, rnp.ndarray):
        return {"array": rnp.vectorize(lambda e: _num_to_json(e) if isinstance(e, (float, rnp.floating)) else (bool(e) if isinstance(e, (bool, rnp.bool_)) else int(e)), otypes=[object])(v).tolist() if v.size else [], "shape": list(v.shape), "dtype": str(v.dtype)}
    if isinstance(v, (float, rnp.floating)):
        return _num_to_json(v)
    if isinstance(v, (bool, rnp.bool_)):
        return bool(v)
    if isinstance(v, (int, rnp.integer)):
        return int(v)
    if isinstance(v, (list, tuple)):
        return [to_jsonable(e) for e in v]
    if isinstance(v, dict):
        return {str(k): to_jsonable(e) for k, e in v.items()}
    return repr(v)


def from_jsonable(v):
    if isinstance(v, dict) and "array" in v:
        dt = rnp.dtype(v["dtype"])
        flat = rnp.array([_json_to_num(e) for e in rnp.array(v["array"], dtype=object).flat] if v["array"] != [] else [], dtype=dt)
        return flat.reshape(v["shape"])
    if isinstance(v, str) and v in ("nan", "inf", "-inf"):
        return float(v)
    if isinstance(v, list):
        return [from_jsonable(e) for e in v]
    return v


def _model_real(model, xr):
    """Concrete float of an XR under a model."""
    def bv(b):
        if isinstance(b, bool):
            return b
        return z3.is_true(model.eval(b, model_completion=True))

    if bv(xr.nan):
        return float("nan")
    if bv(xr.pinf):
        return float("inf")
    if bv(xr.ninf):
        return float("-inf")
    val = model.eval(xr.v, model_completion=True)
    if z3.is_algebraic_value(val):
        val = val.approx(20)
    fr = Fraction(val.numerator_as_long(), val.denominator_as_long())
    return float(fr)


def _model_elem(model, e):
    if isinstance(e, sym.XF):
        v = model.eval(e.t, model_completion=True)
        if z3.is_fp_value(v):
            if v.isNaN():
                return float("nan")
            if v.isInf():
                return float("-inf") if v.isNegative() else float("inf")
            import struct
            bits = (int(v.sign()) << 63) | ((v.exponent_as_long(True) & 0x7FF) << 52) | (v.significand_as_long() & ((1 << 52) - 1))
            return struct.unpack("<d", struct.pack("<Q", bits))[0]
        return float("nan")
    if isinstance(e, XR):
        return _model_real(model, e)
    if isinstance(e, SBool):
        return z3.is_true(model.eval(e.e, model_completion=True))
    if isinstance(e, SInt):
        return model.eval(e.e, model_completion=True).as_long()
    return e


def concretize_value(model, v):
    if isinstance(v, rnp.ndarray):
        if v.dtype != object:
            return rnp.array(v)
        flat = [_model_elem(model, e) for e in v.flat]
        if all(isinstance(x, (bool, rnp.bool_)) for x in flat) and flat:
            dt = bool
        elif all(isinstance(x, (int, rnp.integer, bool, rnp.bool_)) for x in flat) and flat:
            dt = rnp.int64
        else:
            dt = rnp.float64
        return rnp.array(flat, dtype=dt).reshape(v.shape)
    if sym.is_sym(v):
        return _model_elem(model, v)
    return v


# -----------------------------------------------------------------------------------
# facade


class Violation(Exception):
    pass


class TBase:
    symbolic = False

    def __init__(self, case):
        self.case = case
        self.inputs = {}  # name -> value (symbolic or concrete)
        self.notes = {}

    # --- comparisons usable in both modes -------------------------------------------
    def all(self, items):
        raise NotImplementedError

    def note(self, key, value):
        self.notes[key] = value


# --------------------------------------------------------------------------------------
# signatures of the PRIVATE functions a scenario enters by (or calls directly): a contract written against `f(gradients, mask)` says
# nothing about `f(self, gradients)` - a call would bind the arguments to other parameters and whatever happens then is an artefact.
# The parameter lists are recorded when the obligation lock is updated (contracts/SIGNATURES.lock.json); a private function whose
# parameter list differs from the recorded one is 'gone' for the harness: using it raises ContractUnbound (lost proof, never a verdict).
_SIG_PATH = os.path.join(os.path.dirname(os.path.dirname(os.path.abspath(__file__))), "contracts", "SIGNATURES.lock.json")
try:
    _SIG_LOCK = json.load(open(_SIG_PATH))
except (OSError, ValueError):
    _SIG_LOCK = {}


def _is_private(qualname):
    return any(p.startswith("_") and not (p.startswith("__") and p.endswith("__")) for p in qualname.split("."))


def _signature_text(obj):
    import inspect

    try:
        sig = inspect.signature(obj)
    except (TypeError, ValueError):
        return None
    # names, kinds and ANNOTATIONS of the parameters and of the result (the package is annotated throughout; a private function whose
    # result is now `_Evaluation` instead of `tuple[Results, ...]` has another interface even if its name and parameters stayed);
    # default values are left out: a changed default is a change of behaviour, which the obligations are there to judge
    def ann(a):
        return "" if a is inspect.Signature.empty else ": " + (a if isinstance(a, str) else getattr(a, "__name__", repr(a))).replace(" ", "")

    ret = "" if sig.return_annotation is inspect.Signature.empty else " -> " + (sig.return_annotation if isinstance(sig.return_annotation, str) else getattr(sig.return_annotation, "__name__", repr(sig.return_annotation))).replace(" ", "")
    return "(" + ", ".join(("*" if p.kind == p.VAR_POSITIONAL else "**" if p.kind == p.VAR_KEYWORD else "") + p.name + ("/kw" if p.kind == p.KEYWORD_ONLY else "") + ann(p.annotation)
                           for p in sig.parameters.values()) + ")" + ret


def signature_guard(modname, qualname, obj, mode="real"):
    """obj itself, or a _Gone stand-in if the parameter list of a private callable is not the one the contracts were written against."""
    if not _is_private(qualname) or isinstance(obj, type) or not callable(obj):
        return obj
    text = _signature_text(obj)
    if text is None:
        return obj
    # (recorded per mode: the shadow copy of a module and the imported module may word the same annotation differently - as written in
    # the source, or as the evaluated object prints)
    key = "%s|%s:%s" % (mode, modname, qualname)
    rec = os.environ.get("ROPTVC_RECORD_SIGNATURES")
    if rec:
        try:
            with open(os.path.join(rec, "%d.jsonl" % os.getpid()), "a") as fh:
                fh.write(json.dumps([key, text]) + "\n")
        except OSError:
            pass
        return obj
    was = _SIG_LOCK.get(key)
    if was is not None and was != text:
        return _Gone("the parameter list of the private function %s changed from %s to %s: the contract written against the former does not bind" % (key, was, text))
    return obj


class _Gone:
    """Stands for a function/class under contract that no longer exists under that name: any use raises ContractUnbound."""

    def __init__(self, why):
        object.__setattr__(self, "_why", why)

    def __call__(self, *a, **k):
        raise sym.ContractUnbound(object.__getattribute__(self, "_why"))

    def __getattr__(self, name):
        raise sym.ContractUnbound(object.__getattribute__(self, "_why"))


class TSym(TBase):
    """Symbolic mode."""

    symbolic = True
    np = SNP

    def __init__(self, case, engine, shadow_cache):
        super().__init__(case)
        self.engine = engine
        self._shadow_cache = shadow_cache
        self.functions = []

    # --- inputs ---------------------------------------------------------------------
    def _mk(self, name, shape, mk):
        shape = tuple(shape) if not isinstance(shape, int) else (shape,)
        out = rnp.empty(shape, dtype=object)
        for idx in rnp.ndindex(*shape):
            out[idx] = mk("%s%s" % (name, "".join("_%d" % i for i in idx)), idx)
        r = out.view(SymArray)
        self.inputs[name] = r
        return r

    def real(self, name, shape=(), nan=None, kinds=None, lo=None, hi=None, sdtype=rnp.float64, ge=None, le=None):
        """Finite symbolic reals.  nan: None | bool array (concrete NaN pattern) | 'sym'.
        kinds: optional array of 'fin' | '+inf' | '-inf' | 'nan' per element (concrete special values).
        ge / le: element-wise pre-condition value >= ge / value <= le against other (symbolic or infinite) values: an assumption
        here, satisfied by construction in the bounded runs."""
        c = sym.ctx()
        if ge is not None or le is not None:
            r = self.real(name, shape, nan=nan, kinds=kinds, lo=lo, hi=hi, sdtype=sdtype)
            if ge is not None:
                self.assume(self.all(r >= ge) if shape != () else r >= ge)
            if le is not None:
                self.assume(self.all(r <= le) if shape != () else r <= le)
            return r

        def mk(nm, idx):
            if kinds is not None:
                k = kinds[idx] if not isinstance(kinds, str) else kinds
                if k == "+inf":
                    return rnp.float64(rnp.inf)
                if k == "-inf":
                    return rnp.float64(-rnp.inf)
                if k == "nan":
                    return rnp.float64(rnp.nan)
            if nan is not None and not isinstance(nan, str) and bool(rnp.asarray(nan)[idx]):
                return rnp.float64(rnp.nan)
            v = z3.Real(nm)
            if lo is not None:
                c.pc.append(v >= sym._rv(lo))
            if hi is not None:
                c.pc.append(v <= sym._rv(hi))
            if isinstance(nan, str) and nan == "sym":
                return XR(v, nan=z3.Bool(nm + "?nan"))
            return XR(v)

        if shape == ():
            e = mk(name, ())
            self.inputs[name] = e
            return e
        r = self._mk(name, shape, mk)
        r.sdtype = sdtype
        return r

    def fp(self, name, lo=None, hi=None, lo_open=False):
        """A symbolic IEEE-754 binary64 value (bit-precise), optionally within [lo, hi] (lo excluded if lo_open)."""
        t = z3.FP(name, z3.Float64())
        c = sym.ctx()
        c.pc.append(z3.Not(z3.Or(z3.fpIsNaN(t), z3.fpIsInf(t))))
        if lo is not None:
            c.pc.append((z3.fpGT if lo_open else z3.fpGEQ)(t, z3.FPVal(float(lo), z3.Float64())))
        if hi is not None:
            c.pc.append(z3.fpLEQ(t, z3.FPVal(float(hi), z3.Float64())))
        e = sym.XF(t)
        self.inputs[name] = e
        return e

    def boolean(self, name, shape=()):
        def mk(nm, idx):
            return SBool(z3.Bool(nm))

        if shape == ():
            e = mk(name, ())
            self.inputs[name] = e
            return e
        r = self._mk(name, shape, mk)
        r.sdtype = rnp.bool_
        return r

    def integer(self, name, lo=None, hi=None):
        v = z3.Int(name)
        c = sym.ctx()
        if lo is not None:
            c.pc.append(v >= lo)
        if hi is not None:
            c.pc.append(v <= hi)
        e = SInt(v)
        self.inputs[name] = e
        return e

    def const(self, value):
        """Concrete array as the code would see it (SymArray wrapper, numpy semantics)."""
        return snp.wrap(rnp.array(value))

    def given(self, name, value):
        """A concrete input chosen by the case (recorded for replay)."""
        self.inputs[name] = value
        return value

    def choose(self, n):
        return sym.ctx().choose(n)

    # --- code under contract -----------------------------------------------------------
    def shadow(self, modules, stubs=None):
        sh = extract.Shadow()
        for m in modules:
            sh.load(m)
        sh.link(stubs)
        self._sh = sh
        return sh

    def func(self, modname, qualname, stubs=None, also=()):
        sh = extract.Shadow()
        sh.load(modname)
        for m in also:
            sh.load(m)
        sh.link(stubs)
        self._sh = sh
        info = sh.info(modname, qualname)
        self.engine.note_function(info, stubs)
        return signature_guard(modname, qualname, sh.get(modname, qualname), "shadow")

    def under_contract(self, sh, modname, qualname, stubs=None):
        try:
            info = sh.info(modname, qualname)
        except sym.ContractUnbound as exc:
            # a helper that the harness only lists (its body is executed as part of its callers anyway) may have been
            # renamed or inlined: note it; the contract is lost only if the harness really needs the object
            self.engine.note_gone(modname, qualname)
            return _Gone(str(exc))
        self.engine.note_function(info, stubs)
        return signature_guard(modname, qualname, sh.get(modname, qualname), "shadow")

    # --- logic ------------------------------------------------------------------------
    def assume(self, cond):
        sym.ctx().assume(cond)

    def all(self, items):
        if isinstance(items, rnp.ndarray):
            items = list(snp._obj(items).flat)
        return sym.conj(list(items))

    def any(self, items):
        if isinstance(items, rnp.ndarray):
            items = list(snp._obj(items).flat)
        return sym.disj(list(items))

    def implies(self, a, b):
        return sym.mk_bool(sym.b_or(sym.b_not(sym._zb(a)), sym._zb(b)))

    def count(self, items):
        """Number of true conditions (symbolic integer)."""
        acc = rnp.int64(0)
        for it in items:
            z = sym._zb(it)
            if z is True:
                acc = acc + 1
            elif z is not False:
                acc = acc + SInt(z3.If(z, 1, 0))
        return acc

    def ite(self, c, a, b):
        return sym.s_where(c, a, b)

    def uf(self, name, arity):
        """Uninterpreted real function of `arity` finite real arguments (the same symbol for the same name)."""
        f = z3.Function(name, *([z3.RealSort()] * (arity + 1)))

        def call(*args):
            return XR(f(*[sym.as_xr(a).v for a in args]))

        return call

    def floor_mul(self, x, m):
        """floor(x*m) for x >= 0 and a concrete non-negative integer m (mathematical product)."""
        return sym.s_int_trunc(sym.as_xr(x) * sym.as_xr(float(m)))

    def total(self, items):
        acc = None
        for it in items:
            acc = it if acc is None else acc + it
        return 0.0 if acc is None else acc

    def same(self, a, b):
        """Elementwise identity as extended reals (NaN is NaN): scalar SBool."""
        A, B = snp._obj(a), snp._obj(b)
        if A.shape != B.shape:
            return rnp.bool_(False)
        return sym.conj([sym.mk_bool(sym.x_same(sym.as_xr(x), sym.as_xr(y))) if not (isinstance(x, (SBool, bool, rnp.bool_)) and isinstance(y, (SBool, bool, rnp.bool_))) else sym.mk_bool(sym._z3b(sym._zb(x)) == sym._z3b(sym._zb(y))) for x, y in zip(A.flat, B.flat)])

    def close(self, a, b, tol=1e-9):
        """Equality up to an absolute tolerance (for clauses that involve natively rounded float constants)."""
        A, B = snp._obj(a), snp._obj(b)
        if A.shape != B.shape:
            return rnp.bool_(False)
        out = []
        for x, y in zip(A.flat, B.flat):
            x, y = sym.as_xr(x), sym.as_xr(y)
            d = x - y
            fin = sym.b_and(x.fin(), y.fin())
            out.append(sym.mk_bool(sym.b_or(sym.b_and(fin, d.v <= sym._rv(tol), d.v >= sym._rv(-tol)), sym.b_and(sym.b_not(fin), sym.x_same(x, y)))))
        return sym.conj(out)

    def eq(self, a, b):
        return self.same(a, b)

    def is_none(self, x):
        return x is None

    def prove(self, name, cond, detail=""):
        self.engine.prove(self, name, cond, detail)

    def fail(self, name, detail=""):
        """Reaching this point is itself a violation of obligation `name` (if the path is feasible)."""
        self.engine.prove(self, name, rnp.bool_(False), detail)

    def cover(self, name):
        self.engine.cover(self, name)

    def log(self, *items):
        sym.ctx().log.append(items)

    @property
    def trace(self):
        return sym.ctx().log


class TConc(TBase):
    """Concrete mode (random inputs or replay of a counter-model) on the real code."""

    symbolic = False
    np = rnp

    def __init__(self, case, engine, rng, given=None):
        super().__init__(case)
        self.engine = engine
        self.rng = rng
        self.given_inputs = given  # dict name -> concrete value (replay) or None (random)
        self.failed = []
        self.checked = 0
        self._log = []

    def _draw(self, shape):
        # mixture: small integers, halves, and generic floats
        mode = self.rng.integers(0, 3)
        if mode == 0:
            return self.rng.integers(-3, 4, size=shape).astype(float)
        if mode == 1:
            return self.rng.integers(-6, 7, size=shape) / 2.0
        return self.rng.normal(size=shape) * 3.0

    def real(self, name, shape=(), nan=None, kinds=None, lo=None, hi=None, sdtype=rnp.float64, ge=None, le=None):
        if ge is not None or le is not None:
            shape_t = tuple(shape) if not isinstance(shape, int) else (shape,)
            g = rnp.broadcast_to(rnp.asarray(-rnp.inf if ge is None else ge, dtype=float), shape_t)
            l = rnp.broadcast_to(rnp.asarray(rnp.inf if le is None else le, dtype=float), shape_t)
            v = rnp.asarray(self.real(name, shape, nan=nan, kinds=kinds, lo=lo, hi=hi, sdtype=sdtype), dtype=float).reshape(shape_t).copy()
            if not (self.given_inputs is not None and name in self.given_inputs):
                # the pre-condition by construction: a point of [ge, le] (the end points themselves now and then)
                u = self.rng.uniform(0.0, 1.0, size=shape_t)
                edge = self.rng.integers(0, 6, size=shape_t)
                u = rnp.where(edge == 0, 0.0, rnp.where(edge == 1, 1.0, u))
                for idx in rnp.ndindex(*shape_t):
                    if not rnp.isfinite(v[idx]):
                        continue
                    if rnp.isfinite(g[idx]) and rnp.isfinite(l[idx]):
                        v[idx] = g[idx] + u[idx] * (l[idx] - g[idx]) if g[idx] <= l[idx] else v[idx]
                    elif rnp.isfinite(g[idx]):
                        v[idx] = g[idx] + (0.0 if edge[idx] == 0 else abs(v[idx]))
                    elif rnp.isfinite(l[idx]):
                        v[idx] = l[idx] - (0.0 if edge[idx] == 1 else abs(v[idx]))
                    if lo is not None:
                        v[idx] = max(v[idx], lo)
                    if hi is not None:
                        v[idx] = min(v[idx], hi)
            fin = rnp.isfinite(v)
            if not bool(rnp.all(~fin | ((v >= g) & (v <= l)))):
                raise InfeasiblePath()
            v = float(v) if shape_t == () else v
            self.inputs[name] = v
            return v
        if self.given_inputs is not None and name in self.given_inputs:
            v = rnp.array(self.given_inputs[name], dtype=float)
            if shape == ():
                v = float(v)
        else:
            shape_t = tuple(shape) if not isinstance(shape, int) else (shape,)
            v = self._draw(shape_t)
            if lo is not None or hi is not None:
                l = -5.0 if lo is None else lo
                h = 5.0 if hi is None else hi
                v = self.rng.uniform(l, h, size=shape_t)
                if self.rng.integers(0, 4) == 0:
                    v = rnp.where(self.rng.integers(0, 2, size=shape_t) == 0, l, h) * rnp.ones(shape_t)
            if kinds is not None:
                ks = rnp.broadcast_to(rnp.array(kinds, dtype=object), shape_t)
                for idx in rnp.ndindex(*shape_t):
                    if ks[idx] == "+inf":
                        v[idx] = rnp.inf
                    elif ks[idx] == "-inf":
                        v[idx] = -rnp.inf
                    elif ks[idx] == "nan":
                        v[idx] = rnp.nan
            if nan is not None and not isinstance(nan, str):
                v = rnp.where(rnp.asarray(nan), rnp.nan, v)
            elif isinstance(nan, str):
                v = rnp.where(self.rng.integers(0, 3, size=shape_t) == 0, rnp.nan, v)
            if shape_t == ():
                v = float(v)
        self.inputs[name] = v
        return v

    def fp(self, name, lo=None, hi=None, lo_open=False):
        if self.given_inputs is not None and name in self.given_inputs:
            v = float(self.given_inputs[name])
        else:
            l, h = (0.0 if lo is None else lo), (1.0 if hi is None else hi)
            mode = int(self.rng.integers(0, 3))
            if mode == 0:
                v = float(self.rng.uniform(l, h))
            else:  # values k/n and their floating-point neighbours: the rounding hazards
                n = int(self.rng.integers(1, 300))
                v = l + (h - l) * int(self.rng.integers(0, n + 1)) / n
                for _ in range(int(self.rng.integers(0, 3))):
                    v = float(rnp.nextafter(v, h if self.rng.integers(0, 2) else l))
            v = min(max(v, l), h)
            if lo_open and v <= l:
                v = float(rnp.nextafter(l, h))
        self.inputs[name] = v
        return v

    def boolean(self, name, shape=()):
        if self.given_inputs is not None and name in self.given_inputs:
            v = rnp.array(self.given_inputs[name], dtype=bool)
            if shape == ():
                v = bool(v)
        else:
            shape_t = tuple(shape) if not isinstance(shape, int) else (shape,)
            v = self.rng.integers(0, 2, size=shape_t).astype(bool)
            if shape_t == ():
                v = bool(v)
        self.inputs[name] = v
        return v

    def integer(self, name, lo=None, hi=None):
        if self.given_inputs is not None and name in self.given_inputs:
            v = int(self.given_inputs[name])
        else:
            v = int(self.rng.integers(-3 if lo is None else lo, (3 if hi is None else hi) + 1))
        self.inputs[name] = v
        return v

    def const(self, value):
        return rnp.array(value)

    def given(self, name, value):
        self.inputs[name] = value
        return value

    def choose(self, n):
        if self.given_inputs is not None and "__choices__" in self.given_inputs:
            ch = self.given_inputs["__choices__"]
            i = self.notes.setdefault("__choice_pos__", 0)
            self.notes["__choice_pos__"] = i + 1
            return ch[i] if i < len(ch) else 0
        v = int(self.rng.integers(0, n))
        self.inputs.setdefault("__choices__", []).append(v)
        return v

    def func(self, modname, qualname, stubs=None, also=()):
        return signature_guard(modname, qualname, extract.real_get(modname, qualname))

    def shadow(self, modules, stubs=None):
        return None

    def under_contract(self, sh, modname, qualname, stubs=None):
        return signature_guard(modname, qualname, extract.real_get(modname, qualname))

    def assume(self, cond):
        if not bool(cond):
            raise InfeasiblePath()

    def all(self, items):
        if isinstance(items, rnp.ndarray):
            return bool(rnp.all(items))
        return all(bool(x) for x in items)

    def any(self, items):
        if isinstance(items, rnp.ndarray):
            return bool(rnp.any(items))
        return any(bool(x) for x in items)

    def implies(self, a, b):
        return (not bool(a)) or bool(b)

    def count(self, items):
        return sum(1 for it in items if bool(it))

    def ite(self, c, a, b):
        return a if bool(c) else b

    def uf(self, name, arity):
        """Concrete stand-in of an uninterpreted function: a fixed smooth function determined by the name."""
        import zlib

        seed = zlib.crc32(name.encode())
        coef = rnp.random.default_rng(seed).normal(size=arity + 1)

        def call(*args):
            return float(rnp.sin(coef[0] + sum(c * float(a) for c, a in zip(coef[1:], args))) * 3.0 + coef[0])

        return call

    def floor_mul(self, x, m):
        return int(math.floor(Fraction(float(x)) * int(m)))

    def total(self, items):
        acc = 0.0
        for it in items:
            acc = acc + it
        return acc

    def same(self, a, b, rtol=1e-9, atol=1e-12):
        a, b = rnp.asarray(a), rnp.asarray(b)
        if a.shape != b.shape:
            return False
        if a.dtype == bool or b.dtype == bool:
            return bool(rnp.array_equal(a, b))
        with rnp.errstate(all="ignore"):
            return bool(rnp.allclose(a.astype(float), b.astype(float), rtol=rtol, atol=atol, equal_nan=True))

    def close(self, a, b, tol=1e-9):
        return self.same(a, b, rtol=0.0, atol=tol)

    def eq(self, a, b):
        return self.same(a, b)

    def prove(self, name, cond, detail=""):
        self.checked += 1
        self.engine.count_concrete(name)
        if not bool(cond):
            self.failed.append((name, detail))

    def fail(self, name, detail=""):
        self.prove(name, False, detail)

    def cover(self, name):
        pass

    def log(self, *items):
        self._log.append(items)

    @property
    def trace(self):
        return self._log


# -----------------------------------------------------------------------------------


class Engine:
    def __init__(self, prop):
        self.prop = prop
        self.results = []  # Result
        self.functions = {}  # key -> dict
        self.assumed = {}  # stub name -> description
        self.paths = 0
        self.vacuous_paths = 0
        self.undecided = []  # (case, reason)
        self.concrete_counts = {}
        self.concrete_failures = []  # (name, case, inputs, detail)
        self.concrete_runs = 0
        self.concrete_distinct = set()
        self.covers = {}
        self._work = []
        self.cases_run = 0
        self.samples = []

    # -- bookkeeping
    def note_function(self, info, stubs):
        d = info.as_dict()
        self.functions[d["function"]] = d
        for k, v in (stubs or {}).items():
            nm = k if not isinstance(k, tuple) else "%s:%s" % k
            self.assumed[nm] = getattr(v, "__doc__", None) or "contract stub"

    def note_gone(self, modname, qualname):
        self.functions["%s:%s" % (modname, qualname)] = {"function": "%s:%s" % (modname, qualname), "file": None, "lines": None, "sha256": None,
                                                       "gone": "no longer defined under this name (renamed or inlined); bodies of its former callers are still executed"}

    def push_alternative(self, decisions):
        self._work.append(decisions)

    def count_concrete(self, name):
        self.concrete_counts[name] = self.concrete_counts.get(name, 0) + 1

    def cover(self, T, name):
        c = sym.ctx()
        if name in self.covers and self.covers[name]:
            return
        r, _ = c._check([])
        self.covers[name] = self.covers.get(name, False) or (r == z3.sat)

    # -- proving
    def prove(self, T, name, cond, detail):
        c = sym.ctx()
        g = sym._zb(cond) if not isinstance(cond, bool) else cond
        t0 = time.time()
        if g is True:
            self.results.append(Result(name, T.case_id, "proved", "z3-simplify", 0.0, detail=detail))
            return
        goal = sym._z3b(g)
        status, backend, model = _solve(c.pc, goal)
        res = Result(name, T.case_id, status, backend, time.time() - t0, detail=detail, path=list(c.decisions))
        if status == "refuted" and model is not None:
            try:
                res.model = {k: to_jsonable(concretize_value(model, v)) for k, v in T.inputs.items()}
                res.model["__choices__"] = [d for d in c.decisions if not isinstance(d, bool)]
                res.model["__symbolic_inputs__"] = bool(any(snp.has_sym(v) for v in T.inputs.values()))
            except Exception as exc:  # noqa: BLE001
                res.detail += " (model extraction failed: %r)" % (exc,)
        if len(self.samples) < 3 and status == "proved":
            s = z3.Solver()
            for p in c.pc:
                s.add(p)
            s.add(z3.Not(goal))
            txt = s.to_smt2()
            self.samples.append({"obligation": name, "case": T.case_id, "smtlib_excerpt": txt[:1500]})
        self.results.append(res)

    # -- symbolic exploration of one case
    def explore(self, scenario, case, case_id):
        self._work = [[]]
        npaths = 0
        self.cases_run += 1
        while self._work:
            decisions = self._work.pop()
            npaths += 1
            if npaths > MAX_PATHS:
                self.undecided.append((case_id, "more than %d paths" % MAX_PATHS))
                break
            c = sym.Ctx(decisions, self)
            sym.set_ctx(c)
            T = TSym(case, self, None)
            T.case_id = case_id
            try:
                scenario(T, case)
            except InfeasiblePath:
                self.vacuous_paths += 1
            except Unsupported as exc:
                self.undecided.append((case_id, "unsupported: %s" % exc))
            except Exception as exc:  # noqa: BLE001
                bug = sym.scenario_bug(exc)
                if bug is not None:
                    raise sym.EngineError("defect in the contract text: " + bug) from exc
                why = sym.binding_error(exc)
                if why is not None:
                    # the harness no longer fits the code (renamed/removed private function, changed private signature):
                    # that is a lost proof for this case, never a statement about the property
                    self.undecided.append((case_id, "contract does not bind: %s" % why))
                    self.paths += 1
                    sym.set_ctx(None)
                    break
                # an exception escaping the scenario on a feasible path is a failed obligation
                r, s = c._check([])
                if r != z3.unsat:
                    tb = traceback.format_exc(limit=-6)
                    res = Result("%s.no_unexpected_exception" % self.prop, case_id, "refuted" if r == z3.sat else "unknown", "z3", 0.0, detail="%s: %s\n%s" % (type(exc).__name__, exc, tb), path=list(c.decisions))
                    if r == z3.sat:
                        try:
                            m = s.model()
                            res.model = {k: to_jsonable(concretize_value(m, v)) for k, v in T.inputs.items()}
                            res.model["__choices__"] = [d for d in c.decisions if not isinstance(d, bool)]
                        except Exception:  # noqa: BLE001
                            pass
                    self.results.append(res)
            finally:
                sym.set_ctx(None)
            self.paths += 1
        return npaths

    # -- concrete runs
    def run_concrete(self, scenario, case, case_id, rng, given=None):
        T = TConc(case, self, rng, given)
        T.case_id = case_id
        try:
            with rnp.errstate(all="ignore"), _garbage_in_uninitialised_arrays():
                scenario(T, case)
        except InfeasiblePath:
            return T, "skipped"
        except Exception as exc:  # noqa: BLE001
            bug = sym.scenario_bug(exc)
            if bug is not None:
                raise sym.EngineError("defect in the contract text: " + bug) from exc
            why = sym.binding_error(exc)
            if why is None:
                raise
            note = (case_id, "contract does not bind (native run): %s" % why)
            if note not in self.undecided:
                self.undecided.append(note)
            return T, "unbound"
        self.concrete_runs += 1
        try:
            key = json.dumps(to_jsonable(T.inputs), sort_keys=True, default=repr)
        except Exception:  # noqa: BLE001
            key = repr(T.inputs)
        self.concrete_distinct.add(hash((case_id, key)))
        for name, detail in T.failed:
            self.concrete_failures.append((name, case_id, to_jsonable(T.inputs), detail))
        return T, "ok"
