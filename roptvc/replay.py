"""bin/replay <file>: run the recorded counter-example of an obligation on the real (unshadowed) code."""
from __future__ import annotations

import importlib
import json
import os
import sys

HERE = os.path.dirname(os.path.dirname(os.path.abspath(__file__)))
sys.path.insert(0, HERE)
import roptvc  # noqa: E402,F401
import numpy as rnp  # noqa: E402

from roptvc import engine as eng  # noqa: E402


def main(path):
    d = json.load(open(path))
    mod = importlib.import_module("contracts.%s" % d["property"])
    sc = next(s for s in mod.SCENARIOS if s.name == d["scenario"])
    E = eng.Engine(d["property"])
    given = {k: eng.from_jsonable(v) for k, v in (d.get("inputs") or {}).items()}
    print("property   :", d["property"])
    print("obligation :", d["obligation"])
    print("scenario   :", d["scenario"], " case:", d["case_id"])
    print("inputs     :", json.dumps(d.get("inputs"), default=repr)[:1500])
    try:
        T, st = E.run_concrete(sc.fn, d["case"], d["case_id"], rnp.random.default_rng(0), given=given)
    except BaseException as exc:  # noqa: BLE001
        print("native run raised %s: %s" % (type(exc).__name__, exc))
        print("REPRODUCED" if d["obligation"].endswith("no_unexpected_exception") else "NOT-REPRODUCED (different failure)")
        return 1
    failed = [n for n, _ in T.failed]
    print("contracts violated on the real code:", failed or "none")
    if d["obligation"] in failed:
        print("REPRODUCED")
        return 1
    print("NOT-REPRODUCED: the obligation failed for the solver's (real-arithmetic) model but holds for these doubles; solver output is kept in the file")
    return 0


if __name__ == "__main__":
    sys.exit(main(sys.argv[1]))
