"""Symbolic scalar values and path exploration for roptvc.

Values
------
* ``XR``   extended real: (nan, pinf, ninf, v) where the three flags are Python
           bools or z3 Bools and ``v`` is a z3 Real term (meaning: the value when no flag
           is set).  Finite arithmetic is exact (mathematical reals); NaN/inf follow IEEE-754.
* ``SBool`` z3 Bool.   ``bool(SBool)`` forks the path.
* ``SInt``  z3 Int.    ``int(SInt)`` / ``__index__`` concretises (forks over feasible values).

Concrete values are ordinary Python / NumPy scalars and are handled by NumPy itself.

Path exploration is by re-execution: a run follows a list of recorded decisions and
appends new ones; alternatives of new decisions are pushed on a work list.
"""
from __future__ import annotations

import math
import os
import types
import re
from fractions import Fraction

import numpy as _np
import z3

# --------------------------------------------------------------------------------------
# exceptions


class Unsupported(Exception):
    """The engine met a construct/semantics it does not model: verdict 'undecided', never a violation."""


class ContractUnbound(Exception):
    """A sidecar contract no longer binds to the code: the function (module, stub target) it names is gone, its private
    signature changed, or an object built by the harness lacks a private attribute that the real constructor now sets.
    That says nothing about the property: verdict 'undecided' for the scenario (lost proof), never a violation."""


_SIGNATURE_MISMATCH = re.compile(
    r"(takes (from )?\d+( to \d+)? positional arguments? but \d+ (was|were) given|got an unexpected keyword argument|"
    r"missing \d+ required (positional|keyword-only) arguments?|got multiple values for argument|takes no arguments|"
    r"got some positional-only arguments)")
_VERIF_ROOT = os.path.dirname(os.path.dirname(os.path.abspath(__file__))) + os.sep


def binding_error(exc):
    """Returns a reason string if `exc` shows that the harness no longer fits the code (see ContractUnbound), else None."""
    if isinstance(exc, ContractUnbound):
        return str(exc)
    tb, last = exc.__traceback__, None
    while tb is not None:
        last, tb = tb, tb.tb_next
    where = last.tb_frame.f_code.co_filename if last is not None else ""
    if isinstance(exc, TypeError) and _SIGNATURE_MISMATCH.search(str(exc)) and where.startswith(_VERIF_ROOT):
        # the call that does not fit was made by the harness (the callee's frame was never entered)
        return "the harness calls a function whose signature changed: %s" % exc
    if isinstance(exc, AttributeError) and isinstance(getattr(exc, "name", None), str) and (
            isinstance(getattr(exc, "obj", None), types.SimpleNamespace) or getattr(type(getattr(exc, "obj", None)), "__harness_standin__", False)):
        # a stand-in object made by the harness (a configuration or result record with just the fields the code used to read; the
        # package itself never makes such objects) lacks a field the code now reads: the harness does not fit the reorganised code
        return "a stand-in object of the harness lacks the attribute %s that the code now reads" % exc.name
    if isinstance(exc, AttributeError) and isinstance(getattr(exc, "name", None), str) and exc.name.startswith("_") and not exc.name.startswith("__"):
        if where.startswith(_VERIF_ROOT):
            # the harness itself reached for a private member (a helper method it enters by, a field it pre-sets or inspects) that the
            # class no longer has: the code was reorganised, the contract is not bound to it any more - nothing is known about the property
            return "the harness refers to the private member %s, which no longer exists" % exc.name
        obj = getattr(exc, "obj", None)
        if obj is not None and not isinstance(obj, type) and getattr(obj, "__dict__", None) is not None:
            # a private attribute missing on an instance: a harness artefact iff the class (or a base) assigns it somewhere,
            # i.e. the real constructor would have set it and the harness, which builds some objects field by field, did not
            import inspect

            pat = re.compile(r"self\.%s\s*(:[^=\n]+)?=[^=]" % re.escape(exc.name))
            for klass in type(obj).__mro__:
                try:
                    src = inspect.getsource(klass)
                except (OSError, TypeError):
                    src = getattr(klass, "__shadow_source__", "")
                if src and pat.search(src):
                    return "an object built by the harness lacks the private attribute %s that %s assigns" % (exc.name, klass.__name__)
    return None


class EngineError(BaseException):
    """Failure of the checker itself (exit 3): never a verdict about the code."""


def scenario_bug(exc):
    """A NameError / UnboundLocalError / ImportError raised by the text of a contract file itself (innermost frame under /verif)
    is a defect of the checker, never a statement about the code under contract."""
    if not isinstance(exc, (NameError, ImportError)):
        return None
    tb, last = exc.__traceback__, None
    while tb is not None:
        last, tb = tb, tb.tb_next
    where = last.tb_frame.f_code.co_filename if last is not None else ""
    if where.startswith(_VERIF_ROOT):
        return "%s: %s (raised at %s:%d)" % (type(exc).__name__, exc, where, last.tb_lineno)
    return None


class InfeasiblePath(BaseException):
    """Raised by assume() when the path condition became unsatisfiable (BaseException: not caught by code under test)."""


# --------------------------------------------------------------------------------------
# path context

RLIMIT_BRANCH = 2_000_000
RLIMIT_PROVE = 40_000_000


BRANCH_TIMEOUT_MS = int(os.environ.get("ROPTVC_BRANCH_TIMEOUT_MS", "30000"))


class Ctx:
    """State of one execution (one path)."""

    def __init__(self, decisions, engine):
        self.decisions = list(decisions)
        self.pos = 0
        self.pc = []  # list of z3 BoolRef
        self.engine = engine
        self.log = []  # ghost log usable by scenarios
        self.nfresh = 0

    # -- solver helpers
    def _check(self, extra, rlimit=RLIMIT_BRANCH):
        s = z3.Solver()
        s.set("rlimit", rlimit)
        # wall-clock cap as well (non-linear path conditions can spend minutes inside one resource unit); 'unknown' counts as
        # feasible, which is the safe side: an infeasible path only adds obligations with an unsatisfiable path condition
        s.set("timeout", BRANCH_TIMEOUT_MS)
        for c in self.pc:
            s.add(c)
        for c in extra:
            s.add(c)
        r = s.check()
        return r, s

    def feasible(self, cond):
        r, _ = self._check([cond])
        return r != z3.unsat  # unknown counts as feasible

    def branch(self, cond):
        """Decide a symbolic condition (z3 BoolRef); returns Python bool."""
        cond = z3.simplify(cond)
        if z3.is_true(cond):
            return True
        if z3.is_false(cond):
            return False
        if self.pos < len(self.decisions):
            d = self.decisions[self.pos]
            self.pos += 1
            assert isinstance(d, bool), "decision trace mismatch (non-deterministic scenario?)"
        else:
            ft = self.feasible(cond)
            ff = self.feasible(z3.Not(cond))
            if ft and ff:
                d = True
                self.engine.push_alternative(self.decisions + [False])
            elif ft:
                d = True
            elif ff:
                d = False
            else:
                raise InfeasiblePath()
            self.decisions.append(d)
            self.pos += 1
        self.pc.append(cond if d else z3.Not(cond))
        return d

    def choose(self, n, label="choice"):
        """Non-deterministic choice among range(n) (all explored)."""
        if self.pos < len(self.decisions):
            d = self.decisions[self.pos]
            self.pos += 1
            return d
        for alt in range(1, n):
            self.engine.push_alternative(self.decisions + [alt])
        self.decisions.append(0)
        self.pos += 1
        return 0

    def concretize_int(self, expr, lo=None, hi=None, cap=64):
        """Fork over all feasible integer values of expr."""
        expr = z3.simplify(expr)
        if z3.is_int_value(expr):
            return expr.as_long()
        if self.pos < len(self.decisions):
            v = self.decisions[self.pos]
            self.pos += 1
        else:
            vals = []
            extra = []
            if lo is not None:
                extra.append(expr >= lo)
            if hi is not None:
                extra.append(expr <= hi)
            while len(vals) <= cap:
                r, s = self._check(extra, rlimit=RLIMIT_BRANCH * 4)
                if r == z3.unsat:
                    break
                if r != z3.sat:
                    raise Unsupported("cannot enumerate the values of a symbolic integer (solver: unknown)")
                v = s.model().eval(expr, model_completion=True).as_long()
                vals.append(v)
                extra.append(expr != v)
            if len(vals) > cap:
                raise Unsupported("symbolic integer with more than %d feasible values" % cap)
            if not vals:
                raise InfeasiblePath()
            vals.sort()
            for alt in vals[1:]:
                self.engine.push_alternative(self.decisions + [alt])
            v = vals[0]
            self.decisions.append(v)
            self.pos += 1
        self.pc.append(expr == v)
        return v

    def assume(self, cond):
        c = _zb(cond)
        if c is True:
            return
        if c is False:
            raise InfeasiblePath()
        self.pc.append(c)

    def fresh_name(self, base):
        self.nfresh += 1
        return "%s!%d" % (base, self.nfresh)


_CTX = None


def ctx() -> Ctx:
    if _CTX is None:
        raise Unsupported("symbolic value used outside a symbolic run")
    return _CTX


def set_ctx(c):
    global _CTX
    _CTX = c


# --------------------------------------------------------------------------------------
# boolean helpers working on (python bool | z3 Bool)


def _isz(x):
    return isinstance(x, z3.ExprRef)


def b_not(a):
    if a is True:
        return False
    if a is False:
        return True
    return z3.Not(a)


def b_and(*xs):
    out = []
    for a in xs:
        if a is False:
            return False
        if a is True:
            continue
        out.append(a)
    if not out:
        return True
    return out[0] if len(out) == 1 else z3.And(*out)


def b_or(*xs):
    out = []
    for a in xs:
        if a is True:
            return True
        if a is False:
            continue
        out.append(a)
    if not out:
        return False
    return out[0] if len(out) == 1 else z3.Or(*out)


def b_ite(c, a, b):
    """ite on bool-likes."""
    if c is True:
        return a
    if c is False:
        return b
    if a is True and b is False:
        return c
    if a is False and b is True:
        return z3.Not(c)
    return z3.If(c, _z3b(a), _z3b(b))


def _z3b(a):
    return z3.BoolVal(a) if isinstance(a, bool) else a


def _zb(x):
    """Convert SBool / numpy bool / python bool to (python bool | z3 Bool)."""
    if isinstance(x, SBool):
        return x.e
    if isinstance(x, (bool, _np.bool_)):
        return bool(x)
    if _isz(x):
        return x
    if isinstance(x, _np.ndarray) and x.shape == ():
        return _zb(x[()])
    raise Unsupported("not a boolean: %r" % (type(x),))


def mk_bool(e):
    """Return python bool if e is concrete else SBool."""
    if isinstance(e, bool):
        return _np.bool_(e)
    e = z3.simplify(e)
    if z3.is_true(e):
        return _np.bool_(True)
    if z3.is_false(e):
        return _np.bool_(False)
    return SBool(e)


# --------------------------------------------------------------------------------------
# SBool


class SBool:
    __slots__ = ("e",)
    __array_ufunc__ = None

    def __init__(self, e):
        self.e = e

    def __bool__(self):
        return ctx().branch(self.e)

    def __invert__(self):
        return mk_bool(z3.Not(self.e))

    def __and__(self, o):
        return mk_bool(b_and(self.e, _zb(o)))

    __rand__ = __and__

    def __or__(self, o):
        return mk_bool(b_or(self.e, _zb(o)))

    __ror__ = __or__

    def __xor__(self, o):
        o = _zb(o)
        return mk_bool(z3.Xor(self.e, _z3b(o)))

    __rxor__ = __xor__

    def __eq__(self, o):
        return mk_bool(self.e == _z3b(_zb(o)))

    def __ne__(self, o):
        return mk_bool(self.e != _z3b(_zb(o)))

    __hash__ = None

    # arithmetic on booleans (True == 1)
    def _as_int(self):
        return SInt(z3.If(self.e, 1, 0))

    def __add__(self, o):
        return self._as_int() + o

    __radd__ = __add__

    def __mul__(self, o):
        return s_where(self, o, _zero_like(o))

    __rmul__ = __mul__

    def __repr__(self):
        return "SBool(%s)" % (self.e,)


# --------------------------------------------------------------------------------------
# SInt


def _zi(x):
    if isinstance(x, SInt):
        return x.e
    if isinstance(x, (bool, _np.bool_)):
        return z3.IntVal(int(x))
    if isinstance(x, (int, _np.integer)):
        return z3.IntVal(int(x))
    if isinstance(x, SBool):
        return z3.If(x.e, 1, 0)
    raise Unsupported("not an integer: %r" % (type(x),))


def mk_int(e):
    e = z3.simplify(e)
    if z3.is_int_value(e):
        return _np.int64(e.as_long())
    return SInt(e)


def _is_intlike(x):
    return isinstance(x, (SInt, int, _np.integer, bool, _np.bool_, SBool))


class SInt:
    __slots__ = ("e",)
    __array_ufunc__ = None

    def __init__(self, e):
        self.e = e

    def __index__(self):
        return ctx().concretize_int(self.e)

    __int__ = __index__

    def __float__(self):
        raise Unsupported("float() of a symbolic integer: use the engine's float shim")

    def _bin(self, o, f, rev=False):
        if isinstance(o, XR) or isinstance(o, (float, _np.floating)):
            a = XR.from_int(self)
            return f(as_xr(o), a) if rev else f(a, as_xr(o))
        if not _is_intlike(o):
            return NotImplemented
        a, b = self.e, _zi(o)
        if rev:
            a, b = b, a
        return mk_int(f(a, b))

    def __add__(self, o):
        return self._bin(o, lambda a, b: a + b)

    def __radd__(self, o):
        return self._bin(o, lambda a, b: a + b, True)

    def __sub__(self, o):
        return self._bin(o, lambda a, b: a - b)

    def __rsub__(self, o):
        return self._bin(o, lambda a, b: a - b, True)

    def __mul__(self, o):
        return self._bin(o, lambda a, b: a * b)

    def __rmul__(self, o):
        return self._bin(o, lambda a, b: a * b, True)

    def __neg__(self):
        return mk_int(-self.e)

    def __truediv__(self, o):
        return XR.from_int(self) / o

    def __rtruediv__(self, o):
        return as_xr(o) / XR.from_int(self)

    def _cmp(self, o, f):
        if isinstance(o, XR) or isinstance(o, (float, _np.floating)):
            return f(XR.from_int(self), as_xr(o))
        if not _is_intlike(o):
            return NotImplemented
        return mk_bool(f(self.e, _zi(o)))

    def __lt__(self, o):
        return self._cmp(o, lambda a, b: a < b)

    def __le__(self, o):
        return self._cmp(o, lambda a, b: a <= b)

    def __gt__(self, o):
        return self._cmp(o, lambda a, b: a > b)

    def __ge__(self, o):
        return self._cmp(o, lambda a, b: a >= b)

    def __eq__(self, o):
        return self._cmp(o, lambda a, b: a == b)

    def __ne__(self, o):
        return self._cmp(o, lambda a, b: a != b)

    __hash__ = None

    def __bool__(self):
        return ctx().branch(self.e != 0)

    def __repr__(self):
        return "SInt(%s)" % (self.e,)


# --------------------------------------------------------------------------------------
# XR: extended reals


def _rv(x):
    """Exact z3 real value of a python/numpy finite number."""
    if isinstance(x, (bool, _np.bool_)):
        return z3.RealVal(int(x))
    if isinstance(x, (int, _np.integer)):
        return z3.RealVal(int(x))
    fr = Fraction(float(x))
    return z3.RealVal(str(fr.numerator)) / z3.RealVal(str(fr.denominator)) if fr.denominator != 1 else z3.RealVal(str(fr.numerator))


_ZERO = z3.RealVal(0)


class XR:
    """Extended real.  py=True marks a Python float (division by zero raises)."""

    __slots__ = ("nan", "pinf", "ninf", "v", "py")
    __array_ufunc__ = None

    def __init__(self, v, nan=False, pinf=False, ninf=False, py=False):
        self.v = v
        self.nan = nan
        self.pinf = pinf
        self.ninf = ninf
        self.py = py

    # constructors
    @staticmethod
    def const(x, py=False):
        x = float(x)
        if math.isnan(x):
            return XR(_ZERO, nan=True, py=py)
        if math.isinf(x):
            return XR(_ZERO, pinf=x > 0, ninf=x < 0, py=py)
        return XR(_rv(x), py=py)

    @staticmethod
    def from_int(i):
        if isinstance(i, SInt):
            return XR(z3.ToReal(i.e), py=True)
        if isinstance(i, SBool):
            return XR(z3.If(i.e, z3.RealVal(1), _ZERO))
        return XR(_rv(int(i)), py=isinstance(i, int))

    # predicates (python bool | z3 Bool)
    def fin(self):
        return b_not(b_or(self.nan, self.pinf, self.ninf))

    def inf(self):
        return b_or(self.pinf, self.ninf)

    def is_pos(self):  # > 0 (nan -> False)
        return b_or(self.pinf, b_and(self.fin(), self.v > 0))

    def is_neg(self):
        return b_or(self.ninf, b_and(self.fin(), self.v < 0))

    def is_zero(self):
        return b_and(self.fin(), self.v == 0)

    def concrete_flags(self):
        return isinstance(self.nan, bool) and isinstance(self.pinf, bool) and isinstance(self.ninf, bool)

    # arithmetic
    def __add__(self, o):
        o = as_xr(o, NotImplemented)
        if o is NotImplemented:
            return NotImplemented
        return x_add(self, o)

    __radd__ = __add__

    def __neg__(self):
        return XR(-self.v, self.nan, self.ninf, self.pinf, self.py)

    def __pos__(self):
        return self

    def __sub__(self, o):
        o = as_xr(o, NotImplemented)
        if o is NotImplemented:
            return NotImplemented
        return x_add(self, -o)

    def __rsub__(self, o):
        o = as_xr(o, NotImplemented)
        if o is NotImplemented:
            return NotImplemented
        return x_add(o, -self)

    def __mul__(self, o):
        o = as_xr(o, NotImplemented)
        if o is NotImplemented:
            return NotImplemented
        return x_mul(self, o)

    __rmul__ = __mul__

    def __truediv__(self, o):
        o = as_xr(o, NotImplemented)
        if o is NotImplemented:
            return NotImplemented
        return x_div(self, o)

    def __rtruediv__(self, o):
        o = as_xr(o, NotImplemented)
        if o is NotImplemented:
            return NotImplemented
        return x_div(o, self)

    def __pow__(self, k):
        if isinstance(k, (int, _np.integer)) and 0 <= int(k) <= 4:
            r = XR.const(1.0, self.py)
            for _ in range(int(k)):
                r = x_mul(r, self)
            return r
        if isinstance(k, (float, _np.floating)) and float(k) == 0.5:
            return x_sqrt(self)
        raise Unsupported("power with exponent %r" % (k,))

    def __abs__(self):
        return x_abs(self)

    def __mod__(self, o):
        """Python/NumPy float modulo for a concrete positive finite divisor: a - b*floor(a/b)."""
        if is_sym(o) or not isinstance(o, (int, float, _np.integer, _np.floating)) or not (float(o) > 0 and math.isfinite(float(o))):
            raise Unsupported("modulo with a symbolic or non-positive divisor")
        if self.concrete_flags() and not (self.nan or self.pinf or self.ninf):
            b = _rv(o)
            return XR(self.v - b * z3.ToReal(z3.ToInt(self.v / b)), py=self.py)
        raise Unsupported("modulo of a possibly non-finite value")

    # comparisons
    def __lt__(self, o):
        return mk_bool(x_lt(self, as_xr(o)))

    def __gt__(self, o):
        return mk_bool(x_lt(as_xr(o), self))

    def __le__(self, o):
        return mk_bool(x_le(self, as_xr(o)))

    def __ge__(self, o):
        return mk_bool(x_le(as_xr(o), self))

    def __eq__(self, o):
        o = as_xr(o, NotImplemented)
        if o is NotImplemented:
            return NotImplemented
        return mk_bool(x_eq(self, o))

    def __ne__(self, o):
        o = as_xr(o, NotImplemented)
        if o is NotImplemented:
            return NotImplemented
        return mk_bool(b_not(x_eq(self, o)))

    __hash__ = None

    def __bool__(self):
        return ctx().branch(z3.Not(_z3b(self.is_zero())))

    def __float__(self):
        raise Unsupported("float() of a symbolic real (stored into a concrete float array?)")

    def __int__(self):
        raise Unsupported("int() of a symbolic real: use the engine's int shim")

    def __repr__(self):
        return "XR(%s%s%s%s)" % (
            z3.simplify(self.v),
            "" if self.nan is False else ",nan=%s" % (self.nan,),
            "" if self.pinf is False else ",+inf=%s" % (self.pinf,),
            "" if self.ninf is False else ",-inf=%s" % (self.ninf,),
        )


def as_xr(x, default=None):
    if isinstance(x, XR):
        return x
    if isinstance(x, (float, _np.floating)):
        return XR.const(x, py=isinstance(x, float) and not isinstance(x, _np.floating))
    if isinstance(x, (bool, _np.bool_, int, _np.integer)):
        return XR(_rv(x), py=isinstance(x, int))
    if isinstance(x, (SInt, SBool)):
        return XR.from_int(x)
    if isinstance(x, _np.ndarray) and x.shape == () and not isinstance(x[()], _np.ndarray):
        return as_xr(x[()], default)
    if default is not None:
        return default
    raise Unsupported("not a real: %r" % (type(x),))


def x_add(a, b):
    nan = b_or(a.nan, b.nan, b_and(a.pinf, b.ninf), b_and(a.ninf, b.pinf))
    pinf = b_and(b_not(nan), b_or(a.pinf, b.pinf))
    ninf = b_and(b_not(nan), b_or(a.ninf, b.ninf))
    return XR(a.v + b.v, nan, pinf, ninf, a.py and b.py)


def x_mul(a, b):
    if a.concrete_flags() and b.concrete_flags() and not (a.nan or a.pinf or a.ninf or b.nan or b.pinf or b.ninf):
        return XR(a.v * b.v, py=a.py and b.py)
    nan = b_or(a.nan, b.nan, b_and(a.inf(), b.is_zero()), b_and(b.inf(), a.is_zero()))
    anyinf = b_or(a.inf(), b.inf())
    pos = b_or(b_and(a.is_pos(), b.is_pos()), b_and(a.is_neg(), b.is_neg()))
    neg = b_or(b_and(a.is_pos(), b.is_neg()), b_and(a.is_neg(), b.is_pos()))
    pinf = b_and(b_not(nan), anyinf, pos)
    ninf = b_and(b_not(nan), anyinf, neg)
    return XR(a.v * b.v, nan, pinf, ninf, a.py and b.py)


def x_div(a, b):
    """NumPy semantics unless both are Python floats (then ZeroDivisionError on zero divisor)."""
    bz = b.is_zero()
    if a.py and b.py:
        if bz is True or (bz is not False and ctx().branch(_z3b(bz))):
            raise ZeroDivisionError("float division by zero")
        bz = False
    nan = b_or(a.nan, b.nan, b_and(a.inf(), b.inf()), b_and(a.is_zero(), bz))
    # infinite result: inf/finite, or nonzero finite / 0
    res_inf = b_or(b_and(a.inf(), b.fin()), b_and(bz, b_not(a.is_zero()), b_not(a.nan)))
    # sign: division by +0 assumed (real zero has no sign; -0.0 is not modelled)
    bpos = b_or(b.is_pos(), bz)
    pos = b_or(b_and(a.is_pos(), bpos), b_and(a.is_neg(), b.is_neg()))
    neg = b_or(b_and(a.is_pos(), b.is_neg()), b_and(a.is_neg(), bpos))
    pinf = b_and(b_not(nan), res_inf, pos)
    ninf = b_and(b_not(nan), res_inf, neg)
    # finite / inf = 0 ; otherwise a.v / b.v (guard the divisor so the term is total)
    binf = b.inf()
    if bz is False and binf is False:
        v = a.v / b.v
    else:
        safe = z3.If(_z3b(b_or(bz, binf)), z3.RealVal(1), b.v)
        v = z3.If(_z3b(binf), _ZERO, a.v / safe)
    return XR(v, nan, pinf, ninf, a.py and b.py)


def x_abs(a):
    return XR(z3.If(a.v >= 0, a.v, -a.v), a.nan, b_or(a.pinf, a.ninf), False, a.py)


_SQRT = z3.Function("sqrt", z3.RealSort(), z3.RealSort())
SQRT_DEFINING = False


def x_sqrt(a):
    """sqrt: nan for negative (finite or -inf), +inf for +inf; finite: uninterpreted s with s>=0, s*s==x."""
    nan = b_or(a.nan, a.is_neg())
    s = _SQRT(a.v)
    c = ctx()
    # sqrt is uninterpreted: only s >= 0 is assumed by default; the defining equation s*s == x (non-linear) is added
    # only where a scenario asks for it (SQRT_DEFINING = True)
    c.pc.append(s >= 0)
    if SQRT_DEFINING:
        c.pc.append(z3.Implies(a.v >= 0, s * s == a.v))
    return XR(s, nan, b_and(b_not(nan), a.pinf), False, a.py)


def x_lt(a, b):
    ok = b_not(b_or(a.nan, b.nan))
    return b_and(
        ok,
        b_or(
            b_and(a.ninf, b_not(b.ninf)),
            b_and(b.pinf, b_not(a.pinf)),
            b_and(a.fin(), b.fin(), a.v < b.v),
        ),
    )


def x_eq(a, b):
    ok = b_not(b_or(a.nan, b.nan))
    return b_and(ok, b_or(b_and(a.pinf, b.pinf), b_and(a.ninf, b.ninf), b_and(a.fin(), b.fin(), a.v == b.v)))


def x_le(a, b):
    return b_or(x_lt(a, b), x_eq(a, b))


def x_ite(c, a, b):
    """c: python bool | z3 Bool."""
    if c is True:
        return a
    if c is False:
        return b
    return XR(z3.If(c, a.v, b.v), b_ite(c, a.nan, b.nan), b_ite(c, a.pinf, b.pinf), b_ite(c, a.ninf, b.ninf), a.py and b.py)


def x_same(a, b):
    """Identity as extended reals (NaN == NaN here): for specifications."""
    return b_or(
        b_and(a.nan, b.nan),
        b_and(a.pinf, b.pinf),
        b_and(a.ninf, b.ninf),
        b_and(a.fin(), b.fin(), a.v == b.v),
    )


# --------------------------------------------------------------------------------------
# generic scalar helpers


# --------------------------------------------------------------------------------------
# XF: bit-precise IEEE-754 binary64 values (z3 FloatingPoint theory), used where a property is *about* rounding

_F64 = z3.Float64()
_RNE = z3.RNE()


def _fv(x):
    return z3.FPVal(float(x), _F64)


class XF:
    """binary64 value as a z3 FP term; arithmetic is round-to-nearest-even like CPython/NumPy."""

    __slots__ = ("t",)
    __array_ufunc__ = None

    def __init__(self, t):
        self.t = t

    @staticmethod
    def lift(x):
        if isinstance(x, XF):
            return x
        if isinstance(x, (int, float, _np.integer, _np.floating)) and not isinstance(x, (bool, _np.bool_)):
            return XF(_fv(x))
        if isinstance(x, _np.ndarray) and x.shape == ():
            return XF.lift(x[()])
        raise Unsupported("cannot lift %r to a binary64 term" % (type(x),))

    def _bin(self, o, f, rev=False):
        try:
            o = XF.lift(o)
        except Unsupported:
            return NotImplemented
        a, b = (o.t, self.t) if rev else (self.t, o.t)
        return XF(f(a, b))

    def __add__(self, o):
        return self._bin(o, lambda a, b: z3.fpAdd(_RNE, a, b))

    __radd__ = __add__

    def __sub__(self, o):
        return self._bin(o, lambda a, b: z3.fpSub(_RNE, a, b))

    def __rsub__(self, o):
        return self._bin(o, lambda a, b: z3.fpSub(_RNE, a, b), True)

    def __mul__(self, o):
        return self._bin(o, lambda a, b: z3.fpMul(_RNE, a, b))

    __rmul__ = __mul__

    def __truediv__(self, o):
        return self._bin(o, lambda a, b: z3.fpDiv(_RNE, a, b))

    def __rtruediv__(self, o):
        return self._bin(o, lambda a, b: z3.fpDiv(_RNE, a, b), True)

    def __neg__(self):
        return XF(z3.fpNeg(self.t))

    def _cmp(self, o, f):
        return mk_bool(f(self.t, XF.lift(o).t))

    def __lt__(self, o):
        return self._cmp(o, z3.fpLT)

    def __le__(self, o):
        return self._cmp(o, z3.fpLEQ)

    def __gt__(self, o):
        return self._cmp(o, z3.fpGT)

    def __ge__(self, o):
        return self._cmp(o, z3.fpGEQ)

    def __eq__(self, o):
        return self._cmp(o, z3.fpEQ)

    def __ne__(self, o):
        return self._cmp(o, lambda a, b: z3.Not(z3.fpEQ(a, b)))

    __hash__ = None

    def __bool__(self):
        return ctx().branch(z3.Not(z3.fpIsZero(self.t)))

    def __float__(self):
        raise Unsupported("float() of a symbolic binary64 value")

    def __repr__(self):
        return "XF(%s)" % (z3.simplify(self.t),)


def xf_int_trunc(x, bound=4096):
    """int(x) for a binary64 term: forks over the integer k with k <= x < k+1 (x >= 0) resp. k-1 < x <= k (x < 0)."""
    c = ctx()
    if c.branch(z3.Or(z3.fpIsNaN(x.t), z3.fpIsInf(x.t))):
        raise ValueError("cannot convert float NaN/infinity to integer")
    if c.branch(z3.fpLT(x.t, _fv(0.0))):
        for k in range(0, -bound, -1):
            if c.branch(z3.And(z3.fpGT(x.t, _fv(k - 1)), z3.fpLEQ(x.t, _fv(k)))):
                return k
        raise Unsupported("int() of a binary64 term below -%d" % bound)
    for k in range(bound):
        if c.branch(z3.And(z3.fpGEQ(x.t, _fv(k)), z3.fpLT(x.t, _fv(k + 1)))):
            return k
    raise Unsupported("int() of a binary64 term above %d" % bound)


def is_sym(x):
    return isinstance(x, (XR, SBool, SInt, XF))


def _zero_like(o):
    if isinstance(o, XR):
        return XR.const(0.0)
    if isinstance(o, (SInt,)):
        return _np.int64(0)
    if isinstance(o, (float, _np.floating)):
        return _np.float64(0.0)
    return type(o)(0) if not isinstance(o, SBool) else _np.bool_(False)


def s_where(c, a, b):
    """Scalar where with possibly symbolic condition."""
    cz = _zb(c)
    if cz is True:
        return a
    if cz is False:
        return b
    if isinstance(a, (SBool, bool, _np.bool_)) and isinstance(b, (SBool, bool, _np.bool_)):
        return mk_bool(b_ite(cz, _zb(a), _zb(b)))
    if _is_intlike(a) and _is_intlike(b) and not isinstance(a, (bool, _np.bool_, SBool)):
        return mk_int(z3.If(cz, _zi(a), _zi(b)))
    if isinstance(a, XF) or isinstance(b, XF):
        return XF(z3.If(cz, XF.lift(a).t, XF.lift(b).t))
    return x_ite(cz, as_xr(a), as_xr(b))


def s_isnan(a):
    if isinstance(a, XR):
        return mk_bool(a.nan)
    if isinstance(a, (SInt, SBool)):
        return _np.bool_(False)
    return _np.isnan(a)


def s_isinf(a):
    if isinstance(a, XR):
        return mk_bool(a.inf())
    if isinstance(a, (SInt, SBool)):
        return _np.bool_(False)
    return _np.isinf(a)


def s_isfinite(a):
    if isinstance(a, XR):
        return mk_bool(a.fin())
    if isinstance(a, (SInt, SBool)):
        return _np.bool_(True)
    return _np.isfinite(a)


def s_nan_to_num(a):
    """np.nan_to_num defaults: nan->0, +inf->max, -inf->min.  Infinite symbolic values unsupported unless flags concrete False."""
    if not isinstance(a, XR):
        return _np.nan_to_num(a)
    if a.pinf is not False or a.ninf is not False:
        # large finite number: modelled as the double max
        big = XR.const(_np.finfo(_np.float64).max)
        r = x_ite(a.pinf, big, x_ite(a.ninf, -big, XR(a.v)))
    else:
        r = XR(a.v)
    return x_ite(a.nan, XR.const(0.0), r)


def s_maximum(a, b):
    """np.maximum: NaN propagates."""
    a, b = as_xr(a), as_xr(b)
    nan = b_or(a.nan, b.nan)
    r = x_ite(x_lt(a, b), b, a)
    return XR(r.v, nan, b_and(b_not(nan), r.pinf), b_and(b_not(nan), r.ninf))


def s_minimum(a, b):
    a, b = as_xr(a), as_xr(b)
    nan = b_or(a.nan, b.nan)
    r = x_ite(x_lt(b, a), b, a)
    return XR(r.v, nan, b_and(b_not(nan), r.pinf), b_and(b_not(nan), r.ninf))


def s_int_trunc(a):
    """int(x) for finite x: truncation toward zero. NaN/inf raise (ValueError/OverflowError) as obligations."""
    a = as_xr(a)
    if a.nan is not False:
        if a.nan is True or ctx().branch(_z3b(a.nan)):
            raise ValueError("cannot convert float NaN to integer")
    inf = a.inf()
    if inf is not False:
        if inf is True or ctx().branch(_z3b(inf)):
            raise OverflowError("cannot convert float infinity to integer")
    fl = z3.ToInt(a.v)  # floor
    return mk_int(z3.If(a.v >= 0, fl, z3.If(z3.ToReal(fl) == a.v, fl, fl + 1)))


def s_float(a):
    if isinstance(a, XR):
        return XR(a.v, a.nan, a.pinf, a.ninf, True)
    if isinstance(a, (SInt, SBool)):
        return XR.from_int(a)
    return float(a)


def sym_bool_value(x):
    """(python bool | z3 Bool) for anything boolean-like, incl. 0-d arrays."""
    return _zb(x)


def conj(items):
    out = True
    for it in items:
        out = b_and(out, _zb(it))
    return mk_bool(out)


def disj(items):
    out = False
    for it in items:
        out = b_or(out, _zb(it))
    return mk_bool(out)
