"""NumPy shim for roptvc: `SymArray` (object-dtype ndarray subclass holding symbolic scalars)
and a module-like namespace `SNP` that replaces `np` inside the code under verification.

Principles
* Structural operations (indexing, reshape, split, stack, repeat, ...) are done by the real NumPy on the
  object array: their semantics (index maps, view/copy behaviour, write flags) are NumPy's own.
* Value operations on arrays that contain symbolic elements are modelled here, elementwise or as
  folds of the scalar operations in sym.py.
* Anything that is neither is *fail closed*: all-concrete arguments are handed to the real NumPy,
  symbolic ones raise Unsupported.
"""
from __future__ import annotations

import itertools

import numpy as rnp
import z3

from . import sym
from .sym import SBool, SInt, Unsupported, XR, is_sym

# ------------------------------------------------------------------------------------
# helpers


def has_sym(x):
    if is_sym(x):
        return True
    if isinstance(x, rnp.ndarray):
        if x.dtype != object:
            return False
        return any(is_sym(e) for e in x.flat)
    if isinstance(x, (list, tuple)):
        return any(has_sym(e) for e in x)
    return False


def _kind(elems):
    """'b', 'i' or 'f' for a collection of concrete numpy scalars."""
    k = "b"
    for e in elems:
        if isinstance(e, (bool, rnp.bool_)):
            continue
        if isinstance(e, (int, rnp.integer)):
            if k == "b":
                k = "i"
            continue
        if isinstance(e, (float, rnp.floating)):
            k = "f"
            continue
        return "O"
    return k


def to_plain(a):
    """Typed plain ndarray from an all-concrete SymArray (copy)."""
    if not isinstance(a, rnp.ndarray):
        return a
    if a.dtype != object:
        return rnp.asarray(a)
    flat = list(a.flat)
    sd = getattr(a, "sdtype", None)
    if sd is None:
        k = _kind(flat)
        sd = {"b": rnp.bool_, "i": rnp.int64, "f": rnp.float64}.get(k)
        if sd is None:
            raise Unsupported("object array with non-numeric contents")
    if flat and sd == rnp.bool_ and _kind(flat) != "b":
        sd = {"i": rnp.int64, "f": rnp.float64}[_kind(flat)]
    if flat and sd in (rnp.int64, rnp.intc, rnp.intp) and _kind(flat) == "f":
        sd = rnp.float64
    out = rnp.empty(a.shape, dtype=sd)
    if flat:
        out[...] = rnp.array(flat, dtype=sd).reshape(a.shape)
    return out


def wrap(a, sdtype=None):
    """SymArray (object) from a plain array (copy) or pass through."""
    if isinstance(a, SymArray):
        return a
    if isinstance(a, rnp.ndarray):
        out = rnp.empty(a.shape, dtype=object)
        if a.size:
            if a.dtype == object:
                out[...] = a
            else:
                flat = [a.dtype.type(v) for v in a.flat]  # keep numpy scalar types
                tmp = rnp.empty(len(flat), dtype=object)
                for i, v in enumerate(flat):
                    tmp[i] = v
                out[...] = tmp.reshape(a.shape)
        r = out.view(SymArray)
        r.sdtype = sdtype if sdtype is not None else (a.dtype.type if a.dtype != object else None)
        return r
    return a


def _obj(x):
    """object ndarray view of anything (no copy for SymArray)."""
    if isinstance(x, SymArray):
        return x.view(rnp.ndarray)
    if isinstance(x, rnp.ndarray):
        if x.dtype == object:
            return x
        return wrap(x).view(rnp.ndarray)
    if isinstance(x, (list, tuple)):
        return _obj(array(x))
    out = rnp.empty((), dtype=object)
    out[()] = x
    return out


def _scalarize(r, all_scalars):
    if all_scalars and isinstance(r, rnp.ndarray) and r.shape == ():
        return r[()]
    return r


def _is_scalar(x):
    return not isinstance(x, (rnp.ndarray, list, tuple))


OPLOG = set()


def elementwise(f, *inputs, sdtype=None):
    OPLOG.add("elementwise")
    objs = [_obj(x) for x in inputs]
    shape = rnp.broadcast_shapes(*[o.shape for o in objs])
    bs = [rnp.broadcast_to(o, shape) for o in objs]
    out = rnp.empty(shape, dtype=object)
    if out.size:
        its = [b.flat for b in bs]
        res = rnp.empty(out.size, dtype=object)
        for i, vals in enumerate(zip(*its)):
            res[i] = f(*vals)
        out[...] = res.reshape(shape)
    r = out.view(SymArray)
    r.sdtype = sdtype
    if all(_is_scalar(x) for x in inputs):
        return r[()]
    return r


# ------------------------------------------------------------------------------------
# scalar operations with concrete fast path


def _conc(*xs):
    return not any(is_sym(x) for x in xs)


def _b(x):
    return sym._zb(x)


import operator as _op

_XF_OPS = {"add": _op.add, "subtract": _op.sub, "multiply": _op.mul, "true_divide": _op.truediv, "divide": _op.truediv, "negative": _op.neg,
           "less": _op.lt, "less_equal": _op.le, "greater": _op.gt, "greater_equal": _op.ge, "equal": _op.eq, "not_equal": _op.ne, "positive": lambda a: a}


def _mkop(real_ufunc, symf):
    name = real_ufunc.__name__

    def op(*xs):
        if _conc(*xs):
            with rnp.errstate(all="ignore"):
                return real_ufunc(*xs)
        if any(isinstance(x, sym.XF) for x in xs):
            # bit-precise binary64 operands: only the operations with an exact IEEE meaning are available
            if name not in _XF_OPS:
                raise Unsupported("numpy.%s on bit-precise binary64 values" % name)
            ys = [x if isinstance(x, sym.XF) else sym.XF.lift(x) for x in xs]
            return _XF_OPS[name](*ys)
        return symf(*xs)

    return op


def _arith(symf_real, symf_int=None):
    def f(a, b):
        if symf_int is not None and sym._is_intlike(a) and sym._is_intlike(b):
            return symf_int(a, b)
        return symf_real(sym.as_xr(a), sym.as_xr(b))

    return f


def _np_real(x):
    """operand as numpy-semantics XR (py flag cleared): arrays never raise ZeroDivisionError."""
    x = sym.as_xr(x)
    if x.py:
        x = XR(x.v, x.nan, x.pinf, x.ninf, False)
    return x


def _s_pow(a, k):
    if is_sym(k):
        raise Unsupported("symbolic exponent")
    return sym.as_xr(a) ** k


def _s_logical(fn):
    def f(*xs):
        zs = []
        for x in xs:
            if isinstance(x, (XR, SInt)):
                zs.append(sym._zb(x != 0))
            elif isinstance(x, SBool):
                zs.append(x.e)
            else:
                zs.append(bool(x))
        return sym.mk_bool(fn(*zs))

    return f


def _s_invert(a):
    if isinstance(a, SBool):
        return ~a
    raise Unsupported("invert on symbolic non-bool")


def _s_bitop(fn):
    def f(a, b):
        if all(isinstance(x, (SBool, bool, rnp.bool_)) for x in (a, b)):
            return sym.mk_bool(fn(_b(a), _b(b)))
        raise Unsupported("bitwise operation on symbolic non-bool")

    return f


def _cmp(f):
    def g(a, b):
        if sym._is_intlike(a) and sym._is_intlike(b) and not (isinstance(a, SBool) and isinstance(b, SBool)):
            return sym.mk_bool(f(sym._zi(a), sym._zi(b)))
        return None

    return g


def _lt(a, b):
    r = _cmp(lambda x, y: x < y)(a, b)
    return r if r is not None else sym.mk_bool(sym.x_lt(sym.as_xr(a), sym.as_xr(b)))


def _le(a, b):
    r = _cmp(lambda x, y: x <= y)(a, b)
    return r if r is not None else sym.mk_bool(sym.x_le(sym.as_xr(a), sym.as_xr(b)))


def _eq(a, b):
    if isinstance(a, (SBool, bool, rnp.bool_)) and isinstance(b, (SBool, bool, rnp.bool_)):
        return sym.mk_bool(sym._z3b(_b(a)) == sym._z3b(_b(b)))
    r = _cmp(lambda x, y: x == y)(a, b)
    return r if r is not None else sym.mk_bool(sym.x_eq(sym.as_xr(a), sym.as_xr(b)))


def _ne(a, b):
    return ~_eq(a, b) if is_sym(_eq(a, b)) else rnp.bool_(not _eq(a, b))


SCALAR_OPS = {
    "add": _mkop(rnp.add, _arith(lambda a, b: sym.x_add(_np_real(a), _np_real(b)), lambda a, b: sym.mk_int(sym._zi(a) + sym._zi(b)))),
    "subtract": _mkop(rnp.subtract, _arith(lambda a, b: sym.x_add(_np_real(a), -_np_real(b)), lambda a, b: sym.mk_int(sym._zi(a) - sym._zi(b)))),
    "multiply": _mkop(rnp.multiply, _arith(lambda a, b: sym.x_mul(_np_real(a), _np_real(b)), lambda a, b: sym.mk_int(sym._zi(a) * sym._zi(b)))),
    "true_divide": _mkop(rnp.true_divide, lambda a, b: sym.x_div(_np_real(a), _np_real(b))),
    "negative": _mkop(rnp.negative, lambda a: -a),
    "positive": _mkop(rnp.positive, lambda a: a),
    "absolute": _mkop(rnp.absolute, lambda a: abs(sym.as_xr(a)) if not isinstance(a, SInt) else sym.mk_int(z3.If(a.e >= 0, a.e, -a.e))),
    "power": _mkop(rnp.power, _s_pow),
    "square": _mkop(rnp.square, lambda a: sym.x_mul(_np_real(a), _np_real(a))),
    "sqrt": _mkop(rnp.sqrt, lambda a: sym.x_sqrt(_np_real(a))),
    "less": _mkop(rnp.less, _lt),
    "less_equal": _mkop(rnp.less_equal, _le),
    "greater": _mkop(rnp.greater, lambda a, b: _lt(b, a)),
    "greater_equal": _mkop(rnp.greater_equal, lambda a, b: _le(b, a)),
    "equal": _mkop(rnp.equal, _eq),
    "not_equal": _mkop(rnp.not_equal, _ne),
    "logical_and": _mkop(rnp.logical_and, _s_logical(sym.b_and)),
    "logical_or": _mkop(rnp.logical_or, _s_logical(sym.b_or)),
    "logical_not": _mkop(rnp.logical_not, _s_logical(sym.b_not)),
    "bitwise_and": _mkop(rnp.bitwise_and, _s_bitop(sym.b_and)),
    "bitwise_or": _mkop(rnp.bitwise_or, _s_bitop(sym.b_or)),
    "bitwise_xor": _mkop(rnp.bitwise_xor, _s_bitop(lambda a, b: z3.Xor(sym._z3b(a), sym._z3b(b)))),
    "invert": _mkop(rnp.invert, _s_invert),
    "isnan": _mkop(rnp.isnan, sym.s_isnan),
    "isinf": _mkop(rnp.isinf, sym.s_isinf),
    "isfinite": _mkop(rnp.isfinite, sym.s_isfinite),
    "maximum": _mkop(rnp.maximum, sym.s_maximum),
    "minimum": _mkop(rnp.minimum, sym.s_minimum),
}
SCALAR_OPS["divide"] = SCALAR_OPS["true_divide"]
SCALAR_OPS["fabs"] = SCALAR_OPS["absolute"]

_BOOL_RESULT = {"less", "less_equal", "greater", "greater_equal", "equal", "not_equal", "logical_and", "logical_or", "logical_not", "isnan", "isinf", "isfinite"}


def _fold(op, items, initial=None):
    it = iter(items)
    acc = initial
    if acc is None:
        try:
            acc = next(it)
        except StopIteration:
            raise Unsupported("reduction of an empty sequence without identity")
    for x in it:
        acc = op(acc, x)
    return acc


def reduce_axis(op, a, axis=None, keepdims=False, initial=None, sdtype=None):
    """Fold `op` over axis (int | tuple | None) of object array a."""
    OPLOG.add("reduce")
    o = _obj(a)
    if axis is None:
        r = _fold(op, o.flat, initial)
        if keepdims:
            out = rnp.empty((1,) * o.ndim, dtype=object)
            out[...] = r
            rr = out.view(SymArray)
            rr.sdtype = sdtype
            return rr
        return r
    axes = (axis,) if isinstance(axis, (int, rnp.integer)) else tuple(axis)
    axes = tuple(ax % o.ndim for ax in axes)
    rest = [i for i in range(o.ndim) if i not in axes]
    moved = rnp.transpose(o, rest + list(axes))
    rshape = tuple(o.shape[i] for i in rest)
    out = rnp.empty(rshape, dtype=object)
    for idx in rnp.ndindex(*rshape):
        out[idx] = _fold(op, moved[idx].flat, initial)
    if keepdims:
        shp = [1 if i in axes else o.shape[i] for i in range(o.ndim)]
        out = out.reshape(shp)
    r = out.view(SymArray)
    r.sdtype = sdtype
    if r.shape == () and not keepdims:
        return r[()]
    return r


# ------------------------------------------------------------------------------------
# SymArray


def _norm_index(idx):
    """Convert SymArray index components holding concrete ints/bools to plain arrays.
    Returns (index, symbolic_flag)."""
    symbolic = False

    def conv(c):
        nonlocal symbolic
        if isinstance(c, SymArray) or (isinstance(c, rnp.ndarray) and c.dtype == object):
            if has_sym(c):
                symbolic = True
                return c
            return to_plain(c)
        if isinstance(c, (SInt, SBool)):
            symbolic = True
            return c
        if isinstance(c, list) and has_sym(c):
            symbolic = True
            return array(c)
        return c

    if isinstance(idx, tuple):
        return tuple(conv(c) for c in idx), symbolic
    return conv(idx), symbolic


class SymArray(rnp.ndarray):
    """Object ndarray whose value operations are routed through sym scalar ops."""

    sdtype = None
    __array_priority__ = 1000

    def __array_finalize__(self, obj):
        if obj is not None:
            self.sdtype = getattr(obj, "sdtype", None)

    # -- ufunc dispatch
    def __array_ufunc__(self, ufunc, method, *inputs, out=None, **kwargs):
        name = ufunc.__name__
        if name == "matmul" and method == "__call__" and out is None and not kwargs:
            return matmul(*inputs)  # the @ operator
        if name not in SCALAR_OPS:
            if not has_sym(list(inputs)):
                res = getattr(ufunc, method)(*[to_plain(x) if isinstance(x, rnp.ndarray) else x for x in inputs], **kwargs)
                return wrap(res) if isinstance(res, rnp.ndarray) else res
            raise Unsupported("numpy ufunc %s on symbolic values" % name)
        op = SCALAR_OPS[name]
        sd = rnp.bool_ if name in _BOOL_RESULT else None
        if method == "__call__":
            where = kwargs.pop("where", True)
            kwargs.pop("dtype", None)
            kwargs.pop("casting", None)
            if kwargs:
                raise Unsupported("ufunc kwargs %s" % list(kwargs))
            res = elementwise(op, *inputs, sdtype=sd)
            if out is not None:
                (o,) = out
                if where is not True:
                    res = where_(where, res, o)
                o[...] = res
                return o
            if where is not True:
                raise Unsupported("ufunc where= without out=")
            return res
        if method == "reduce":
            axis = kwargs.pop("axis", 0)
            keepdims = kwargs.pop("keepdims", False)
            initial = kwargs.pop("initial", None)
            kwargs.pop("dtype", None)
            if kwargs.pop("where", True) is not True or out is not None:
                raise Unsupported("reduce with where/out")
            ident = {"add": rnp.int64(0), "multiply": rnp.int64(1), "logical_or": rnp.bool_(False), "logical_and": rnp.bool_(True), "bitwise_or": rnp.bool_(False), "bitwise_and": rnp.bool_(True)}.get(name)
            if initial is None:
                initial = ident
            return reduce_axis(op, inputs[0], axis=axis, keepdims=keepdims, initial=initial, sdtype=sd)
        raise Unsupported("ufunc method %s" % method)

    def __array_function__(self, func, types, args, kwargs):
        f = getattr(SNP, func.__name__, None)
        if f is None or not callable(f):
            raise Unsupported("numpy function %s on SymArray" % func.__name__)
        return f(*args, **kwargs)

    # -- indexing
    def __getitem__(self, idx):
        idx, symbolic = _norm_index(idx)
        if not symbolic:
            r = super().__getitem__(idx)
            return r
        return _sym_getitem(self, idx)

    def __setitem__(self, idx, value):
        if not self.flags.writeable:
            raise ValueError("assignment destination is read-only")
        idx, symbolic = _norm_index(idx)
        if not symbolic:
            if isinstance(value, rnp.ndarray) and not isinstance(value, SymArray) and value.dtype != object:
                value = wrap(value)
            if isinstance(value, (list, tuple)):
                value = array(value)
            if isinstance(value, rnp.ndarray):
                value = value.view(rnp.ndarray)
            elif isinstance(value, float) and not isinstance(value, rnp.floating):
                value = rnp.float64(value)
            rnp.ndarray.__setitem__(self.view(rnp.ndarray), idx, value)
            return
        _sym_setitem(self, idx, value)

    # -- in-place operators (NumPy refuses ufunc calls with symbolic scalar operands, so route them explicitly)
    def _inplace(self, name, other):
        if not self.flags.writeable:
            raise ValueError("output array is read-only")
        res = elementwise(SCALAR_OPS[name], self, other)
        if _obj(res).shape != self.shape:
            raise ValueError("non-broadcastable output operand")
        self.view(rnp.ndarray)[...] = _obj(res)
        return self

    def __iadd__(self, o):
        return self._inplace("add", o)

    def __isub__(self, o):
        return self._inplace("subtract", o)

    def __imul__(self, o):
        return self._inplace("multiply", o)

    def __itruediv__(self, o):
        return self._inplace("true_divide", o)

    def __ior__(self, o):
        return self._inplace("logical_or" if self.sdtype in (rnp.bool_, bool) or all(isinstance(e, (SBool, bool, rnp.bool_)) for e in self.flat) else "bitwise_or", o)

    def __iand__(self, o):
        return self._inplace("logical_and" if self.sdtype in (rnp.bool_, bool) or all(isinstance(e, (SBool, bool, rnp.bool_)) for e in self.flat) else "bitwise_and", o)

    # -- methods with value semantics
    def sum(self, axis=None, dtype=None, out=None, keepdims=False, initial=None):
        return sum_(self, axis=axis, keepdims=keepdims)

    def any(self, axis=None, out=None, keepdims=False):
        return any_(self, axis=axis, keepdims=keepdims)

    def all(self, axis=None, out=None, keepdims=False):
        return all_(self, axis=axis, keepdims=keepdims)

    def dot(self, other):
        return dot(self, other)

    def max(self, axis=None, **kw):
        return reduce_axis(SCALAR_OPS["maximum"], self, axis=axis)

    def min(self, axis=None, **kw):
        return reduce_axis(SCALAR_OPS["minimum"], self, axis=axis)

    def fill(self, value):
        self[...] = value

    def argsort(self, *a, **k):
        return argsort(self, *a, **k)

    def cumsum(self, axis=None):
        return cumsum(self, axis=axis)

    def mean(self, axis=None, dtype=None, out=None, keepdims=False):
        if out is not None or isinstance(axis, tuple):
            raise Unsupported("mean(out=) / mean over several axes")
        n = self.size if axis is None else self.shape[axis]
        return sum_(self, axis=axis, keepdims=keepdims) / float(n)

    def nonzero(self):
        return nonzero(self)

    def astype(self, dtype, **kw):
        if not has_sym(self):
            return wrap(to_plain(self).astype(dtype))
        r = self.copy()
        r.sdtype = dtype
        return r

    def tolist(self):
        if has_sym(self):
            # nested lists of the entries themselves (symbolic entries stay proxies: a later `if` on one of them forks the path)
            return rnp.ndarray.tolist(self.view(rnp.ndarray))
        return to_plain(self).tolist()

    def item(self, *a):
        return rnp.ndarray.item(self.view(rnp.ndarray), *a)

    def __bool__(self):
        if self.size != 1:
            raise ValueError("The truth value of an array with more than one element is ambiguous.")
        return bool(self.view(rnp.ndarray).flat[0])

    def __float__(self):
        if self.size != 1:
            raise TypeError("only size-1 arrays can be converted")
        return float(self.view(rnp.ndarray).flat[0])

    def __repr__(self):
        return "SymArray(%s, sdtype=%s)" % (rnp.ndarray.__repr__(self.view(rnp.ndarray)), self.sdtype)


def _sym_getitem(a, idx):
    """Indexing with symbolic components: supports (i) boolean masks with symbolic entries (forks to
    concrete), (ii) 1-D gather a[k] / a[K] with symbolic integer index (ite chain over the first axis)."""
    if not isinstance(idx, tuple):
        idx = (idx,)
    # concretise symbolic boolean masks (data dependent shapes)
    new = []
    for c in idx:
        if isinstance(c, SBool):
            new.append(bool(c))
        elif isinstance(c, rnp.ndarray) and c.dtype == object and all(isinstance(e, (SBool, bool, rnp.bool_)) for e in c.flat):
            m = rnp.array([bool(e) for e in c.flat], dtype=bool).reshape(c.shape)
            new.append(m)
        else:
            new.append(c)
    idx = tuple(new)
    idx2, symbolic = _norm_index(idx)
    if not symbolic:
        return rnp.ndarray.__getitem__(a, idx2 if len(idx2) != 1 else idx2[0])
    # symbolic integer gather on the first axis only
    if len(idx) == 1:
        k = idx[0]
        n = a.shape[0]
        if isinstance(k, SInt):
            return _gather(a, k, n)
        if isinstance(k, rnp.ndarray):
            parts = [_gather(a, e, n) if isinstance(e, SInt) else rnp.ndarray.__getitem__(a, int(e)) for e in k.flat]
            out = rnp.empty((len(parts),) + a.shape[1:], dtype=object)
            for i, p in enumerate(parts):
                out[i] = p
            out = out.reshape(k.shape + a.shape[1:])
            r = out.view(SymArray)
            r.sdtype = a.sdtype
            return r
    raise Unsupported("symbolic index pattern %r" % (idx,))


def _gather(a, k, n):
    """a[k] with SInt k: obligation 0 <= k < n is checked by forking into an IndexError path."""
    c = sym.ctx()
    inb = z3.And(k.e >= -n, k.e < n)
    if not c.branch(inb):
        raise IndexError("index out of bounds (symbolic)")
    kk = z3.If(k.e < 0, k.e + n, k.e)
    res = rnp.ndarray.__getitem__(a, n - 1)
    for i in range(n - 2, -1, -1):
        cur = rnp.ndarray.__getitem__(a, i)
        res = where_(sym.mk_bool(kk == i), cur, res)
    return res


def _sym_setitem(a, idx, value):
    """a[idx] = value with symbolic idx: boolean mask (elementwise ite) or integer scatter on first axis."""
    base = a.view(rnp.ndarray)
    if not isinstance(idx, tuple):
        idx = (idx,)
    first = idx[0]
    rest = idx[1:]
    if any(has_sym(r) if not isinstance(r, slice) and r is not Ellipsis else False for r in rest):
        raise Unsupported("symbolic index beyond the first axis")
    n = a.shape[0]
    if isinstance(first, rnp.ndarray) and first.ndim == 1 and all(isinstance(e, (SBool, bool, rnp.bool_)) for e in first.flat):
        # boolean mask over first axis; value must broadcast per row (data independent)
        if first.shape[0] != n:
            raise IndexError("boolean index did not match")
        v = _obj(value) if not _is_scalar(value) else value
        if not _is_scalar(value) and isinstance(v, rnp.ndarray) and v.ndim >= 1 and v.ndim == (base[(0,) + rest].ndim + 1 if True else 0):
            # the value array is consumed entry by entry in mask order (data-dependent): decide the mask by forking
            m = rnp.array([bool(e) for e in first.flat], dtype=bool)
            rnp.ndarray.__setitem__(base, (m,) + rest, _obj(value))
            return
        for i in range(n):
            tgt = base[(i,) + rest]
            new = where_(first[i], value, tgt)
            base[(i,) + rest] = _obj(new) if isinstance(new, rnp.ndarray) else new
        return
    if isinstance(first, rnp.ndarray) and first.ndim > 1 and all(isinstance(e, (SBool, bool, rnp.bool_)) for e in first.flat):
        # multi-dimensional boolean mask: decide it by forking, then NumPy does the assignment
        m = rnp.array([bool(e) for e in first.flat], dtype=bool).reshape(first.shape)
        rnp.ndarray.__setitem__(base, (m,) + rest, value if _is_scalar(value) else _obj(value))
        return
    if isinstance(first, SInt):
        first = array([first])
        value = rnp.expand_dims(_obj(value), 0) if not _is_scalar(value) else value
    if isinstance(first, rnp.ndarray) and first.ndim == 1:
        # integer scatter: later entries win (numpy semantics for repeated indices)
        c = sym.ctx()
        vals = _obj(value) if not _is_scalar(value) else None
        for j, k in enumerate(first.flat):
            vj = value if vals is None else (vals[j] if vals.ndim >= 1 and vals.shape[0] == first.shape[0] else vals)
            if isinstance(k, SInt):
                inb = z3.And(k.e >= -n, k.e < n)
                if not c.branch(inb):
                    raise IndexError("index out of bounds (symbolic)")
                kk = z3.If(k.e < 0, k.e + n, k.e)
                for i in range(n):
                    tgt = base[(i,) + rest]
                    new = where_(sym.mk_bool(kk == i), vj, tgt)
                    base[(i,) + rest] = _obj(new) if isinstance(new, rnp.ndarray) else new
            else:
                base[(int(k),) + rest] = vj
        return
    raise Unsupported("symbolic assignment index pattern")


# ------------------------------------------------------------------------------------
# functions of the shim namespace


def _involves_symarray(x):
    if isinstance(x, SymArray):
        return True
    if isinstance(x, (list, tuple)):
        return any(_involves_symarray(e) for e in x)
    return False


def _deplain(x):
    if isinstance(x, SymArray):
        return to_plain(x)
    if isinstance(x, list):
        return [_deplain(e) for e in x]
    if isinstance(x, tuple):
        return tuple(_deplain(e) for e in x)
    return x


_CONCRETE_REDUCTIONS = {"all", "any", "sum", "count_nonzero", "max", "min", "amax", "amin", "mean", "dot", "argsort", "sort", "allclose", "array_equal",
                        "argmax", "argmin", "prod", "cumsum", "unique", "nonzero", "flatnonzero", "median", "nanmax", "nanmin", "isin"}


def plain_call(real, *args, **kwargs):
    """All-concrete call: done by the real NumPy; the result is a SymArray iff an input was one."""
    anysa = _involves_symarray(list(args) + list(kwargs.values()))
    nm = getattr(real, "__name__", "")
    if nm in _CONCRETE_REDUCTIONS and any(isinstance(a, rnp.ndarray) and a.size > 1 for a in args):
        # a reduction over several (concrete) elements can couple the elements of a result: recorded, because the per-element
        # "all shapes" argument of purely element-wise code does not survive it
        OPLOG.add("concrete-reduce:" + nm)
    with rnp.errstate(all="ignore"):
        r = real(*[_deplain(a) for a in args], **{k: _deplain(v) for k, v in kwargs.items()})
    if not anysa:
        return r
    if isinstance(r, rnp.ndarray):
        return wrap(r)
    if isinstance(r, tuple):
        return tuple(wrap(e) if isinstance(e, rnp.ndarray) else e for e in r)
    if isinstance(r, list):
        return [wrap(e) if isinstance(e, rnp.ndarray) else e for e in r]
    return r


def array(obj, dtype=None, copy=True, ndmin=0, **kw):
    if isinstance(obj, SymArray):
        r = obj.copy() if copy else obj
        if ndmin and r.ndim < ndmin:
            r = r.reshape((1,) * (ndmin - r.ndim) + r.shape)
        if dtype is not None and not has_sym(r):
            return wrap(to_plain(r).astype(dtype))
        return r
    if not has_sym(obj) and not (isinstance(obj, (list, tuple)) and any(isinstance(e, SymArray) for e in _flatten(obj))):
        return wrap(rnp.array(obj, dtype=dtype, ndmin=ndmin))
    if is_sym(obj):
        out = rnp.empty((), dtype=object)
        out[()] = obj
    else:
        # nested lists/tuples possibly containing SymArrays / symbolic scalars
        parts = [(_obj(e) if isinstance(e, (rnp.ndarray, list, tuple)) else e) for e in obj]
        shapes = {(p.shape if isinstance(p, rnp.ndarray) else ()) for p in parts}
        if len(shapes) != 1:
            raise Unsupported("ragged array construction")
        (sh,) = shapes
        out = rnp.empty((len(parts),) + sh, dtype=object)
        for i, p in enumerate(parts):
            out[i] = p
    if ndmin and out.ndim < ndmin:
        out = out.reshape((1,) * (ndmin - out.ndim) + out.shape)
    r = out.view(SymArray)
    r.sdtype = dtype
    return r


def _flatten(x):
    for e in x:
        if isinstance(e, (list, tuple)):
            yield from _flatten(e)
        else:
            yield e


def asarray(obj, dtype=None, **kw):
    if isinstance(obj, SymArray):
        return obj
    if isinstance(obj, rnp.ndarray) and obj.dtype != object:
        return wrap(obj if dtype is None else obj.astype(dtype))
    return array(obj, dtype=dtype)


def _ctor(real):
    def f(*a, **k):
        return wrap(real(*a, **k))

    f.__name__ = real.__name__
    return f


zeros = _ctor(rnp.zeros)
ones = _ctor(rnp.ones)
def empty(shape, dtype=float, **k):
    """np.empty: ARBITRARY contents.  Floating-point entries are fresh unconstrained symbols ('uninitialised!k'), so that a result
    which depends on an entry that was never written cannot satisfy its specification (it would depend on whatever the memory
    held: other runs, other optimizations).  Other dtypes: zeros (one admissible choice)."""
    base = rnp.zeros(shape, dtype=dtype)
    r = wrap(base)
    if rnp.issubdtype(base.dtype, rnp.floating) and base.size:
        c = sym._CTX  # noqa: SLF001  (None outside a symbolic run)
        if c is not None:
            o = r.view(rnp.ndarray)
            for idx in rnp.ndindex(*base.shape):
                o[idx] = XR(z3.Real(c.fresh_name("uninitialised")))
    return r


full = _ctor(rnp.full)
arange = rnp.arange  # index arrays stay plain
eye = _ctor(rnp.eye)


def zeros_like(a, dtype=None, **k):
    return wrap(rnp.zeros(rnp.shape(a), dtype=dtype or (getattr(a, "sdtype", None) if isinstance(a, SymArray) else getattr(a, "dtype", rnp.float64)) or rnp.float64))


def ones_like(a, dtype=None, **k):
    return wrap(rnp.ones(rnp.shape(a), dtype=dtype or rnp.float64))


def empty_like(a, dtype=None, **k):
    dt = dtype or (getattr(a, "sdtype", None) if isinstance(a, SymArray) else getattr(a, "dtype", rnp.float64)) or rnp.float64
    return empty(rnp.shape(a), dtype=dt)


def where_(cond, x=None, y=None):
    if x is None and y is None:
        if has_sym(cond):
            # data dependent shape: concretise
            c = _obj(cond)
            m = rnp.array([bool(e) for e in c.flat], dtype=bool).reshape(c.shape)
            return rnp.where(m)
        return rnp.where(to_plain(cond) if isinstance(cond, rnp.ndarray) else cond)
    if not has_sym([cond, x, y]) and not any(isinstance(t, SymArray) for t in (cond, x, y)):
        return rnp.where(cond, x, y)
    return elementwise(sym.s_where, cond, x, y)


def _decide_mask(cond):
    """Concrete boolean array of a (possibly symbolic) condition array; symbolic entries are decided by forking."""
    if isinstance(cond, rnp.ndarray) and cond.dtype == object or isinstance(cond, (list, tuple)) and has_sym(cond):
        c = _obj(cond) if isinstance(cond, rnp.ndarray) else _obj(array(cond))
        return rnp.array([bool(e) for e in c.flat], dtype=bool).reshape(c.shape)
    return to_plain(cond) if isinstance(cond, rnp.ndarray) else rnp.asarray(cond)


def flatnonzero(a):
    return rnp.flatnonzero(_decide_nonzero(a))


def nonzero(a):
    return rnp.nonzero(_decide_nonzero(a))


def argwhere(a):
    return rnp.argwhere(_decide_nonzero(a))


def _decide_nonzero(a):
    if isinstance(a, rnp.ndarray) and a.dtype == object:
        c = _obj(a)
        if all(isinstance(e, (SBool, bool, rnp.bool_)) for e in c.flat):
            return _decide_mask(a)
        return rnp.array([bool(e != 0) for e in c.flat], dtype=bool).reshape(c.shape)
    return a


def _ufunc_like(name):
    op = SCALAR_OPS[name]
    sd = rnp.bool_ if name in _BOOL_RESULT else None

    def f(*inputs, out=None, where=True, **kw):
        if not has_sym(list(inputs)) and not any(isinstance(t, SymArray) for t in inputs) and out is None:
            with rnp.errstate(all="ignore"):
                return getattr(rnp, name)(*inputs, **kw)
        res = elementwise(op, *inputs, sdtype=sd)
        if out is not None:
            if where is not True:
                res = where_(where, res, out)
            out[...] = res
            return out
        if where is not True:
            raise Unsupported("where= without out=")
        return res

    f.__name__ = name
    return f


class _UfuncShim:
    """np.logical_or etc.: callable with .reduce"""

    def __init__(self, name):
        self._f = _ufunc_like(name)
        self._name = name
        self.__name__ = name

    def __call__(self, *a, **k):
        return self._f(*a, **k)

    def reduce(self, a, axis=0, keepdims=False, initial=None, **kw):
        if not has_sym(a) and not isinstance(a, SymArray):
            return getattr(rnp, self._name).reduce(a, axis=axis, keepdims=keepdims, **kw)
        ident = {"add": rnp.int64(0), "multiply": rnp.int64(1), "logical_or": rnp.bool_(False), "logical_and": rnp.bool_(True)}.get(self._name)
        return reduce_axis(SCALAR_OPS[self._name], a, axis=axis, keepdims=keepdims, initial=initial if initial is not None else ident, sdtype=rnp.bool_ if self._name in _BOOL_RESULT else None)


def putmask(a, mask, values):
    """numpy.putmask: a.flat[n] = values.flat[n % values.size] for every n where mask.flat[n] (in place; the values are cycled over
    ALL positions, not over the selected ones)."""
    if not has_sym([a, mask, values]) and not any(isinstance(t, SymArray) for t in (a, mask, values)):
        return rnp.putmask(a, mask, values)
    if not isinstance(a, rnp.ndarray):
        raise Unsupported("putmask on a non-array")
    m = rnp.broadcast_to(_obj(mask), a.shape)
    v = _obj(values).reshape(-1)
    if v.size == 0:
        raise Unsupported("putmask with no values")
    cyc = rnp.empty(a.size, dtype=object)
    for n in range(a.size):
        cyc[n] = v[n % v.size]
    a[...] = elementwise(sym.s_where, m, cyc.reshape(a.shape), a)
    return None


def nan_to_num(a, copy=True, **kw):
    if kw:
        raise Unsupported("nan_to_num kwargs")
    if not has_sym(a):
        return plain_call(rnp.nan_to_num, a, copy=copy)
    res = elementwise(sym.s_nan_to_num, a)
    if not copy and isinstance(a, rnp.ndarray):
        # copy=False works in place: the argument itself (possibly a view into a larger array) is overwritten and returned
        a[...] = res
        return a
    return res


def sum_(a, axis=None, keepdims=False, **kw):
    if not isinstance(a, rnp.ndarray) and has_sym(a):
        a = array(a)
    if not has_sym(a):
        return plain_call(rnp.sum, a, axis=axis, keepdims=keepdims)
    return reduce_axis(SCALAR_OPS["add"], a, axis=axis, keepdims=keepdims, initial=rnp.int64(0) if rnp.size(a) == 0 else None)


def _truth(e):
    if isinstance(e, SBool):
        return e
    if isinstance(e, (XR, SInt)):
        return e != 0
    return rnp.bool_(bool(e))


def any_(a, axis=None, keepdims=False, **kw):
    if not isinstance(a, rnp.ndarray) and has_sym(a):
        a = array(a)
    if not has_sym(a):
        return plain_call(rnp.any, a, axis=axis, keepdims=keepdims)
    return reduce_axis(lambda x, y: _truth(x) | _truth(y), a, axis=axis, keepdims=keepdims, initial=rnp.bool_(False), sdtype=rnp.bool_)


def all_(a, axis=None, keepdims=False, **kw):
    if not isinstance(a, rnp.ndarray) and has_sym(a):
        a = array(a)
    if not has_sym(a):
        return plain_call(rnp.all, a, axis=axis, keepdims=keepdims)
    return reduce_axis(lambda x, y: _truth(x) & _truth(y), a, axis=axis, keepdims=keepdims, initial=rnp.bool_(True), sdtype=rnp.bool_)


def count_nonzero(a, axis=None, keepdims=False):
    if not isinstance(a, rnp.ndarray) and has_sym(a):
        a = array(a)
    if not has_sym(a):
        return plain_call(rnp.count_nonzero, a, axis=axis, keepdims=keepdims)
    ints = elementwise(lambda e: sym.s_where(_truth(e), rnp.int64(1), rnp.int64(0)), a)
    return reduce_axis(SCALAR_OPS["add"], ints, axis=axis, keepdims=keepdims, initial=rnp.int64(0), sdtype=rnp.int64)


def dot(a, b, out=None):
    if out is not None:
        raise Unsupported("dot(out=)")
    if not has_sym([a, b]):
        return plain_call(rnp.dot, a, b)
    OPLOG.add("dot")
    A, B = _obj(a), _obj(b)
    mul, add = SCALAR_OPS["multiply"], SCALAR_OPS["add"]
    if A.ndim == 0 or B.ndim == 0:
        return elementwise(mul, a, b)

    def inner(u, v):
        if len(u) != len(v):
            raise ValueError("shapes not aligned")
        if len(u) == 0:
            return rnp.float64(0.0)
        return _fold(add, [mul(x, y) for x, y in zip(u, v)])

    if A.ndim == 1 and B.ndim == 1:
        return inner(list(A), list(B))
    if B.ndim == 1:
        if A.shape[-1] != B.shape[0]:
            raise ValueError("shapes not aligned")
        out = rnp.empty(A.shape[:-1], dtype=object)
        for idx in rnp.ndindex(*A.shape[:-1]):
            out[idx] = inner(list(A[idx]), list(B))
        return out.view(SymArray)
    if A.ndim == 1:
        if A.shape[0] != B.shape[-2]:
            raise ValueError("shapes not aligned")
        oshape = B.shape[:-2] + B.shape[-1:]
        out = rnp.empty(oshape, dtype=object)
        for idx in rnp.ndindex(*oshape):
            col = B[idx[:-1] + (slice(None), idx[-1])]
            out[idx] = inner(list(A), list(col))
        return out.view(SymArray)
    if A.ndim == 2 and B.ndim == 2:
        if A.shape[1] != B.shape[0]:
            raise ValueError("shapes not aligned")
        out = rnp.empty((A.shape[0], B.shape[1]), dtype=object)
        for i in range(A.shape[0]):
            for j in range(B.shape[1]):
                out[i, j] = inner(list(A[i, :]), list(B[:, j]))
        return out.view(SymArray)
    raise Unsupported("dot of %d-d and %d-d" % (A.ndim, B.ndim))


def matmul(a, b):
    A, B = _obj(a), _obj(b)
    if A.ndim <= 2 and B.ndim <= 2 and A.ndim >= 1 and B.ndim >= 1:
        return dot(a, b)
    raise Unsupported("matmul of stacked matrices")


def abs_(a):
    return _ufunc_like("absolute")(a)


def clip(a, a_min=None, a_max=None, out=None, **kw):
    """np.clip(a, lo, hi) == minimum(maximum(a, lo), hi) (NumPy's definition)."""
    if out is not None:
        raise Unsupported("clip(out=)")
    r = a
    if a_min is not None:
        r = _ufunc_like("maximum")(r, a_min)
    if a_max is not None:
        r = _ufunc_like("minimum")(r, a_max)
    return r


def allclose(a, b, rtol=1e-05, atol=1e-08, equal_nan=False):
    if not has_sym([a, b]):
        return plain_call(rnp.allclose, a, b, rtol=rtol, atol=atol, equal_nan=equal_nan)

    def close(x, y):
        x, y = sym.as_xr(x), sym.as_xr(y)
        fin = sym.b_and(x.fin(), y.fin())
        d = abs(x - y)
        bound = sym.as_xr(atol) + sym.as_xr(rtol) * abs(y)
        c = sym.b_or(sym.b_and(fin, sym.x_le(d, bound)), sym.b_and(sym.b_not(fin), sym.x_eq(x, y)))
        if equal_nan:
            c = sym.b_or(c, sym.b_and(x.nan, y.nan))
        return sym.mk_bool(c)

    return all_(elementwise(close, a, b))


def amax(a, axis=None, keepdims=False, **kw):
    if not has_sym(a):
        return plain_call(rnp.max, a, axis=axis, keepdims=keepdims)
    return reduce_axis(SCALAR_OPS["maximum"], a, axis=axis, keepdims=keepdims)


def amin(a, axis=None, keepdims=False, **kw):
    if not has_sym(a):
        return plain_call(rnp.min, a, axis=axis, keepdims=keepdims)
    return reduce_axis(SCALAR_OPS["minimum"], a, axis=axis, keepdims=keepdims)


def isclose(a, b, rtol=1e-05, atol=1e-08, equal_nan=False):
    if not has_sym([a, b]):
        return plain_call(rnp.isclose, a, b, rtol=rtol, atol=atol, equal_nan=equal_nan)

    def close(x, y):
        x, y = sym.as_xr(x), sym.as_xr(y)
        fin = sym.b_and(x.fin(), y.fin())
        d = abs(x - y)
        bound = sym.as_xr(atol) + sym.as_xr(rtol) * abs(y)
        c = sym.b_or(sym.b_and(fin, sym.x_le(d, bound)), sym.b_and(sym.b_not(fin), sym.x_eq(x, y)))
        if equal_nan:
            c = sym.b_or(c, sym.b_and(x.nan, y.nan))
        return sym.mk_bool(c)

    return elementwise(close, a, b, sdtype=rnp.bool_)


def argsort(a, axis=-1, kind=None, **kw):
    """Ascending argsort, NaN last.  Symbolic: a vector of fresh integers constrained to be a sorting
    permutation (ties: any order - NumPy's default sort is not stable)."""
    if not has_sym(a):
        return plain_call(rnp.argsort, a, axis=axis, kind=kind)
    OPLOG.add("argsort")
    A = _obj(a)
    if A.ndim != 1:
        raise Unsupported("argsort of %d-d symbolic array" % A.ndim)
    n = A.shape[0]
    c = sym.ctx()
    ks = [z3.Int(c.fresh_name("perm")) for _ in range(n)]
    for k in ks:
        c.pc.append(z3.And(k >= 0, k < n))
    if n > 1:
        c.pc.append(z3.Distinct(*ks))
    xs = [sym.as_xr(e) for e in A]

    def sel(k):
        r = xs[n - 1]
        for i in range(n - 2, -1, -1):
            r = sym.x_ite(k == i, xs[i], r)
        return r

    sorted_vals = [sel(k) for k in ks]
    for u, v in zip(sorted_vals, sorted_vals[1:]):
        # u <= v in the NaN-last order
        c.pc.append(sym._z3b(sym.b_or(v.nan, sym.b_and(sym.b_not(u.nan), sym.x_le(u, v)))))
    out = rnp.empty(n, dtype=object)
    for i, k in enumerate(ks):
        out[i] = SInt(k)
    r = out.view(SymArray)
    r.sdtype = rnp.intp
    return r


def argmin(a, axis=None):
    if not has_sym(a):
        return plain_call(rnp.argmin, a, axis=axis)
    A = _obj(a)
    if all(isinstance(e, (SBool, bool, rnp.bool_)) for e in A.flat):
        # index of the first False of a boolean array: the (symbolic) entries are decided by forking
        OPLOG.add("reduce")
        return rnp.argmin(_decide_mask(a), axis=axis)
    raise Unsupported("argmin on symbolic values")


def cumsum(a, axis=None):
    if not has_sym(a):
        return plain_call(rnp.cumsum, a, axis=axis)
    A = _obj(a)
    if A.ndim != 1:
        raise Unsupported("cumsum nd")
    out = rnp.empty(A.shape, dtype=object)
    acc = None
    for i, e in enumerate(A):
        acc = e if acc is None else SCALAR_OPS["add"](acc, e)
        out[i] = acc
    return out.view(SymArray)


def isin_sym(*a, **k):
    raise Unsupported("isin")


_STRUCTURAL = [
    "reshape", "transpose", "moveaxis", "swapaxes", "expand_dims", "squeeze", "broadcast_to", "broadcast_arrays",
    "repeat", "tile", "concatenate", "vstack", "hstack", "stack", "column_stack", "append", "split", "vsplit", "hsplit",
    "array_split", "atleast_1d", "atleast_2d", "ravel", "flip", "roll", "take", "diag", "copy", "compress", "delete",
    "shape", "size", "ndim", "triu", "tril",
]


def _structural(name):
    real = getattr(rnp, name)

    def f(*args, **kwargs):
        def fix(x):
            if isinstance(x, SymArray):
                return x.view(rnp.ndarray)
            if isinstance(x, (list, tuple)) and any(isinstance(e, SymArray) for e in x):
                return type(x)(fix(e) if isinstance(e, SymArray) else (wrap(e).view(rnp.ndarray) if isinstance(e, rnp.ndarray) else e) for e in x)
            return x

        OPLOG.add("structural:" + name)
        involved = any(isinstance(x, SymArray) or (isinstance(x, (list, tuple)) and any(isinstance(e, SymArray) for e in x)) for x in list(args) + list(kwargs.values()))
        if not involved:
            return real(*args, **kwargs)
        # symbolic selectors (compress/take/delete with symbolic conditions) are not structural
        if name in ("compress", "take", "delete") and has_sym(args[0] if name == "compress" else args[1]):
            raise Unsupported("%s with symbolic selector" % name)
        res = real(*[fix(a) for a in args], **{k: fix(v) for k, v in kwargs.items()})

        def back(r):
            if isinstance(r, rnp.ndarray):
                return r.view(SymArray) if r.dtype == object else r
            if isinstance(r, (list, tuple)):
                return type(r)(back(e) for e in r)
            return r

        return back(res)

    f.__name__ = name
    return f


LIBRARY_CONTRACTS = {}  # e.g. "linalg.svd" -> callable standing for the library function on symbolic values (set by a scenario)


class _Linalg:
    def __getattr__(self, name):
        real = getattr(rnp.linalg, name)

        def f(*a, **k):
            if has_sym(list(a)):
                if "linalg." + name in LIBRARY_CONTRACTS:
                    OPLOG.add("library-contract:linalg." + name)
                    return LIBRARY_CONTRACTS["linalg." + name](*a, **k)
                raise Unsupported("numpy.linalg.%s on symbolic values" % name)
            res = real(*[to_plain(x) if isinstance(x, rnp.ndarray) else x for x in a], **k)
            if isinstance(res, tuple):
                return tuple(wrap(r) if isinstance(r, rnp.ndarray) else r for r in res)
            return wrap(res) if isinstance(res, rnp.ndarray) else res

        return f


class _Shim:
    """Module-like object standing in for `np`."""

    def __init__(self):
        d = self.__dict__
        d.update(
            array=array, asarray=asarray, asanyarray=asarray, zeros=zeros, ones=ones, empty=empty, full=full, arange=arange, eye=eye,
            zeros_like=zeros_like, ones_like=ones_like, empty_like=empty_like,
            where=where_, flatnonzero=flatnonzero, nonzero=nonzero, argwhere=argwhere, nan_to_num=nan_to_num, putmask=putmask, sum=sum_, any=any_, all=all_, count_nonzero=count_nonzero,
            dot=dot, matmul=matmul, abs=abs_, clip=clip, allclose=allclose, isclose=isclose, max=amax, amax=amax, min=amin, amin=amin, argsort=argsort, argmin=argmin, cumsum=cumsum,
            linalg=_Linalg(), ndarray=rnp.ndarray,
        )
        for n in ("add", "subtract", "multiply", "true_divide", "divide", "negative", "absolute", "fabs", "power", "square", "sqrt",
                  "less", "less_equal", "greater", "greater_equal", "equal", "not_equal", "logical_and", "logical_or", "logical_not",
                  "bitwise_and", "bitwise_or", "bitwise_xor", "invert", "isnan", "isinf", "isfinite", "maximum", "minimum"):
            d[n] = _UfuncShim(n)
        for n in _STRUCTURAL:
            d[n] = _structural(n)

    def __getattr__(self, name):
        real = getattr(rnp, name)
        if not callable(real) or isinstance(real, type):
            return real  # constants, dtypes, classes
        if isinstance(real, rnp.ufunc):
            def uf(*a, **k):
                if has_sym(list(a)):
                    raise Unsupported("numpy.%s on symbolic values" % name)
                r = real(*[to_plain(x) if isinstance(x, rnp.ndarray) else x for x in a], **k)
                return wrap(r) if isinstance(r, rnp.ndarray) and any(isinstance(x, SymArray) for x in a) else r
            return uf

        def generic(*a, **k):
            if has_sym(list(a) + list(k.values())):
                raise Unsupported("numpy.%s on symbolic values" % name)
            return plain_call(real, *a, **k)

        generic.__name__ = name
        return generic


SNP = _Shim()


def _install_lift(cls, table):
    """Binary operators of symbolic scalars with ndarray operands act elementwise."""
    for dunder, (ufname, rev) in table.items():
        orig = getattr(cls, dunder, None)
        if orig is None:
            continue

        def make(orig, ufname, rev):
            def m(self, o):
                if isinstance(o, rnp.ndarray) and o.shape != ():
                    args = (o, self) if rev else (self, o)
                    return elementwise(SCALAR_OPS[ufname], *args, sdtype=rnp.bool_ if ufname in _BOOL_RESULT else None)
                return orig(self, o)

            return m

        setattr(cls, dunder, make(orig, ufname, rev))


_TABLE = {
    "__add__": ("add", False), "__radd__": ("add", True), "__sub__": ("subtract", False), "__rsub__": ("subtract", True),
    "__mul__": ("multiply", False), "__rmul__": ("multiply", True), "__truediv__": ("true_divide", False),
    "__rtruediv__": ("true_divide", True), "__lt__": ("less", False), "__le__": ("less_equal", False),
    "__gt__": ("greater", False), "__ge__": ("greater_equal", False), "__eq__": ("equal", False), "__ne__": ("not_equal", False),
    "__and__": ("logical_and", False), "__rand__": ("logical_and", True), "__or__": ("logical_or", False), "__ror__": ("logical_or", True),
}
for _cls in (XR, SInt, SBool):
    _install_lift(_cls, _TABLE)


# NumPy scalars are subscriptable and carry a few array attributes; so do the symbolic scalars
def _scalar_as_array(x):
    out = rnp.empty((), dtype=object)
    out[()] = x
    return out.view(SymArray)


for _cls in (XR, SInt, SBool):
    _cls.__getitem__ = lambda self, idx: _scalar_as_array(self)[idx]
    _cls.shape = ()
    _cls.ndim = 0
    _cls.size = 1
    _cls.copy = lambda self: self
    _cls.setflags = lambda self, write=None, align=None, uic=None: None  # NumPy scalars accept it and are immutable anyway
    _cls.flags = rnp.float64(0.0).flags
    _cls.item = lambda self: self
    _cls.flatten = lambda self: _scalar_as_array(self).reshape(1)
    _cls.reshape = lambda self, *shape: _scalar_as_array(self).reshape(*shape)
    _cls.sum = lambda self, *a, **k: self
    _cls.T = property(lambda self: self)
