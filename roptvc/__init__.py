"""roptvc: contract checking of the real ropt source by symbolic execution + SMT."""
import os
import sys

_SRC = os.path.join(os.environ.get("VERIF_REPO", "/repo"), "src")
if _SRC not in sys.path[:1]:
    sys.path.insert(0, _SRC)
