"""Shadow loading: the verified text is the code that runs.

Every run re-reads the module source under ``$VERIF_REPO/src`` (default /repo/src), compiles that text
(file name = the real path, so line numbers are the real ones) and executes it in a fresh *shadow*
namespace.  Afterwards, and only then, the following names are rebound in that namespace:

* ``np``                         -> the NumPy shim (roptvc.snp.SNP)
* ``int``, ``float``, ``max``, ``min``  -> shims that understand symbolic scalars
* functions/classes imported from other shadowed repo modules -> their shadow versions
* names given in ``stubs``       -> contract stubs (modular verification: callee by contract)

Nothing else of the source is altered: no statement is rewritten, dropped or reordered.
"""
from __future__ import annotations

import ast
import builtins
import hashlib
import importlib
import os
import sys
import types

import numpy as rnp

from . import sym
from .snp import SNP, SymArray
from .sym import ContractUnbound, SBool, SInt, XR

REPO = os.environ.get("VERIF_REPO", "/repo")
SRC = os.path.join(REPO, "src")


def use_repo(path):
    global REPO, SRC
    REPO = path
    SRC = os.path.join(REPO, "src")


def ensure_repo_on_path():
    """Make `import ropt` resolve to $VERIF_REPO/src (the editable install points to /repo/src)."""
    if sys.path[0] != SRC:
        sys.path.insert(0, SRC)
    m = sys.modules.get("ropt")
    if m is not None and not os.path.abspath(m.__file__).startswith(os.path.abspath(SRC)):
        raise sym.EngineError("ropt already imported from %s, expected %s" % (m.__file__, SRC))


# ---------------------------------------------------------------------------------------
# builtin shims (bound as module globals after exec)


class _IntMeta(type):
    def __instancecheck__(cls, obj):
        return isinstance(obj, int)

    def __subclasscheck__(cls, sub):
        return issubclass(sub, int)


class IntShim(int, metaclass=_IntMeta):
    def __new__(cls, x=0, *a):
        if isinstance(x, XR):
            return sym.s_int_trunc(x)
        if isinstance(x, sym.XF):
            return sym.xf_int_trunc(x)
        if isinstance(x, (SInt,)):
            return x
        if isinstance(x, SBool):
            return sym.mk_int(sym._zi(x))
        if isinstance(x, SymArray):
            if x.size != 1:
                raise TypeError("only size-1 arrays can be converted to Python scalars")
            return IntShim(x.view(rnp.ndarray).flat[0])
        return int(x, *a)


class _FloatMeta(type):
    def __instancecheck__(cls, obj):
        return isinstance(obj, float)

    def __subclasscheck__(cls, sub):
        return issubclass(sub, float)


class FloatShim(float, metaclass=_FloatMeta):
    def __new__(cls, x=0.0):
        if isinstance(x, (XR, SInt, SBool)):
            return sym.s_float(x)
        if isinstance(x, SymArray):
            if x.size != 1:
                raise TypeError("only size-1 arrays can be converted to Python scalars")
            return FloatShim(x.view(rnp.ndarray).flat[0])
        return float(x)


def _max(*args, **kw):
    if len(args) == 1:
        args = tuple(args[0])
    if not any(sym.is_sym(a) for a in args) or kw:
        return builtins.max(*args, **kw)
    acc = args[0]
    for b in args[1:]:
        # python max: returns b iff b > acc
        acc = sym.s_where(b > acc, b, acc)
    return acc


def _min(*args, **kw):
    if len(args) == 1:
        args = tuple(args[0])
    if not any(sym.is_sym(a) for a in args) or kw:
        return builtins.min(*args, **kw)
    acc = args[0]
    for b in args[1:]:
        acc = sym.s_where(b < acc, b, acc)
    return acc


GLOBAL_SHIMS = {"int": IntShim, "float": FloatShim, "max": _max, "min": _min}


# ---------------------------------------------------------------------------------------


def module_path(modname):
    rel = modname.replace(".", "/")
    p = os.path.join(SRC, rel + ".py")
    if os.path.exists(p):
        return p
    p = os.path.join(SRC, rel, "__init__.py")
    if os.path.exists(p):
        return p
    raise ContractUnbound("module %s is no longer present under %s" % (modname, SRC))


class FunctionInfo:
    def __init__(self, module, qualname, path, lineno, end_lineno, sha256):
        self.module, self.qualname, self.path = module, qualname, path
        self.lineno, self.end_lineno, self.sha256 = lineno, end_lineno, sha256

    def as_dict(self):
        return {
            "function": "%s:%s" % (self.module, self.qualname),
            "file": os.path.relpath(self.path, REPO),
            "lines": [self.lineno, self.end_lineno],
            "sha256": self.sha256,
        }


def _find_def(tree, qualname):
    node = tree
    for part in qualname.split("."):
        found = None
        for child in ast.iter_child_nodes(node):
            if isinstance(child, (ast.FunctionDef, ast.AsyncFunctionDef, ast.ClassDef)) and child.name == part:
                found = child  # the last definition wins (earlier ones are @overload stubs)
        if found is None:
            return None
        node = found
    return node


class Shadow:
    """A set of shadow module namespaces built from the current source text."""

    def __init__(self):
        ensure_repo_on_path()
        self.ns = {}
        self.src = {}
        self.trees = {}

    def load(self, modname):
        if modname in self.ns:
            return self.ns[modname]
        path = module_path(modname)
        text = open(path, encoding="utf-8").read()
        tree = ast.parse(text, filename=path)
        code = compile(tree, path, "exec")
        real = importlib.import_module(modname)  # makes relative imports and dependencies available
        ns = {
            "__name__": modname,
            "__package__": real.__package__,
            "__file__": path,
            "__builtins__": builtins.__dict__,
            "__shadow__": True,
        }
        exec(code, ns)  # noqa: S102 - the point of the exercise
        self.ns[modname] = ns
        self.src[modname] = (path, text)
        self.trees[modname] = tree
        return ns

    def link(self, stubs=None):
        """Rebind np/builtins, cross-module references and stubs.  stubs: {(module, name) | name: obj}."""
        shadow_objs = {}
        for m, ns in self.ns.items():
            for k, v in ns.items():
                if isinstance(v, (types.FunctionType, type)) and getattr(v, "__module__", None) == m:
                    shadow_objs[(m, k)] = v
        for m, ns in self.ns.items():
            if "np" in ns:
                ns["np"] = SNP
            ns.update(GLOBAL_SHIMS)
            for k, v in list(ns.items()):
                if isinstance(v, (types.FunctionType, type)):
                    vm = getattr(v, "__module__", None)
                    if vm != m and (vm, getattr(v, "__name__", None)) in shadow_objs and vm in self.ns:
                        ns[k] = shadow_objs[(vm, v.__name__)]
        for key, obj in (stubs or {}).items():
            if isinstance(key, tuple):
                mod, name = key
                if name not in self.ns[mod]:
                    raise ContractUnbound("the callee %s.%s replaced by an assumed contract is no longer referenced there" % (mod, name))
                self.ns[mod][name] = obj
            else:
                hit = False
                for ns in self.ns.values():
                    if key in ns:
                        ns[key] = obj
                        hit = True
                if not hit:
                    raise ContractUnbound("the callee %s replaced by an assumed contract is no longer referenced by any shadowed module" % key)

    def get(self, modname, qualname):
        obj = self.ns[modname]
        first = True
        try:
            for part in qualname.split("."):
                obj = obj[part] if first else getattr(obj, part)
                first = False
        except (KeyError, AttributeError):
            raise ContractUnbound("%s:%s is no longer defined" % (modname, qualname)) from None
        return obj

    def info(self, modname, qualname):
        path, text = self.src[modname]
        node = _find_def(self.trees[modname], qualname)
        if node is None:
            raise ContractUnbound("%s:%s is no longer defined in %s" % (modname, qualname, path))
        seg = ast.get_source_segment(text, node) or ""
        return FunctionInfo(modname, qualname, path, node.lineno, node.end_lineno, hashlib.sha256(seg.encode()).hexdigest())


def real_get(modname, qualname):
    ensure_repo_on_path()
    try:
        obj = importlib.import_module(modname)
        for part in qualname.split("."):
            obj = getattr(obj, part)
    except (ImportError, AttributeError) as exc:
        raise ContractUnbound("%s:%s is no longer defined (%s)" % (modname, qualname, exc)) from None
    return obj
