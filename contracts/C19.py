"""C19 - plug-in lookup is deterministic, case-insensitive and side-effect free.

Functions under contract: ropt.plugins._manager:PluginManager.__init__ / add_plugin / get_plugin / is_supported / plugins,
ropt.plugins.base:Plugin.allows_discovery, ropt.plugins.optimizer.external:ExternalOptimizerPlugin.allows_discovery.
"""
from __future__ import annotations

import itertools

from roptvc.driver import Scenario

LEVEL = "other"
M = "ropt.plugins._manager"
EXPLANATION = (
    "Representation invariant of the registry (per plug-in type an insertion-ordered map with distinct lower-case keys) and a post-condition per operation against the abstract "
    "view (the ordered list of (name, plug-in) pairs), checked from EVERY registry state with up to 3 plug-ins over a universe of names, for every operation and argument of "
    "a finite alphabet (names in both cases, 'plugin/method', bare methods, unknown plug-ins, prioritized or not), with the plug-ins' is_supported answers and discovery flags "
    "SYMBOLIC booleans (so every support relation is covered). Because every operation is proved to re-establish the invariant from an arbitrary state satisfying it, the "
    "clauses hold after any sequence of operations (induction over histories). Strings are concrete (finite alphabet): bounded in names and registry size, not in history length."
)
ASSUMPTIONS = [
    "plug-in and method names range over a finite alphabet (strings are not symbolic in the engine); registries of up to 3 plug-ins per type",
    "Plugin.is_supported / allows_discovery of third-party plug-ins are arbitrary (symbolic) but side-effect free",
    "dict preserves insertion order (Python language guarantee)",
]

TYPES = ("optimizer", "sampler")
NAMES = ("a", "b", "c")


class FakePlugin:
    """A plug-in whose answers are symbolic booleans, fixed per (plug-in, method)."""

    def __init__(self, T, ident, log):
        self.T, self.ident, self.log = T, ident, log
        self._disc = T.boolean("discovery_%s" % ident)
        self._sup = {}

    @property
    def allows_discovery(self):
        return self._disc

    def is_supported(self, method):
        self.log.append((self.ident, method))
        if method not in self._sup:
            self._sup[method] = self.T.boolean("supports_%s_%s" % (self.ident, method.replace("/", "_")))
        return self._sup[method]

    def __repr__(self):
        return "<plugin %s>" % self.ident


def cases_ops(tier):
    states = [()]
    for k in (1, 2, 3):
        states += list(itertools.permutations(NAMES, k))
    if tier == "thorough":
        states += list(itertools.permutations(NAMES + ("e",), 4))
    for st in states:
        yield "state=%s" % ",".join(st), {"state": list(st)}
        # the same registry (the same ordered view) reached by another history: every plug-in registered with priority, last first;
        # or the first one registered with priority after the others
        if len(st) >= 2:
            yield "state=%s/reached-by-prioritized-registrations" % ",".join(st), {"state": list(st), "how": "prioritized"}
        if len(st) == 3 or (len(st) == 2 and tier == "thorough"):
            yield "state=%s/reached-by-appending-then-one-prioritized-registration" % ",".join(st), {"state": list(st), "how": "mixed"}


ADD_ARGS = [(n, p) for n in ("a", "A", "d", "D", "c") for p in (False, True)]
GET_ARGS = ["m", "M", "a/m", "A/m", "B/m", "d/m", "a/m/n", "default", "a/", "c/M", "/m", "/"]  # "/m": a request naming the (non-existent) plug-in ""


ALL_TYPES = ("optimizer", "sampler", "realization_filter", "function_estimator", "plan_handler", "plan_step")


def _manager(T, state, log, how="appended"):
    """A manager in the registry state of the case, reached the way every state is reached: made by its real constructor (no plug-in
    installed by entry points) and given the plug-ins of the state through add_plugin, one after the other - how the manager keeps
    them is its own business; the scenarios look at it through plugins(), get_plugin() and is_supported() only."""
    empty = lambda plugin_type: {}  # noqa: E731
    if T.symbolic:
        sh = T.shadow([M], stubs={(M, "_from_entry_points"): empty})
        cls = T.under_contract(sh, M, "PluginManager")
        for q in ("__init__", "add_plugin", "get_plugin", "is_supported", "plugins"):
            T.under_contract(sh, M, "PluginManager." + q)
        mgr = cls()
    else:
        import ropt.plugins._manager as real

        saved = real._from_entry_points
        real._from_entry_points = empty
        try:
            mgr = real.PluginManager()
        finally:
            real._from_entry_points = saved
    plugs = {n: FakePlugin(T, n, log) for n in state}
    other = FakePlugin(T, "other", log)
    if how == "prioritized":
        for n in reversed(state):
            mgr.add_plugin("optimizer", n, plugs[n], prioritize=True)
    elif how == "mixed":
        for n in state[1:]:
            mgr.add_plugin("optimizer", n, plugs[n])
        mgr.add_plugin("optimizer", state[0], plugs[state[0]], prioritize=True)
    else:
        for n in state:
            mgr.add_plugin("optimizer", n, plugs[n])
    mgr.add_plugin("sampler", "z", other)
    del log[:]
    return mgr, plugs, other


def _view(mgr, t="optimizer"):
    """The abstract view of the registry of one plug-in type: the ordered (name, plug-in) pairs the public plugins() yields."""
    return list(mgr.plugins(t))


def scn_ops(T, case):
    from ropt.exceptions import ConfigError

    state = case["state"]
    log = []
    mgr, plugs, other = _manager(T, state, log, case.get("how", "appended"))
    T.prove("C19.state.registrations_with_and_without_priority_reach_the_registry_of_the_case", [n for n, _ in _view(mgr)] == list(state))
    before = _view(mgr)
    before_other = {t: _view(mgr, t) for t in ALL_TYPES if t != "optimizer"}
    kind = T.choose(3)
    if kind == 0:
        name, prio = ADD_ARGS[T.choose(len(ADD_ARGS))]
        new = FakePlugin(T, "new", log)
        lname = name.lower()
        dup = lname in [n for n, _ in before]
        try:
            mgr.add_plugin("optimizer", name, new, prioritize=prio)
        except ConfigError:
            T.prove("C19.add.rejects_only_duplicates_ignoring_case", dup)
            T.prove("C19.add.rejected_registration_changes_nothing", _view(mgr) == before)
            return
        T.prove("C19.add.duplicates_are_rejected_ignoring_case", not dup)
        want = ([(lname, new)] + before) if prio else (before + [(lname, new)])
        T.prove("C19.add.view_is_extended_at_the_front_if_prioritized_else_at_the_end", _view(mgr) == want)
        T.prove("C19.add.other_plugin_types_unchanged", all(_view(mgr, t) == v for t, v in before_other.items()))
        keys = [n for n, _ in _view(mgr)]
        T.prove("C19.invariant.keys_lower_case_and_distinct", all(k == k.lower() for k in keys) and len(set(keys)) == len(keys))
        T.prove("C19.add.no_plugin_is_consulted", log == [])
        return
    method = GET_ARGS[T.choose(len(GET_ARGS))]
    if kind == 1:
        try:
            got = mgr.get_plugin("optimizer", method)
            raised = False
        except ConfigError:
            got, raised = None, True
    else:
        sup = mgr.is_supported("optimizer", method)
        raised, got = (not sup), None
        T.prove("C19.is_supported.returns_a_bool", sup is True or sup is False)
    T.prove("C19.lookup.registry_not_modified", _view(mgr) == before and all(_view(mgr, t) == v for t, v in before_other.items()))
    T.prove("C19.lookup.plugins_of_other_types_never_consulted", all(ident != "other" for ident, _ in log))
    parts = method.split("/", 1)
    if len(parts) > 1:
        pname, mname = parts[0].lower(), parts[1]
        target = dict(before).get(pname)
        # only the named plug-in is consulted, with exactly the method part
        T.prove("C19.lookup.explicit_consults_only_the_named_plugin", all(ident == pname and m == mname for ident, m in log))
        if target is None:
            T.prove("C19.lookup.explicit_unknown_plugin_raises", raised)
            return
        ok = target.is_supported(mname)  # the same symbolic answer the manager got
        if raised:
            T.prove("C19.lookup.explicit_raises_only_if_unsupported", ~ok if T.symbolic else not ok)
        else:
            T.prove("C19.lookup.explicit_succeeds_only_if_supported", ok)
            if kind == 1:
                T.prove("C19.lookup.explicit_returns_the_named_plugin", got is target)
        return
    # bare method name: the first discoverable plug-in that supports it, in registration order
    first = None
    conds = []
    for n, p in before:
        c = p._disc & p.is_supported(method) if T.symbolic else (bool(p._disc) and bool(p.is_supported(method)))
        conds.append((p, c))
    if raised:
        T.prove("C19.lookup.bare_raises_only_if_no_discoverable_plugin_supports_it", T.all([(~c if T.symbolic else not c) for _, c in conds]))
    else:
        if kind == 1:
            idx = [p for p, _ in conds].index(got) if got in [p for p, _ in conds] else None
            T.prove("C19.lookup.bare_returns_a_registered_plugin", idx is not None)
            if idx is not None:
                T.prove("C19.lookup.bare_returns_the_first_discoverable_supporting_plugin", T.all([conds[idx][1]] + [(~c if T.symbolic else not c) for _, c in conds[:idx]]))
                T.prove("C19.lookup.never_returns_a_plugin_that_disallows_discovery", got._disc)
        else:
            T.prove("C19.is_supported.true_only_if_some_discoverable_plugin_supports_it", T.any([c for _, c in conds]))


# ------------------------------------------------------------------------------------ lookups depend on the registry only (no hidden state)
def cases_sequences(tier):
    for st in ([], ["a"], ["a", "b"]) + ((["b", "a"], ["a", "b", "d"], ["d", "b", "a"]) if tier == "thorough" else ()):
        for prio in (False, True):
            yield "state=%s/then-add-%s" % (",".join(st), "prioritized" if prio else "appended"), {"state": st, "prio": prio}
    # names on which str.lower and str.casefold (or other normalisations) differ: registration and lookup must normalise alike,
    # so a plug-in is always found under exactly the name it was registered with
    for name in ("ma\u00dfe", "\u0130b", "\ufb01x", "STRASSE"):
        yield "state=a/then-add-%s" % name.encode("ascii", "backslashreplace").decode(), {"state": ["a"], "prio": False, "name": name}


def _spec_lookup(T, view, method):
    """(found?, plug-in) for a bare method name on the abstract view, with the symbolic answers of the plug-ins."""
    out = []
    for n, p in view:
        c = (p._disc & p.is_supported(method)) if T.symbolic else (bool(p._disc) and bool(p.is_supported(method)))
        out.append((p, c))
    return out


def scn_sequences(T, case):
    """lookup, registration, lookup again, on the same manager object: the second lookup must be answered from the CURRENT registry
    (the inductive argument of the operations scenario presupposes that the registry is the manager's only state)."""
    from ropt.exceptions import ConfigError

    log = []
    mgr, plugs, other = _manager(T, case["state"], log)
    new = FakePlugin(T, "new", log)
    method = "m"

    def lookup():
        try:
            return mgr.get_plugin("optimizer", method), mgr.is_supported("optimizer", method)
        except ConfigError:
            return None, mgr.is_supported("optimizer", method)

    first, sup1 = lookup()
    regname = case.get("name", "New")
    mgr.add_plugin("optimizer", regname, new, prioritize=case["prio"])
    second, sup2 = lookup()
    explicit_ok = True
    try:
        got = mgr.get_plugin("optimizer", (regname.upper() if regname.isascii() else regname) + "/" + method)
    except ConfigError:
        got = None
    if not regname.isascii():
        try:
            got_lower = mgr.get_plugin("optimizer", regname.lower() + "/" + method)
        except ConfigError:
            got_lower = None
        T.prove("C19.sequence.lookup_under_the_registered_name_and_its_lower_case_agree", got_lower is got)
        try:
            mgr.add_plugin("optimizer", regname, FakePlugin(T, "again", log))
            dup_rejected = False
        except ConfigError:
            dup_rejected = True
        T.prove("C19.sequence.registering_the_same_name_again_is_rejected", dup_rejected)
    for tag, res, sup, view in (("before", first, sup1, [(n, plugs[n]) for n in case["state"]]),
                               ("after", second, sup2, ([("new", new)] + [(n, plugs[n]) for n in case["state"]]) if case["prio"] else ([(n, plugs[n]) for n in case["state"]] + [("new", new)]))):
        conds = _spec_lookup(T, view, method)
        T.prove("C19.sequence.is_supported_agrees_with_lookup", sup == (res is not None))
        if res is None:
            T.prove("C19.sequence.lookup_%s_registration_fails_only_if_nothing_qualifies" % tag, T.all([(~c if T.symbolic else not c) for _, c in conds] or [True]))
        else:
            idx = [p for p, _ in conds].index(res) if res in [p for p, _ in conds] else None
            T.prove("C19.sequence.lookup_%s_registration_returns_a_registered_plugin" % tag, idx is not None)
            if idx is not None:
                T.prove("C19.sequence.lookup_%s_registration_returns_the_first_qualifying_plugin_of_the_current_registry" % tag,
                        T.all([conds[idx][1]] + [(~c if T.symbolic else not c) for _, c in conds[:idx]]))
    if got is None:
        T.prove("C19.sequence.explicit_lookup_of_the_new_plugin_fails_only_if_unsupported", ~new.is_supported(method) if T.symbolic else not new.is_supported(method))
    else:
        T.prove("C19.sequence.explicit_lookup_finds_the_new_plugin_ignoring_case", got is new)


# ------------------------------------------------------------------------------------ construction / isolation / built-ins
def cases_isolation(tier):
    yield "two-managers", {}


def scn_isolation(T, case):
    from ropt.exceptions import ConfigError

    log = []
    shared = {t: {} for t in ("optimizer", "sampler", "realization_filter", "function_estimator", "plan_handler", "plan_step")}
    shared["optimizer"] = {"P1": FakePlugin(T, "p1", log), "p2": FakePlugin(T, "p2", log)}
    calls = []

    def from_entry_points(plugin_type):
        calls.append(plugin_type)
        return shared[plugin_type]  # the cached dict: the same object for every manager

    if T.symbolic:
        sh = T.shadow([M], stubs={(M, "_from_entry_points"): from_entry_points})
        cls = T.under_contract(sh, M, "PluginManager")
        T.under_contract(sh, M, "PluginManager.__init__")
        restore = None
    else:
        import ropt.plugins._manager as real

        restore = (real, real._from_entry_points)
        real._from_entry_points = from_entry_points
        cls = real.PluginManager
    try:
        m1, m2 = cls(), cls()
    finally:
        if restore:
            restore[0]._from_entry_points = restore[1]
    T.prove("C19.init.entry_point_plugins_registered_lower_case_in_order", [n for n, _ in m1.plugins("optimizer")] == ["p1", "p2"])
    before2 = {t: list(m2.plugins(t)) for t in ALL_TYPES}
    extra = FakePlugin(T, "extra", log)
    m1.add_plugin("optimizer", "Extra", extra, prioritize=True)
    m1.add_plugin("sampler", "s", extra)
    T.prove("C19.isolation.registration_on_one_manager_does_not_affect_another", {t: list(m2.plugins(t)) for t in ALL_TYPES} == before2)
    T.prove("C19.isolation.cached_entry_point_table_not_modified", list(shared["optimizer"]) == ["P1", "p2"] and shared["sampler"] == {})
    try:
        m2.add_plugin("optimizer", "EXTRA", extra)
        ok = True
    except ConfigError:
        ok = False
    T.prove("C19.isolation.name_taken_on_one_manager_is_free_on_another", ok)
    # two managers alive at the same time with different registries, queried alternately with no registration in between: every
    # answer is the manager's own (is_supported agrees with that manager's lookup), in both orders
    only1 = FakePlugin(T, "only1", log)
    m1.add_plugin("optimizer", "only1", only1)
    for order in ((m1, m2), (m2, m1)):
        for mgr in order:
            for method in ("only1/alpha", "gamma"):
                sup = mgr.is_supported("optimizer", method)
                try:
                    mgr.get_plugin("optimizer", method)
                    found = True
                except ConfigError:
                    found = False
                T.prove("C19.isolation.is_supported_is_the_managers_own_lookup_whatever_other_managers_were_asked", bool(sup) == found, "%s on %s" % (method, "m1" if mgr is m1 else "m2"))
    # discovery flags of the built-in plug-ins
    from ropt.plugins.base import Plugin
    from ropt.plugins.optimizer.external import ExternalOptimizerPlugin

    T.prove("C19.external_optimizer_disallows_discovery", ExternalOptimizerPlugin().allows_discovery is False)
    T.prove("C19.plugins_allow_discovery_by_default", Plugin.allows_discovery.fget(object()) is True)


# ------------------------------------------------------------------------------------ a plug-in manager per context (shared contract)
def cases_context(tier):
    from contracts import ctxcontract

    return ctxcontract.cases(tier)


def scn_context(T, case):
    from contracts import ctxcontract

    ctxcontract.scenario(T, case, "C19")


SCENARIOS = [
    Scenario("operations_from_every_state", scn_ops, cases_ops, {"quick": 40, "thorough": 400}),
    Scenario("lookup_registration_lookup", scn_sequences, cases_sequences, {"quick": 20, "thorough": 100}),
    Scenario("construction_and_isolation", scn_isolation, cases_isolation, {"quick": 2, "thorough": 5}),
    Scenario("plugin_manager_per_context", scn_context, cases_context, {"quick": 1, "thorough": 1}),
]

MANIFEST = {
    "category": "other",
    "text": "Inductive invariant + per-operation post-conditions of the real PluginManager code, checked from every registry state of up to 3 plug-ins for every operation/argument of a "
            "finite alphabet, with the plug-ins' is_supported / allows_discovery answers symbolic (z3 decides every support relation at once); holds for histories of any length by "
            "induction, but is bounded in the name alphabet and registry size because strings are concrete in the engine.",
    "note": "strings concrete (finite alphabet of names/methods incl. case variants, slashes, unknown plug-ins); registries <= 3 (thorough: 4) plug-ins; _from_entry_points stubbed (importlib.metadata not under contract)",
    "technique": "contract-based verification of the real source: representation invariant + per-operation post-conditions by symbolic execution (symbolic plug-in answers) with z3, exhaustive over bounded states/arguments",
}
