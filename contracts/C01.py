"""C01 - ensemble function values are the normalised weighted estimate over realizations.

Top-level contract on EnsembleEvaluator.calculate(compute_functions=True) with the whole chain under it taken from
the real source (see contracts/harness.py: UNDER_CONTRACT); filters are abstract (interface contract), the default
function estimator is under contract.
"""
from __future__ import annotations

import itertools

import numpy as np

from contracts import harness as H
from roptvc.driver import Scenario

LEVEL = "proof"
EXPLANATION = (
    "Post-condition from the statement, on the FunctionResults returned by the real EnsembleEvaluator.calculate: for every batch row b, objective/constraint j "
    "equals EST_{emap[j]}(values of rows [bR,(b+1)R) of the evaluator output, renorm(zero_failed(in_force(j)))) with in_force(j) the weights returned by the "
    "filter mapped to j or the configured weights, est_mean = sum nz(f_r) w_r, est_stddev = sqrt(n/(n-1) sum w_r (nz(f_r)-mean)^2), n = #{w_r>0}; weighted objective = "
    "sum_j ow_j objective_j; functions are None iff fewer than realization_min_success realizations succeeded; reported weight rows are None or in_force(j). "
    "Proved by z3 for all real evaluator outputs, weights and filter outputs, for every enumerated shape (R<=3, J<=2, K<=1, batch<=2), failure mask, estimator map and filter map."
)
ASSUMPTIONS = [
    "validated-configuration invariant as pre-condition: realization weights >= 0 and objective weights as given (normalisation itself is C18)",
    "RealizationFilter interface contract: returns some non-negative (R,) vector; FunctionEstimator other than the default not covered",
    "value clauses are required only where some realization with positive in-force weight succeeds (as in the quantifier)",
    "sqrt is an uninterpreted function with s >= 0 and s*s = x",
    "bounded in shape only: R <= 3 (4 in the thorough tier), J <= 2, K <= 1, batch <= 2 (3); plus J = K = 3 with interleaved maps for given weights",
]

ME = "ropt.ensemble_evaluator._ensemble_evaluator"


# ------------------------------------------------------------------------------------- specification
def spec_estimate(T, method, f, w):
    """f: list of finite-or-NaN values (NaN only where w is 0), w: normalised weights."""
    nz = [T.np.nan_to_num(x) for x in f]
    mean = T.total([nz[r] * w[r] for r in range(len(w))])
    if method == "mean":
        return mean
    n = T.count([w[r] > 0 for r in range(len(w))])
    var = T.total([w[r] * (nz[r] - mean) * (nz[r] - mean) for r in range(len(w))])
    return T.np.sqrt((n / (n - 1)) * var) if T.symbolic else float(np.sqrt(n / (n - 1) * var))


def in_force(case, j, kind, cfgw, W):
    fmap = case["omap_flt"] if kind == "o" else case["cmap_flt"]
    f = -1 if fmap is None else fmap[j]
    return W[f] if f >= 0 else cfgw


def cases_functions(tier):
    quick = tier == "quick"
    # (R, J, K, B)
    shapes = [(2, 1, 0, 1), (2, 2, 1, 1), (3, 1, 0, 1), (2, 1, 1, 2)] if quick else [(1, 1, 0, 1), (2, 1, 0, 1), (2, 2, 1, 1), (3, 1, 0, 1), (3, 2, 1, 1), (2, 1, 1, 2), (2, 2, 0, 2), (4, 1, 0, 1), (4, 2, 1, 1), (3, 2, 1, 2), (2, 1, 0, 3)]
    for (R, J, K, B) in shapes:
        masks = [list(m) for m in itertools.product((False, True), repeat=R)]
        if quick and R == 3:
            masks = [[False] * 3, [False, True, False], [True, True, False], [True] * 3]
        for mask in masks:
            # stddev with *symbolic* weights is kept to R <= 2 (the non-linear obligations go 'unknown' beyond); larger
            # ensembles with the stddev estimator are covered by the given-weights scenario below
            for est in (["mean"], ["mean", "stddev"]) if R <= 2 and ((quick and (J + K) > 1) or not quick) else (["mean"],):
                emaps = [None] if len(est) == 1 else ([[1] * J] if J == 1 else [[0, 1], [1, 0]])
                for emap in emaps:
                    fmaps = [(None, None)]
                    if J == 2:
                        fmaps += [([0, -1], None if not K else [-1]), ([1, 0], None if not K else [0])]
                    elif K:
                        fmaps += [([0], [-1]), ([-1], [0])]
                    else:
                        # ([1], None): the filter configured first is used by no function (objects are looked up by configured index)
                        fmaps += [([0], None), ([1], None)]
                    for omf, cmf in fmaps:
                        for ms in (((0, 1) if all(mask) else (1,)) if quick else (0, 1, R)):
                            c = {"R": R, "J": J, "K": K, "B": B, "failed": mask, "est": est, "omap_est": emap, "cmap_est": None if not K or len(est) == 1 else [1] * K,
                                 "omap_flt": omf, "cmap_flt": cmf, "min_success": ms}
                            cid = "R%dJ%dK%dB%d/%s/est=%s%s/flt=%s,%s/min=%d" % (R, J, K, B, "".join("F" if f else "o" for f in mask), "+".join(est), emap, omf, cmf, ms)
                            yield cid, c
                            if K and any(mask) and (not quick or (omf, cmf) == fmaps[0]):
                                # the failure shows up in a constraint column only (all objectives of that realization are finite)
                                yield cid + "/nan-in-constraint-only", dict(c, fail_in="constraint")


def cases_stddev(tier):
    """stddev estimator with given (concrete) configured weights, incl. zero entries: symbolic values only, which keeps the
    non-linear obligations small enough to be refuted, not only proved."""
    for R, wts in ((3, [0.5, 0.5, 0.0]), (3, [0.2, 0.3, 0.5]), (2, [0.25, 0.75])) + (() if tier == "quick" else ((4, [0.25, 0.25, 0.0, 0.5]), (3, [1.0, 1.0, 1.0]))):
        masks = [m for m in ([list(x) for x in itertools.product((False, True), repeat=R)]) if sum(m) <= 1]
        for mask in masks:
            for flt in (None, [0]):
                yield "R%d/w=%s/%s/flt=%s" % (R, wts, "".join("F" if f else "o" for f in mask), flt), {
                    "R": R, "J": 1, "K": 0, "B": 1, "failed": mask, "est": ["stddev"], "omap_est": None, "cmap_est": None, "omap_flt": flt, "cmap_flt": None,
                    "min_success": 1, "cw": wts}
    # the same evaluator (and estimator object) has already evaluated another point with another failure pattern: nothing of
    # that evaluation may survive into this one
    for R, wts, prior, mask in ((3, [0.2, 0.3, 0.5], [False, False, False], [False, True, False]), (3, [0.2, 0.3, 0.5], [True, False, False], [False, False, False]),
                                (4, [0.25, 0.25, 0.0, 0.5], [False, False, False, False], [False, True, False, False])):
        if tier == "quick" and R == 4:
            continue
        for flt in (None, [0]):
            yield "R%d/w=%s/%s/flt=%s/after-%s" % (R, wts, "".join("F" if f else "o" for f in mask), flt, "".join("F" if f else "o" for f in prior)), {
                "R": R, "J": 1, "K": 0, "B": 1, "failed": mask, "est": ["stddev"], "omap_est": None, "cmap_est": None, "omap_flt": flt, "cmap_flt": None,
                "min_success": 1, "cw": wts, "prior_failed": prior}


def cases_wide(tier):
    """Three functions of a kind, with estimator and filter maps that are interleaved or have gaps (functions of one estimator or
    filter not adjacent; an estimator or filter used by no function of a kind; unfiltered functions between filtered ones)."""
    for mask in ([False, False, False], [False, True, False]):
        m = "".join("F" if f else "o" for f in mask)
        for omf, cmf in (([0, -1, 0], [-1, 1, -1]), ([1, -1, 1], [0, -1, -1]), ([-1, 0, 1], [1, 1, 0])):
            yield "R3J3K3/%s/est=mean/flt=%s,%s/given-weights" % (m, omf, cmf), {"R": 3, "J": 3, "K": 3, "B": 1, "failed": mask, "est": ["mean"], "omap_est": None, "cmap_est": None,
                                                               "omap_flt": omf, "cmap_flt": cmf, "min_success": 1, "cw": [0.2, 0.3, 0.5]}
        for est, ome, cme in ((["mean", "stddev"], [1, 0, 1], [0, 1, 0]), (["mean", "mean", "stddev"], [0, 2, 2], [1, 1, 2]), (["stddev", "mean", "mean"], [2, 0, 2], [0, 0, 1])):
            yield "R3J3K3/%s/est=%s,%s,%s/given-weights" % (m, "+".join(est), ome, cme), {"R": 3, "J": 3, "K": 3, "B": 1, "failed": mask, "est": est, "omap_est": ome, "cmap_est": cme,
                                                                                  "omap_flt": None, "cmap_flt": None, "min_success": 1, "cw": [0.2, 0.3, 0.5]}
    yield "R3J3K3/ooo/est=mean+stddev,[1, 0, 1],[0, 1, 0]/flt=[0, -1, 0],[-1, 1, -1]/given-weights", {
        "R": 3, "J": 3, "K": 3, "B": 1, "failed": [False] * 3, "est": ["mean", "stddev"], "omap_est": [1, 0, 1], "cmap_est": [0, 1, 0], "omap_flt": [0, -1, 0], "cmap_flt": [-1, 1, -1],
        "min_success": 1, "cw": [0.2, 0.3, 0.5]}


def scn_functions(T, case):
    from ropt.exceptions import OptimizationAborted

    R, J, K, B = case["R"], case["J"], case["K"], case["B"]
    N = 2
    ch = H.Chain(T)
    failed = case["failed"]
    F = 2
    if case.get("cw") is not None:
        cfgw = T.const(np.array(case["cw"], dtype=float))
        W = [T.const(np.roll(np.array(case["cw"], dtype=float), f + 1)) for f in range(F)]
    else:
        cfgw = T.real("weights", (R,), lo=0.0)
        W = [T.real("W%d" % f, (R,), lo=0.0) for f in range(F)]
    ow = T.real("objective_weights", (J,))
    nanrow = np.array(failed, dtype=bool)
    # the evaluator's table: batch row b, realization r.  Batch row 0 carries the failure mask, further rows succeed.
    in_constraint = case.get("fail_in") == "constraint"
    O = [T.real("O%d" % b, (R, J), nan=np.repeat(nanrow[:, None], J, axis=1) if b == 0 and not in_constraint else None) for b in range(B)]
    cnan = np.zeros((R, K), dtype=bool)
    if K and in_constraint:
        cnan[:, K - 1] = nanrow  # NaN in the last constraint column only
    C = [T.real("C%d" % b, (R, K), nan=cnan if b == 0 and in_constraint else None) for b in range(B)] if K else None
    cfg = H.make_config(T, R, J, K, N, weights=cfgw, ow=ow, omap_est=case["omap_est"], cmap_est=case["cmap_est"], omap_flt=case["omap_flt"],
                        cmap_flt=case["cmap_flt"], min_success=case["min_success"])
    sev = H.ScriptedEvaluator(T, ch, lambda v, r, p, k: O[k // R][r], (lambda v, r, p, k: C[k // R][r]) if K else None)
    filters = [H.AbstractFilter(W[f]) for f in range(F)]
    ests = [H.estimator(ch, m) for m in case["est"]]
    ev = H.make_evaluator(T, ch, cfg, sev, filters=filters, estimators=ests)
    x = T.real("x", (N,) if B == 1 else (B, N))
    try:
        if case.get("prior_failed") is not None:
            pnan = np.array(case["prior_failed"], dtype=bool)
            keep, O[0] = O[0], T.real("O_prior", (R, J), nan=np.repeat(pnan[:, None], J, axis=1))
            ev.calculate(T.real("x_prior", (N,)), compute_functions=True, compute_gradients=False)
            O[0] = keep
        results = ev.calculate(x, compute_functions=True, compute_gradients=False)
    except OptimizationAborted:
        # only the stddev estimator may abort: fewer than two realizations with non-zero normalised weight
        T.prove("C01.abort_only_from_stddev_estimator", "stddev" in case["est"])
        return
    T.prove("C01.one_result_per_batch_row", len(results) == B)
    for b in range(B):
        res = results[b]
        fl = failed if b == 0 else [False] * R
        nok = R - sum(fl)
        T.prove("C01.failed_flags", list(bool(v) for v in res.realizations.failed_realizations) == fl)
        if nok < case["min_success"]:
            T.prove("C01.no_functions_below_min_success", res.functions is None)
            continue
        T.prove("C01.functions_present_at_min_success", res.functions is not None)
        if res.functions is None:
            continue
        if nok == 0:
            T.prove("C01.all_failed_gives_nan", T.all([T.np.isnan(res.functions.objectives[j]) for j in range(J)]) & T.np.isnan(res.functions.weighted_objective))
            if K:
                T.prove("C01.all_failed_gives_nan", T.all([T.np.isnan(res.functions.constraints[j]) for j in range(K)]), "constraints")
            continue
        objs = []
        for kind, cnt, table, emap, reported, wrows in (("o", J, O, case["omap_est"], res.functions.objectives, res.realizations.objective_weights),
                                                        ("c", K, C, case["cmap_est"], res.functions.constraints, res.realizations.constraint_weights)):
            for j in range(cnt):
                wf = in_force(case, j, kind, cfgw, W)
                if wrows is not None:
                    T.prove("C01.reported_weight_rows_are_the_weights_in_force", T.same(wrows[j, :], wf))
                z = [wf[r] if not fl[r] else 0.0 * wf[r] for r in range(R)]
                tot = T.total(z)
                wn = [zr / tot for zr in z]
                method = case["est"][0 if emap is None else emap[j]]
                vals = [table[b][r, j] for r in range(R)]
                # the value clause applies when some realization with positive weight succeeds (and the stddev estimator has >= 2 of them)
                pre = tot > 0
                if method == "stddev":
                    pre = pre & (T.count([z[r] > 0 for r in range(R)]) >= 2)
                want = spec_estimate(T, method, vals, wn)
                T.prove("C01.%s_value_is_estimator_of_renormalised_weights[%s]" % ("objective" if kind == "o" else "constraint", method), T.implies(pre, T.same(reported[j], want)))
                if kind == "o":
                    objs.append((pre, want))
        allpre = T.all([p for p, _ in objs])
        T.prove("C01.weighted_objective_is_weighted_sum", T.implies(allpre, T.same(res.functions.weighted_objective, T.total([ow[j] * res.functions.objectives[j] for j in range(J)]))))
        # reported per-realization values: the evaluator's rows, a failed realization NaN in every column
        T.prove("C01.evaluations_are_the_evaluator_rows_with_failed_realizations_all_nan",
                T.all([T.same(res.evaluations.objectives[r, :], O[b][r, :]) if not fl[r] else T.all([T.np.isnan(res.evaluations.objectives[r, j]) for j in range(J)]) for r in range(R)]))


# ------------------------------------------------------------------------------------ user-domain results (shared contract)
def cases_user_results(tier):
    from contracts import backtransform

    return backtransform.cases(tier)


def scn_user_results(T, case):
    from contracts import backtransform

    backtransform.scenario(T, case, "C01")


# ------------------------------------------------------------------------------------ what the plan steps hand on (shared contract)
def cases_steps(tier):
    from contracts import stepcontract

    return stepcontract.cases(tier)


def scn_steps(T, case):
    from contracts import stepcontract

    stepcontract.scenario(T, case, "C01")


# ------------------------------------------------------------------------------------ filters on some functions + failed realizations, one request or two
def cases_filters_and_failures(tier):
    from contracts import C02

    # every weight-row case: the function VALUES of objectives and constraints use the weights in force for that function, with
    # a filter map on the objectives only, on the constraints only, on both, and with failed realizations
    yield from C02.cases_rows(tier)


def scn_filters_and_failures(T, case):
    """Function values when realization filters (on some functions only), failed realizations and a combined or split function/gradient request come together: a realization that failed only through its perturbations still counts for the function estimate, one whose function evaluation failed counts for nothing - whatever weight a filter or the configuration gives it (C02's weight-row scenario under this property's prefix)."""
    from contracts import C02
    from contracts.reuse import Renamed

    C02.scn_rows(Renamed(T, "C02.rows.", "C01.combined."), case)


# ------------------------------------------------------------------------------------ the validated estimator / filter maps have one index per function
def cases_index_maps(tier):
    from contracts import C18

    for cid, c in C18.cases_validators(tier):
        if c.get("v") == "index-maps":
            yield cid, c


def scn_index_maps(T, case):
    """'Each value uses its configured estimator / the weights of the filter mapped to it' presupposes a validated configuration whose
    maps have one index per function: a map given once is broadcast, never applied to the first function only (C18's validator
    scenario under this property's prefix)."""
    from contracts import C18
    from contracts.reuse import Renamed

    C18.scn_validators(Renamed(T, "C18.", "C01.config."), case)


# ------------------------------------------------------------------------------------ which filter's weights reach which function
def cases_filter_rows(tier):
    from contracts import C05

    return C05.cases_rows(tier)


def scn_filter_rows(T, case):
    """'Each function uses the weights of the filter mapped to it': every combination of present / absent objective and constraint
    maps, unfiltered entries next to filtered ones, two filters (C05's row-mapping scenario under this property's prefix)."""
    from contracts import C05
    from contracts.reuse import Renamed

    C05.scn_rows(Renamed(T, "C05.rows.", "C01.rows."), case)


# ------------------------------------------------------------------------------------ batches: every vector is evaluated for every realization
def cases_batch_layout(tier):
    from contracts import C07

    return C07.cases_batch(tier)


def scn_batch_layout(T, case):
    """'The batch layout does not influence the numbers': the value reported for a vector of a batch is the estimate over the evaluator's
    values AT THAT VECTOR - every realization is evaluated at every vector and the rows are labelled as such (C07's scenario with
    realization-dependent functions of the vector, under this property's prefix)."""
    from contracts import C07
    from contracts.reuse import Renamed

    C07.scn_batch(Renamed(T, "C07.batch.", "C01.batch."), case)

SCENARIOS = [
    Scenario("calculate_functions", scn_functions, cases_functions, {"quick": 2, "thorough": 10}),
    Scenario("calculate_functions_stddev_given_weights", scn_functions, cases_stddev, {"quick": 5, "thorough": 20}),
    Scenario("calculate_functions_three_of_a_kind_interleaved_maps", scn_functions, cases_wide, {"quick": 3, "thorough": 10}),
    Scenario("user_domain_results", scn_user_results, cases_user_results, {"quick": 3, "thorough": 20}),
    Scenario("plan_steps_hand_over", scn_steps, cases_steps, {"quick": 1, "thorough": 2}),
    Scenario("filters_failures_and_combined_requests", scn_filters_and_failures, cases_filters_and_failures, {"quick": 5, "thorough": 30}),
    Scenario("validated_estimator_and_filter_maps", scn_index_maps, cases_index_maps, {"quick": 2, "thorough": 10}),
    Scenario("filter_rows", scn_filter_rows, cases_filter_rows, {"quick": 3, "thorough": 20}),
    Scenario("batch_rows_are_evaluated_at_their_own_vector", scn_batch_layout, cases_batch_layout, {"quick": 3, "thorough": 20}),
]

MANIFEST = {
    "category": "proof",
    "text": "Deductive: the post-condition of C01 on the FunctionResults returned by the real EnsembleEvaluator.calculate (whole call chain from the real source: "
            "request building, NaN propagation, failure flags, min-success gate, filter row mapping, weight zeroing/renormalisation, default mean/stddev estimators, "
            "weighted objective) discharged by z3 for all real evaluator outputs, weights and filter outputs; complete per enumerated shape (R<=3, J<=2, K<=1, batch<=2), "
            "failure mask, estimator map and filter-index map.",
    "note": "floats as extended reals (no rounding); sqrt uninterpreted; realization filters abstract (their own contracts are C04/C05); bounded in shape only (three functions of a kind with interleaved estimator/filter maps: given weights)",
    "technique": "contract-based deductive verification: symbolic execution of the real source under sidecar contracts, VCs discharged by z3/cvc5; bounded run-time contract checking as stand-in",
}
