"""Re-use of a scenario of one property as an obligation of another: the same scenario text, obligation names under the other prefix.

Where property X rests on a contract that property Y owns (a validated-configuration clause, a converter, a step), X's check carries
Y's scenario under its own prefix, so that a change breaking that contract is reported by the check of every property that depends on it."""
from __future__ import annotations


class Renamed:
    def __init__(self, T, old, new):
        object.__setattr__(self, "_T", T)
        object.__setattr__(self, "_old", old)
        object.__setattr__(self, "_new", new)

    def _name(self, name):
        return self._new + name[len(self._old):] if name.startswith(self._old) else name

    def prove(self, name, cond, detail=""):
        self._T.prove(self._name(name), cond, detail)

    def fail(self, name, detail=""):
        self._T.fail(self._name(name), detail)

    def cover(self, name):
        self._T.cover(self._name(name))

    def __getattr__(self, attr):
        return getattr(self._T, attr)

    def __setattr__(self, attr, value):
        setattr(self._T, attr, value)
