"""C03 - failed realizations and perturbations are excluded exactly as if absent.

Functions under contract: _propagate_nan_values, _get_failed_realizations, the realization_min_success gates of
EnsembleEvaluator (through calculate), the weight zeroing/renormalisation of _function/_gradient, and
EnsembleOptimizer._run_evaluations.
"""
from __future__ import annotations

import itertools
import types

import numpy as np

from contracts import harness as H
from roptvc.driver import Scenario

LEVEL = "proof"
MR = "ropt.ensemble_evaluator._evaluator_results"
MU = "ropt.ensemble_evaluator._utils"
MO = "ropt.optimization._optimizer"
MG = "ropt.ensemble_evaluator._gradient"
EXPLANATION = (
    "(1) Failure flags: for symbolic NaN patterns (every pattern at once per shape) the propagated arrays have row r all-NaN iff some objective or constraint entry of row r "
    "is NaN, rows without NaN are unchanged, and failed[r] <=> NaN-row(r) or (perturbations given and #successful perturbations < perturbation_min_success). "
    "(2) Reduced-ensemble equivalence (relational, two runs of the real calculate): the functions and gradients reported for an ensemble with failed realizations equal those "
    "reported for the ensemble with these realizations deleted; likewise for a perturbation that failed in every realization; functions/gradients are None iff fewer than "
    "realization_min_success realizations succeed. (3) _run_evaluations raises TOO_FEW_REALIZATIONS iff some result lacks its functions/gradients (or all failed with min_success < 1 "
    "and a NaN-intolerant optimizer), after having signalled the results. All for symbolic values; shapes R <= 3, P <= 2..3 enumerated with every failure mask."
)
ASSUMPTIONS = [
    "the least-squares solve is an (uninterpreted) function of the surviving rows of its system (contract stub; C02)",
    "sampler interface contract; floats as reals; bounded in shape only",
    "value clauses apply when some realization with positive weight succeeds (quantifier of C03)",
]


# ------------------------------------------------------------------------------------ flags
def cases_flags(tier):
    for R, J, K in ((1, 1, 0), (2, 1, 1), (2, 2, 0), (3, 1, 1)) if tier == "quick" else ((1, 1, 0), (2, 1, 1), (2, 2, 0), (3, 1, 1), (3, 2, 2), (2, 2, 1)):
        yield "propagate/R%dJ%dK%d" % (R, J, K), {"what": "propagate", "R": R, "J": J, "K": K}
    # infinite values are values, not failures: a realization with +inf in one column and -inf in another has not failed
    yield "propagate/R2J2K2/opposite-infinities-in-one-row", {"what": "propagate", "R": 2, "J": 2, "K": 2, "inf": True}
    yield "propagate/R2J2K0/opposite-infinities-in-one-row", {"what": "propagate", "R": 2, "J": 2, "K": 0, "inf": True}
    for R, P in ((1, 1), (2, 2), (3, 2)) if tier == "quick" else ((1, 1), (2, 2), (3, 2), (2, 3)):
        for pms in range(1, P + 1):
            yield "failed/R%dP%d/min=%d" % (R, P, pms), {"what": "failed", "R": R, "P": P, "pms": pms}
        yield "failed/R%dP%d/functions-only" % (R, P), {"what": "failed", "R": R, "P": None, "pms": 1}


def scn_flags(T, case):
    R = case["R"]
    if case["what"] == "propagate":
        f = T.func(MR, "_propagate_nan_values")
        J, K = case["J"], case["K"]
        okinds = ckinds = None
        if case.get("inf"):
            okinds = np.array([["+inf", "-inf"]] + [["fin"] * J] * (R - 1), dtype=object)
            ckinds = np.array([["-inf", "+inf"]] + [["fin"] * K] * (R - 1), dtype=object) if K else None
        O = T.real("objectives", (R, J), nan="sym", kinds=okinds)
        C = T.real("constraints", (R, K), nan="sym", kinds=ckinds) if K else None
        O0, C0 = O.copy(), None if C is None else C.copy()
        PO, PC = f(O, C)
        T.prove("C03.propagate.arguments_not_modified", T.same(O, O0) & (T.same(C, C0) if K else True))
        for r in range(R):
            row_nan = T.any([T.np.isnan(O0[r, j]) for j in range(J)] + ([T.np.isnan(C0[r, k]) for k in range(K)] if K else []))
            allnan = T.all([T.np.isnan(PO[r, j]) for j in range(J)] + ([T.np.isnan(PC[r, k]) for k in range(K)] if K else []))
            same = T.same(PO[r, :], O0[r, :]) & (T.same(PC[r, :], C0[r, :]) if K else True)
            T.prove("C03.propagate.row_all_nan_iff_any_value_of_the_row_is_nan", T.implies(row_nan, allnan))
            T.prove("C03.propagate.rows_without_nan_unchanged", T.implies(~row_nan if T.symbolic else not row_nan, same))
        return
    f = T.func(MU, "_get_failed_realizations")
    P, pms = case["P"], case["pms"]
    O = T.real("objectives", (R, 1), nan="sym")
    PO = T.real("perturbed_objectives", (R, P, 1), nan="sym") if P else None
    got = f(O, PO, pms)
    T.prove("C03.failed.shape", tuple(got.shape) == (R,))
    for r in range(R):
        want = T.np.isnan(O[r, 0])
        if P:
            want = want | (T.count([~T.np.isnan(PO[r, p, 0]) if T.symbolic else not np.isnan(PO[r, p, 0]) for p in range(P)]) < pms)
        T.prove("C03.failed.flag_iff_nan_or_too_few_successful_perturbations", T.all([T.implies(want, got[r]), T.implies(got[r], want)]))


# ------------------------------------------------------------------------------------ reduced-ensemble equivalence
def cases_equiv(tier):
    quick = tier == "quick"
    shapes = [(2, 1), (3, 1), (3, 2)] if quick else [(2, 1), (3, 1), (3, 2), (2, 2), (3, 3)]
    for R, P in shapes:
        masks = [list(m) for m in itertools.product((False, True), repeat=R) if any(m)]
        for fr in masks:
            for est in ("mean", "stddev"):
                if est == "stddev" and (R - sum(fr) < 2 or (quick and R > 3)):
                    continue
                for grad in (False, True):
                    if grad and est == "stddev" and P > 1:
                        continue
                    for ms in (1, R) if quick else (0, 1, 2, R):
                        if ms > R:
                            continue
                        c = {"R": R, "P": P, "failed": fr, "est": est, "grad": grad, "min_success": ms, "pfail": None}
                        if est == "stddev":
                            # stddev: given weights (symbolic weights make the non-linear obligations 'unknown'); with gradients: native only
                            c["cw"] = [0.2, 0.3, 0.5, 0.4][:R]
                            if grad:
                                c["__concrete_only__"] = True
                        yield "R%dP%d/%s/%s/%s/min=%d" % (R, P, "".join("F" if f else "o" for f in fr), est, "functions+gradients" if grad else "functions", ms), c
    # a perturbation that fails in every realization is as if it had not been made
    for R, P, k in ((2, 2, 0), (2, 2, 1)) + (() if quick else ((2, 3, 1), (3, 2, 0))):
        yield "R%dP%d/perturbation-%d-failed-everywhere" % (R, P, k), {"R": R, "P": P, "failed": [False] * R, "est": "mean", "grad": True, "min_success": 1, "pfail": k}


def _run(T, ch, inv, R, P, N, J, weights, ow, O, PO, samples, est, grad, min_success, fr, pf):
    """One run of the real calculate on the ensemble (O: (R,J) values, PO: (R,P,J)); fr/pf: failure masks."""

    def fobj(v, r, p, k):
        if p is None or p < 0:
            return T.np.array([np.nan] * J) if fr[r] else O[r]
        return T.np.array([np.nan] * J) if pf[r][p] else PO[r, p]

    cfg = H.make_config(T, R, J, 0, N, weights=weights, ow=ow, P=P, min_success=min_success, pert_min_success=1, magnitudes=T.const(np.ones(N)))
    sev = H.ScriptedEvaluator(T, ch, fobj)
    ev = H.make_evaluator(T, ch, cfg, sev, estimators=[H.estimator(ch, est)], samplers=[H.FakeSampler(samples)])
    return ev.calculate(T.inputs["x"] if "x" in T.inputs else T.real("x", (N,)), compute_functions=True, compute_gradients=grad)


def scn_equiv(T, case):
    from ropt.exceptions import OptimizationAborted

    R, P, J, N = case["R"], case["P"], 1, 1
    fr = case["failed"]
    keep = [r for r in range(R) if not fr[r]]
    pk = case["pfail"]
    pkeep = [p for p in range(P) if p != pk]
    inv = H.InvertContract(T) if T.symbolic else None
    ch = H.Chain(T, stubs={(MG, "_invert_linear_equations"): inv} if T.symbolic else None)
    w = T.const(np.array(case["cw"], dtype=float)) if case.get("cw") else T.real("weights", (R,), lo=0.0)
    ow = T.const(np.array([1.0]))
    O = T.real("O", (R, J))
    PO = T.real("PO", (R, P, J))
    S = T.real("samples", (R, P, N))
    x = T.real("x", (N,))
    tot = T.total([w[r] for r in keep]) if keep else 0.0
    T.assume(tot > 0 if keep else True)
    pf_full = [[(p == pk) for p in range(P)] for _ in range(R)]
    try:
        full = _run(T, ch, inv, R, P, N, J, w, ow, O, PO, S, case["est"], case["grad"], case["min_success"], fr, pf_full)
    except OptimizationAborted:
        full = "aborted"
    nok = len(keep)
    if nok < case["min_success"]:
        T.prove("C03.gate.no_functions_below_realization_min_success", full != "aborted" and full[0].functions is None and (not case["grad"] or full[1].gradients is None))
        return
    if nok == 0:
        return
    # the same ensemble with the failed realizations (and the everywhere-failed perturbation) removed
    Rr, Pr = nok, len(pkeep)
    # ... and its weights renormalised: the reduced configuration is a validated one (weights sum to one), so that the comparison
    # does not rest on the code under test normalising both runs alike
    wr = T.np.array([w[r] / tot for r in keep])
    Or = T.np.array([[O[r, j] for j in range(J)] for r in keep])
    POr = T.np.array([[[PO[r, p, j] for j in range(J)] for p in pkeep] for r in keep])
    Sr = T.np.array([[[S[r, p, i] for i in range(N)] for p in pkeep] for r in keep])
    try:
        red = _run(T, ch, inv, Rr, Pr, N, J, wr, ow, Or, POr, Sr, case["est"], case["grad"], min(case["min_success"], Rr), [False] * Rr, [[False] * Pr for _ in range(Rr)])
    except OptimizationAborted:
        red = "aborted"
    T.prove("C03.equivalence.aborts_agree_with_the_reduced_ensemble", (full == "aborted") == (red == "aborted"))
    if full == "aborted" or red == "aborted":
        return
    T.prove("C03.failed_flags_reported", [bool(b) for b in full[0].realizations.failed_realizations] == fr)
    T.prove("C03.gate.functions_present_at_realization_min_success", full[0].functions is not None)
    if full[0].functions is None or red[0].functions is None:
        return
    T.prove("C03.equivalence.functions_equal_those_of_the_reduced_ensemble",
            T.same(full[0].functions.objectives, red[0].functions.objectives) & T.same(full[0].functions.weighted_objective, red[0].functions.weighted_objective))
    if case["grad"]:
        T.prove("C03.gate.gradients_present_at_realization_min_success", full[1].gradients is not None)
        if full[1].gradients is None or red[1].gradients is None:
            return
        T.prove("C03.equivalence.gradients_equal_those_of_the_reduced_ensemble",
                T.same(full[1].gradients.objectives, red[1].gradients.objectives) & T.same(full[1].gradients.weighted_objective, red[1].gradients.weighted_objective))


# ------------------------------------------------------------------------------------ realizations that fail only through their perturbations
def cases_pertfail(tier):
    # (R, P, perturbation_min_success, failure matrix)
    pats = [(2, 2, 2, [[True, False], [False, False]]), (3, 2, 2, [[False, False], [False, True], [False, False]]), (2, 2, 1, [[True, True], [False, False]])]
    if tier == "thorough":
        pats += [(3, 2, 1, [[True, True], [False, True], [False, False]]), (2, 3, 2, [[True, True, False], [False, True, False]])]
        # every failure matrix of a 2 x 2 ensemble, both thresholds
        import itertools as _it

        for bits in _it.product((False, True), repeat=4):
            pf = [list(bits[:2]), list(bits[2:])]
            for pms in (1, 2):
                if (2, 2, pms, pf) not in pats:
                    pats.append((2, 2, pms, pf))
    for R, P, pms, pf in pats:
        for merge in (False, True):
            for ms in (1, R):
                yield "R%dP%d/min_pert=%d/%s/%s/min=%d" % (R, P, pms, "|".join("".join("F" if f else "o" for f in row) for row in pf), "merged" if merge else "per-realization", ms), {
                    "R": R, "P": P, "pms": pms, "pf": pf, "merge": merge, "min_success": ms}
    # an estimator that needs two realizations (stddev): the realizations that count for the gradient are those left after the
    # perturbation failures - one left of two: the evaluation ends with TOO_FEW_REALIZATIONS; two left of three: it goes on
    for R, P, pms, pf in ((2, 2, 2, [[True, False], [False, False]]), (3, 2, 2, [[False, False], [False, True], [False, False]]), (2, 2, 1, [[False, False], [True, True]])):
        yield "R%dP%d/min_pert=%d/%s/per-realization/min=1/stddev" % (R, P, pms, "|".join("".join("F" if f else "o" for f in row) for row in pf)), {
            "R": R, "P": P, "pms": pms, "pf": pf, "merge": False, "min_success": 1, "est": "stddev"}


def scn_pertfail(T, case):
    """Combined function+gradient evaluation in which all unperturbed evaluations succeed: a realization with fewer than
    perturbation_min_success successful perturbations is failed for the gradient only, and its surviving perturbations are as if absent."""
    from ropt.exceptions import OptimizationAborted

    R, P, pms, pf, J, N = case["R"], case["P"], case["pms"], case["pf"], 1, 1
    inv = H.InvertContract(T) if T.symbolic else None
    ch = H.Chain(T, stubs={(MG, "_invert_linear_equations"): inv} if T.symbolic else None)
    # (the standard deviation with symbolic weights is non-linear arithmetic the solvers answer slowly: given weights there)
    w = T.const(np.array([0.5, 0.5] if R == 2 else [0.25, 0.5, 0.25])) if case.get("est") == "stddev" else T.real("weights", (R,), lo=0.001)
    O, PO, S, x = T.real("O", (R, J)), T.real("PO", (R, P, J)), T.real("samples", (R, P, N)), T.real("x", (N,))
    fail_g = [(P - sum(pf[r])) < pms for r in range(R)]
    keep = [r for r in range(R) if not fail_g[r]]

    def run(Rn, wv, Ov, POv, Sv, pfv, ms):
        def fobj(v, r, p, k):
            if p is None or p < 0:
                return Ov[r]
            return T.np.array([np.nan] * J) if pfv[r][p] else POv[r, p]

        cfg = H.make_config(T, Rn, J, 0, N, weights=wv, ow=T.const(np.array([1.0])), P=P, min_success=ms, pert_min_success=pms, magnitudes=T.const(np.ones(N)), merge=case["merge"])
        ev = H.make_evaluator(T, ch, cfg, H.ScriptedEvaluator(T, ch, fobj), estimators=[H.estimator(ch, case.get("est", "mean"), merge=case["merge"])], samplers=[H.FakeSampler(Sv)])
        return ev.calculate(x, compute_functions=True, compute_gradients=True)

    if case.get("est") == "stddev":
        from ropt.enums import OptimizerExitCode

        if T.symbolic:
            T.assume(T.all([(O[r, 0] - O[0, 0] > 1e-3) | (O[0, 0] - O[r, 0] > 1e-3) for r in range(1, R)]))
        try:
            fres, gres = run(R, w, O, PO, S, pf, case["min_success"])
            ended = None
        except OptimizationAborted as exc:
            ended = exc.exit_code
        if len(keep) < 2:
            T.prove("C03.pertfail.too_few_realizations_left_for_the_estimator_ends_the_evaluation", ended == OptimizerExitCode.TOO_FEW_REALIZATIONS)
        else:
            T.prove("C03.pertfail.enough_realizations_left_for_the_estimator_no_abort", ended is None)
            if ended is None:
                T.prove("C03.pertfail.realizations_with_too_few_successful_perturbations_are_failed_for_the_gradient", [bool(b) for b in gres.realizations.failed_realizations] == fail_g)
                T.prove("C03.pertfail.gradients_present_at_realization_min_success", gres.gradients is not None)
        return
    try:
        fres, gres = run(R, w, O, PO, S, pf, case["min_success"])
    except OptimizationAborted:
        T.fail("C03.pertfail.no_abort_expected")
        return
    T.prove("C03.pertfail.functions_unaffected_by_perturbation_failures", fres.functions is not None and [bool(b) for b in fres.realizations.failed_realizations] == [False] * R)
    T.prove("C03.pertfail.realizations_with_too_few_successful_perturbations_are_failed_for_the_gradient", [bool(b) for b in gres.realizations.failed_realizations] == fail_g)
    if len(keep) < case["min_success"]:
        T.prove("C03.pertfail.no_gradients_below_realization_min_success", gres.gradients is None)
        return
    T.prove("C03.pertfail.gradients_present_at_realization_min_success", gres.gradients is not None)
    if gres.gradients is None:
        return
    # the ensemble without those realizations
    Rr = len(keep)
    f2, g2 = run(Rr, T.np.array([w[r] for r in keep]), T.np.array([[O[r, 0]] for r in keep]), T.np.array([[[PO[r, p, 0]] for p in range(P)] for r in keep]),
                 T.np.array([[[S[r, p, 0]] for p in range(P)] for r in keep]), [pf[r] for r in keep], min(case["min_success"], Rr))
    if not T.symbolic:
        import contracts.C02 as C02

        pv = np.asarray(S)
        T.assume(all(C02.cond_ok(np.array([[pv[r, p, 0]] for p in range(P) if not pf[r][p]])) for r in keep))
    eq = (lambda a, b: T.same(a, b)) if T.symbolic else (lambda a, b: T.close(a, b, 1e-7))
    T.prove("C03.pertfail.gradients_equal_those_of_the_ensemble_without_the_failed_realizations", eq(gres.gradients.objectives, g2.gradients.objectives) & eq(gres.gradients.weighted_objective, g2.gradients.weighted_objective))


# ------------------------------------------------------------------------------------ gradient-only evaluation after a function evaluation
def cases_split(tier):
    for R, P in ((2, 2), (3, 1)) if tier == "quick" else ((2, 2), (3, 1), (2, 3), (3, 2)):
        for pms in range(1, P + 1):
            yield "R%dP%d/min_pert=%d" % (R, P, pms), {"R": R, "P": P, "pms": pms}
    # the NaN of a failed perturbation shows in ONE column only (the second objective, or the constraint): the perturbation has failed
    # all the same - in the gradient-only request exactly as in a combined one
    for nan_in in ("second-objective", "constraint"):
        for R, P, pms in ((2, 2, 2), (2, 2, 1)) if tier == "quick" else ((2, 2, 2), (2, 2, 1), (3, 1, 1), (2, 3, 2)):
            yield "R%dP%d/min_pert=%d/nan-in-the-%s-only" % (R, P, pms, nan_in), {"R": R, "P": P, "pms": pms, "nan_in": nan_in}


def scn_split(T, case):
    """calculate(functions) then calculate(gradients) at the same point: the perturbation failures are symbolic NaN flags."""
    from ropt.exceptions import OptimizationAborted

    R, P, pms, N = case["R"], case["P"], case["pms"], 1
    nan_in = case.get("nan_in")
    J, K = (2 if nan_in == "second-objective" else 1), (1 if nan_in == "constraint" else 0)
    inv = H.InvertContract(T) if T.symbolic else None
    ch = H.Chain(T, stubs={(MG, "_invert_linear_equations"): inv} if T.symbolic else None)
    w = T.real("weights", (R,), lo=0.0)
    O = T.real("O", (R, J + K))
    pfail = [[bool(T.choose(2)) for p in range(P)] for r in range(R)]
    PO = T.real("PO", (R, P, J + K))
    S = T.real("samples", (R, P, N))
    x = T.real("x", (N,))
    nan_col = {None: None, "second-objective": 1, "constraint": J}[nan_in]

    def fobj(v, r, p, k, lo=0, hi=J):
        if p is None or p < 0:
            return O[r, lo:hi]
        if not pfail[r][p]:
            return PO[r, p, lo:hi]
        return T.np.array([np.nan if nan_col is None or c == nan_col else PO[r, p, c] for c in range(lo, hi)])

    cfg = H.make_config(T, R, J, K, N, weights=w, ow=T.const(np.ones(J)), P=P, min_success=1, pert_min_success=pms, magnitudes=T.const(np.ones(N)))
    sev = H.ScriptedEvaluator(T, ch, fobj, (lambda v, r, p, k: fobj(v, r, p, k, J, J + K)) if K else None)
    ev = H.make_evaluator(T, ch, cfg, sev, samplers=[H.FakeSampler(S)])
    ev.calculate(x, compute_functions=True, compute_gradients=False)
    try:
        (gres,) = ev.calculate(x, compute_functions=False, compute_gradients=True)
    except OptimizationAborted:
        T.fail("C03.split.no_abort_expected")
        return
    want = [(P - sum(pfail[r])) < pms for r in range(R)]
    T.prove("C03.split.gradient_evaluation_reports_realizations_with_too_few_perturbations_as_failed", [bool(b) for b in gres.realizations.failed_realizations] == want)
    T.prove("C03.split.no_gradients_iff_no_realization_left", (gres.gradients is None) == (sum(want) == R))
    if nan_in:
        E = gres.evaluations
        cols = lambda r, p: [E.perturbed_objectives[r, p, j] for j in range(J)] + ([E.perturbed_constraints[r, p, k] for k in range(K)] if K else [])  # noqa: E731
        T.prove("C03.split.every_value_of_a_failed_perturbation_is_reported_as_nan",
                T.all([T.all([T.np.isnan(c) for c in cols(r, p)]) for r in range(R) for p in range(P) if pfail[r][p]]))
        T.prove("C03.split.values_of_successful_perturbations_are_reported_unchanged",
                T.all([T.same(c, PO[r, p, i]) for r in range(R) for p in range(P) if not pfail[r][p] for i, c in enumerate(cols(r, p))]))


# ------------------------------------------------------------------------------------ _run_evaluations
def cases_run(tier):
    # a single vector (functions, gradients or both) and parallel batches of 2, 3 and 4 vectors; every position of a result without
    # functions / with all realizations failed (first, last and the ones in between)
    for kinds in (("F",), ("G",), ("F", "G"), ("F", "F"), ("F", "F", "F"), ("F", "F", "F", "F")):
        n = len(kinds)
        single = [tuple(i == k for i in range(n)) for k in range(n)]
        patterns = list(itertools.product((False, True), repeat=n)) if n <= 2 else [(False,) * n, (True,) * n] + single
        for missing in patterns:
            for allfailed in [(False,) * n, (True,) * n] + (single if n > 1 else []):
                if n > 2 and any(missing) and any(allfailed):
                    continue
                for ms in (0, 1):
                    for allow_nan in (False, True):
                        yield "%s/missing=%s/allfailed=%s/min=%d/allow_nan=%s" % ("".join(kinds), "".join("1" if m else "0" for m in missing), "".join("1" if m else "0" for m in allfailed), ms, allow_nan), {
                            "kinds": list(kinds), "missing": list(missing), "allfailed": list(allfailed), "ms": ms, "allow_nan": allow_nan}
                        if n <= 2:
                            # the driver used without an evaluation callback (signal_evaluation is optional): the abort does not depend on it
                            yield "%s/missing=%s/allfailed=%s/min=%d/allow_nan=%s/no-evaluation-callback" % ("".join(kinds), "".join("1" if m else "0" for m in missing), "".join("1" if m else "0" for m in allfailed), ms, allow_nan), {
                                "kinds": list(kinds), "missing": list(missing), "allfailed": list(allfailed), "ms": ms, "allow_nan": allow_nan, "no_callback": True}


def scn_run(T, case):
    from ropt.enums import OptimizerExitCode
    from ropt.exceptions import OptimizationAborted
    from ropt.results import FunctionResults, GradientResults

    if T.symbolic:
        sh = T.shadow([MO])
        cls = T.under_contract(sh, MO, "EnsembleOptimizer")
        entry = T.under_contract(sh, MO, "EnsembleOptimizer._run_evaluations")
        red = sh.get(MO, "_Redirector")
    else:
        cls = T.func(MO, "EnsembleOptimizer")
        entry = T.func(MO, "EnsembleOptimizer._run_evaluations")
        red = T.func(MO, "_Redirector")
    entry.__name__  # noqa: B018  (the private driver routine this contract is written for: ContractUnbound if its interface is not the recorded one)
    results = []
    for kind, miss, af in zip(case["kinds"], case["missing"], case["allfailed"]):
        real = types.SimpleNamespace(failed_realizations=np.array([af] * 2))
        if kind == "F":
            results.append(FunctionResults(batch_id=None, metadata={}, evaluations=None, realizations=real, functions=None if miss else types.SimpleNamespace()))
        else:
            results.append(GradientResults(batch_id=None, metadata={}, evaluations=None, realizations=real, gradients=None if miss else types.SimpleNamespace()))
    results = tuple(results)
    log = []
    opt = object.__new__(cls)
    opt._enopt_config = types.SimpleNamespace(realizations=types.SimpleNamespace(realization_min_success=case["ms"]),
                                              optimizer=types.SimpleNamespace(output_dir=None, stdout=None, stderr=None))
    opt._redirector = red(opt._enopt_config)
    opt._allow_nan = case["allow_nan"]
    opt._signal_evaluation = None if case.get("no_callback") else (lambda res=None: log.append("start" if res is None else ("results", res)))
    opt._function_evaluator = types.SimpleNamespace(calculate=lambda v, compute_functions, compute_gradients: (log.append("calculate"), results)[1])
    too_few = any(case["missing"]) or (case["ms"] < 1 and not case["allow_nan"] and any(case["allfailed"]))
    try:
        out = opt._run_evaluations(np.zeros(1), compute_functions="F" in case["kinds"], compute_gradients="G" in case["kinds"])
    except OptimizationAborted as exc:
        T.prove("C03.run_evaluations.aborts_only_with_too_few_realizations", too_few and exc.exit_code == OptimizerExitCode.TOO_FEW_REALIZATIONS)
        T.prove("C03.run_evaluations.results_are_signalled_before_the_abort", log == (["calculate"] if case.get("no_callback") else ["start", "calculate", ("results", results)]))
        return
    T.prove("C03.run_evaluations.too_few_realizations_always_aborts", not too_few)
    T.prove("C03.run_evaluations.returns_the_results_after_signalling_them", out is results and log == (["calculate"] if case.get("no_callback") else ["start", "calculate", ("results", results)]))


# ------------------------------------------------------------------------------------ the success threshold of a validated configuration
def cases_threshold(tier):
    for ms in (None, 0, 2, 5):
        for zero in (False, True):
            yield "min_success=%s%s" % (ms, "/one-zero-weight" if zero else ""), {"v": "realizations", "ms": ms, "zero": zero}
    # perturbation_min_success: the default (and the clamp) is the configured number of perturbations, whatever that number is
    for P in (1, 3, 8, 12):
        for pms in (None, 2, 20):
            yield "%d-perturbations/perturbation_min_success=%s" % (P, pms), {"v": "gradient-min", "pms": pms, "P": P}


def scn_threshold(T, case):
    """realization_min_success as this property reads it is the VALIDATED value: default and clamp are the ensemble size (a
    zero-weight realization counts), a plain Python integer (C18's validator scenario under this property's prefix)."""
    from contracts import C18
    from contracts.reuse import Renamed

    C18.scn_validators(Renamed(T, "C18.", "C03.config."), case)


# ------------------------------------------------------------------------------------ filters on some functions + failed realizations, one request or two
def cases_filters_and_failures(tier):
    from contracts import C02

    for cid, c in C02.cases_rows(tier):
        if c.get("fail_real") is not None or c.get("fail_pert") is not None:
            yield cid, c


def scn_filters_and_failures(T, case):
    """'As if the failed realizations were absent' when realization filters apply to some functions only and the failure shows in the function evaluation or only in the perturbations, for combined and split requests (C02's weight-row scenario under this property's prefix)."""
    from contracts import C02
    from contracts.reuse import Renamed

    C02.scn_rows(Renamed(T, "C02.rows.", "C03.combined."), case)


# ------------------------------------------------------------------------------------ an evaluator (and its estimator objects) that has evaluated other points before
def cases_history(tier):
    from contracts import C01, C02

    for cid, c in C01.cases_stddev(tier):
        if c.get("prior_failed") is not None:
            yield "functions/" + cid, dict(c, __which__="C01")
    for cid, c in C02.cases_gradient(tier):
        if c.get("prior_function"):
            yield "gradients/" + cid, dict(c, __which__="C02")


def scn_history(T, case):
    """'As if the failed realizations were absent' on an evaluator with a history: an earlier evaluation with ANOTHER failure pattern
    leaves nothing behind (estimator objects keep no count of surviving realizations), and a gradient-only request uses the cached
    function values - and failure flags - only when they belong to the very same point, fixed variables included (C01's and C02's
    history cases under this property's prefix)."""
    from contracts import C01, C02
    from contracts.reuse import Renamed

    if case["__which__"] == "C01":
        C01.scn_functions(Renamed(T, "C01.", "C03.history.functions."), case)
    else:
        C02.scn_gradient(Renamed(T, "C02.", "C03.history.gradients."), case)

# ------------------------------------------------------------------------------------ failed realizations are never ranked by a sort filter
def cases_filter_windows(tier):
    from contracts import C05

    return C05.cases_select_sweep(tier)


def scn_filter_windows(T, case):
    """With realization filters 'as if the failed realizations were absent' includes the ranking: a failed realization is never ranked,
    whatever the window and the ensemble size (C05's bounded sweep over every window of every size, with failures, under this
    property's prefix)."""
    from contracts import C05
    from contracts.reuse import Renamed

    C05.scn_select_sweep(Renamed(T, "C05.select_sweep.", "C03.filter_windows."), case)

SCENARIOS = [
    Scenario("failure_flags", scn_flags, cases_flags, {"quick": 10, "thorough": 100}),
    Scenario("reduced_ensemble_equivalence", scn_equiv, cases_equiv, {"quick": 3, "thorough": 20}),
    Scenario("gradient_after_function_evaluation", scn_split, cases_split, {"quick": 5, "thorough": 30}),
    Scenario("failed_through_perturbations", scn_pertfail, cases_pertfail, {"quick": 5, "thorough": 30}),
    Scenario("run_evaluations", scn_run, cases_run, {"quick": 1, "thorough": 1}),
    Scenario("validated_success_threshold", scn_threshold, cases_threshold, {"quick": 2, "thorough": 10}),
    Scenario("filters_failures_and_combined_requests", scn_filters_and_failures, cases_filters_and_failures, {"quick": 5, "thorough": 30}),
    Scenario("evaluator_with_a_history", scn_history, cases_history, {"quick": 5, "thorough": 30}),
    Scenario("failed_realizations_are_never_ranked_bounded", scn_filter_windows, cases_filter_windows, {"quick": 1, "thorough": 3}),
]

MANIFEST = {
    "category": "proof",
    "text": "Deductive: failure flags for all NaN patterns (symbolic NaN flags), the realization_min_success gate, the reduced-ensemble equivalence (relational: two runs of the "
            "real calculate agree) for functions and gradients with both estimators, the split gradient evaluation, and the TOO_FEW_REALIZATIONS mapping of _run_evaluations, "
            "discharged by z3 for all real values; complete per enumerated shape (R <= 3, P <= 3) and failure mask.",
    "note": "least-squares solve as an uninterpreted function of the surviving rows; floats as reals; bounded in shape only; perturbation failures that differ per realization are covered through C02's exactness obligations rather than by a reduced ensemble",
    "technique": "contract-based deductive verification: symbolic execution of the real source under sidecar contracts (relational obligations over two runs), VCs discharged by z3/cvc5; bounded run-time contract checking as stand-in",
}
