"""C02 - the stochastic gradient is exact on affine ensembles and zero on fixed variables.

Top-level contract on EnsembleEvaluator.calculate(compute_functions=True, compute_gradients=True) for affine ensembles;
_invert_linear_equations is used by contract (InvertContract in contracts/harness.py); its real body (SVD) is only
checked against that contract at run time on random well-conditioned systems (bounded).
"""
from __future__ import annotations

import itertools

import numpy as np

from contracts import harness as H
from roptvc.driver import Scenario

LEVEL = "other"
EXPLANATION = (
    "Affine ensembles f_rj(x) = a_rj.x + c_rj with symbolic slopes, offsets, weights and perturbations. On the GradientResults returned by the real "
    "EnsembleEvaluator.calculate it is proved (z3) that, given the contract of the least-squares solve, the reported gradient of every objective is "
    "sum_r wn_r a_rj for the mean estimator and the chain-rule gradient for the stddev estimator, the weighted-objective gradient is sum_j ow_j grad_j, "
    "entries of fixed variables are exactly 0, failed perturbations/realizations are excluded; per enumerated shape (R<=3, P<=3, N<=2, J<=2), mask and failure pattern. "
    "The merged estimator is proved exact for one active realization; for several active realizations the recorded known finding applies. "
    "The truncated-SVD solve itself (_invert_linear_equations) is outside the engine (numpy.linalg.svd): it is checked against its contract on random systems only (bounded)."
)
ASSUMPTIONS = [
    "contract of _invert_linear_equations: under the conditioning hypothesis of C02 it returns the unique least-squares solution (assumed in the proof; bounded run-time check of the real SVD body)",
    "sampler interface contract: samples are zero at fixed variables (C17)",
    "floats as reals; boundary type NONE / no bounds in these scenarios (bounds are C10)",
    "bounded in shape only",
]
TRUSTED = ["numpy.linalg.svd (only in the bounded run-time check of _invert_linear_equations)"]

MG = "ropt.ensemble_evaluator._gradient"


def cond_ok(matrix):
    """The conditioning hypothesis of the statement (concrete matrices only)."""
    if matrix.shape[0] < matrix.shape[1] or matrix.size == 0:
        return False
    s = np.linalg.svd(matrix, compute_uv=False)
    return bool(s.size == matrix.shape[1] and (s[-1] ** 2) >= 0.01 * np.sum(s**2) and s[-1] > 1e-8)


# ----------------------------------------------------------------------------------- bounded check of the SVD body
def cases_svd(tier):
    for rows, n in ((1, 1), (2, 1), (2, 2), (3, 2), (4, 3), (6, 3)):
        yield "rows%d-n%d" % (rows, n), {"rows": rows, "n": n, "__concrete_only__": True}


def scn_svd(T, case):
    f = T.func(MG, "_invert_linear_equations")
    M = T.real("M", (case["rows"], case["n"]))
    g = T.real("g", (case["n"],))
    T.assume(cond_ok(np.asarray(M)))
    got = f(M, M @ g)
    T.prove("C02.svd_solve.bounded.exact_on_consistent_well_conditioned_systems", T.same(got, g, rtol=1e-7, atol=1e-9) if not T.symbolic else True)


# ----------------------------------------------------------------------------------- fewer equations than unknowns (bounded)
def cases_svd_under(tier):
    """More variables than surviving perturbations: the system has fewer equations than unknowns.  Bounded run-time checking only."""
    for rows, n in ((1, 2), (2, 3), (2, 4), (3, 5)) + (((1, 6), (4, 7), (5, 12)) if tier == "thorough" else ()):
        yield "rows%d-n%d" % (rows, n), {"rows": rows, "n": n, "__concrete_only__": True}


def scn_svd_under(T, case):
    """The solve returns normally with one entry per unknown; for a well-conditioned full-row-rank system the result solves every
    equation and is the minimum-norm solution (it lies in the row space)."""
    rows, n = case["rows"], case["n"]
    f = T.func(MG, "_invert_linear_equations")
    M = T.real("M", (rows, n))
    v = T.real("v", (rows,))
    s = np.linalg.svd(np.asarray(M), compute_uv=False)
    T.assume(bool(s.size == rows and (s[-1] ** 2) >= 0.01 * np.sum(s**2) and s[-1] > 1e-8))
    try:
        got = f(M, v)
    except Exception as exc:  # noqa: BLE001
        T.fail("C02.svd_under.returns_normally_with_fewer_equations_than_unknowns", "%s: %s" % (type(exc).__name__, exc))
        return
    T.prove("C02.svd_under.returns_normally_with_fewer_equations_than_unknowns", True)
    T.prove("C02.svd_under.result_has_one_entry_per_unknown", tuple(np.shape(got)) == (n,))
    if tuple(np.shape(got)) == (n,):
        T.prove("C02.svd_under.result_solves_every_equation", bool(np.allclose(M @ got, v, rtol=1e-7, atol=1e-9)))
        y = np.linalg.lstsq(np.asarray(M).T, np.asarray(got), rcond=None)[0]
        T.prove("C02.svd_under.result_is_the_minimum_norm_solution", bool(np.allclose(np.asarray(M).T @ y, got, rtol=1e-7, atol=1e-9)))


# ----------------------------------------------------------------------------------- gradients of affine ensembles
def cases_gradient(tier):
    quick = tier == "quick"
    out = []
    # (R, P, N, J, mask, merge, est, failed_real, failed_pert, given weights)
    def add(R, P, N, J, mask, merge, est, fr=None, fp=None, cw=None, shared=False, identical=False, K=0):
        out.append({"R": R, "P": P, "N": N, "J": J, "K": K, "mask": mask, "merge": merge, "est": est, "failed_real": fr or [False] * R,
                    "failed_pert": fp or [[False] * P for _ in range(R)], "cw": cw, "shared": shared, "identical": identical})

    add(1, 1, 1, 1, None, False, "mean")
    add(2, 1, 1, 1, None, False, "mean")
    add(2, 2, 2, 1, None, False, "mean")
    add(2, 2, 2, 2, [True, False], False, "mean")
    add(2, 2, 1, 1, None, False, "mean", fp=[[True, False], [False, False]])
    add(2, 1, 1, 1, None, False, "mean", fr=[True, False])
    add(3, 1, 1, 1, None, False, "mean", fp=[[True], [False], [False]])
    add(2, 1, 2, 1, [False, True], False, "mean", K=1)
    add(2, 1, 1, 1, None, False, "stddev", cw=[0.25, 0.75])
    add(3, 1, 1, 1, None, False, "stddev", cw=[0.5, 0.5, 0.0])
    # the chain rule of the standard deviation with a failed realization (its function value is NaN and its weight zero: it
    # contributes nothing, the gradient stays defined), failed in the function evaluation or through every one of its perturbations
    # (given weights whose renormalisation is exact in binary64, so that the exact comparison of the proof applies)
    add(3, 1, 1, 1, None, False, "stddev", cw=[0.25, 0.5, 0.25], fr=[False, True, False])
    add(3, 2, 1, 1, None, False, "stddev", cw=[0.5, 0.25, 0.25], fp=[[True, True], [False, False], [False, False]])
    # merged estimation
    add(1, 2, 2, 1, None, True, "mean")
    add(2, 1, 1, 1, None, True, "mean", cw=[1.0, 0.0])
    add(2, 1, 1, 1, None, True, "mean", shared=True)
    add(2, 2, 2, 1, [True, False], True, "mean", shared=True)
    add(2, 1, 1, 1, None, True, "mean", identical=True, cw=[0.25, 0.75])
    # a realization / perturbation whose failure shows in a constraint column only (every objective finite)
    add(2, 1, 1, 1, None, False, "mean", fr=[True, False], K=1)
    out[-1]["fail_in"] = "constraint"
    add(2, 2, 1, 1, None, False, "mean", fp=[[True, False], [False, False]], K=1)
    out[-1]["fail_in"] = "constraint"
    add(3, 1, 2, 1, [False, True], False, "mean", fr=[False, True, False], K=1)
    out[-1]["fail_in"] = "constraint"
    # request sequences: the function was evaluated at another point (near or far) before a gradient-only request at x, or at x itself
    for prior in ("near", "far", "same"):
        add(2, 1, 1, 1, None, False, "mean")
        out[-1]["prior_function"] = prior
        add(1, 2, 2, 1, None, False, "mean")
        out[-1]["prior_function"] = prior
    # ... or at a point that differs from x only in a FIXED variable (a nested optimization moves the fixed variables between the
    # function and the gradient request): that is another point, the cached function values are not those of x
    add(2, 1, 2, 1, [True, False], False, "mean")
    out[-1]["prior_function"] = "fixed-differs"
    # several estimators, mapped to the functions with gaps and interleaved (an estimator used by no function of a kind, functions
    # of one estimator not adjacent): every function is differentiated with ITS estimator
    add(2, 1, 1, 3, None, False, "mean", cw=[0.25, 0.75])
    out[-1].update(ests=["mean", "mean", "stddev"], omap_est=[0, 2, 2])
    add(2, 1, 1, 1, None, False, "mean", cw=[0.25, 0.75], K=3)
    out[-1].update(ests=["stddev", "mean"], omap_est=[1], cmap_est=[0, 1, 0])
    # values with a large common offset (bounded run-time checking only: the engine's reals do not round) - the chain-rule gradient
    # of the standard deviation divides by the standard deviation, which a cancelling one-pass variance gets wrong
    add(3, 1, 1, 1, None, False, "stddev", cw=[0.2, 0.3, 0.5])
    out[-1].update(offset=1.0e6, __concrete_only__=True)
    add(3, 2, 2, 1, None, False, "stddev", cw=[0.2, 0.3, 0.5])
    out[-1].update(offset=1.0e6, __concrete_only__=True)
    if not quick:
        add(3, 1, 1, 4, None, False, "mean", cw=[0.2, 0.3, 0.5], K=2)
        out[-1].update(ests=["mean", "stddev", "mean", "stddev"], omap_est=[3, 0, 3, 0], cmap_est=[2, 1], __concrete_only__=True)
        add(3, 2, 2, 1, None, False, "mean")
        add(2, 3, 2, 1, None, False, "mean", fp=[[False, True, False], [False, False, False]])
        add(3, 2, 2, 2, [False, True], False, "mean", fr=[False, True, False])
        # stddev chain rule with two variables: the non-linear obligations stay 'unknown' in z3 and cvc5, so these shapes are
        # run natively only (bounded stand-in, not counted as proved)
        add(3, 1, 2, 1, None, False, "stddev", cw=[0.2, 0.3, 0.5])
        out[-1]["__concrete_only__"] = True
        add(2, 2, 2, 1, None, False, "stddev", cw=[0.5, 0.5])
        out[-1]["__concrete_only__"] = True
        add(3, 2, 1, 1, None, False, "stddev", cw=[0.2, 0.3, 0.5])
        out[-1]["__concrete_only__"] = True
        add(3, 1, 1, 1, None, True, "mean", shared=True)
        add(3, 2, 2, 1, None, True, "mean", cw=[0.0, 1.0, 0.0])
        # larger shapes and a systematic sweep of failure patterns (R = 2, P = 2)
        add(3, 3, 3, 1, None, False, "mean")
        add(4, 2, 2, 1, None, False, "mean")
        add(2, 3, 3, 2, [True, False, True], False, "mean", K=1)
        add(4, 1, 1, 1, None, False, "mean", fr=[False, True, False, True])
        for frp in ([False, False], [True, False], [False, True]):
            for fpp in ([[False, False], [False, False]], [[True, False], [False, False]], [[False, True], [True, False]], [[True, True], [False, False]], [[False, False], [True, True]]):
                add(2, 2, 1, 1, None, False, "mean", fr=frp, fp=fpp)
                add(2, 2, 2, 1, [False, True], False, "mean", fr=frp, fp=fpp, K=1)
    for c in out:
        yield "R%dP%dN%dJ%dK%d/mask=%s/%s/%s/fr=%s/fp=%s/w=%s%s%s" % (
            c["R"], c["P"], c["N"], c["J"], c["K"], c["mask"], "merged" if c["merge"] else "per-realization", c["est"],
            "".join("F" if f else "o" for f in c["failed_real"]), "|".join("".join("F" if f else "o" for f in row) for row in c["failed_pert"]),
            c["cw"], "/shared" if c["shared"] else "", "/identical" if c["identical"] else "") + ("/estimators=%s,%s,%s" % ("+".join(c["ests"]), c.get("omap_est"), c.get("cmap_est")) if c.get("ests") else "") + ("/offset=%g" % c["offset"] if c.get("offset") else "") + ("/function-first-%s" % c["prior_function"] if c.get("prior_function") else "") + ("/nan-in-constraint-only" if c.get("fail_in") else ""), c


def scn_gradient(T, case):
    from ropt.exceptions import OptimizationAborted

    R, P, N, J, K = case["R"], case["P"], case["N"], case["J"], case["K"]
    mask = case["mask"] or [True] * N
    free = [i for i in range(N) if mask[i]]
    fr, fp = case["failed_real"], case["failed_pert"]
    cfgw = T.const(np.array(case["cw"], dtype=float)) if case["cw"] is not None else T.real("weights", (R,), lo=0.0)
    ow = T.real("objective_weights", (J,))
    # affine ensemble
    a = T.real("slopes", (1 if case["identical"] else R, J + K, N))
    c0 = T.real("offsets", (R, J + K))
    if case.get("offset"):
        c0 = c0 + case["offset"]
    slope = lambda r, j: a[0 if case["identical"] else r, j]  # noqa: E731
    x = T.real("x", (N,))
    S = T.real("samples", (1 if case["shared"] else R, P, N))
    samples = T.np.zeros((R, P, N)) + 0.0
    for r in range(R):
        for p in range(P):
            for i in free:
                samples[r, p, i] = S[0 if case["shared"] else r, p, i]
    # renormalised weights of the gradient evaluation (from the statement)
    fail_g = [fr[r] or (P - sum(fp[r])) < P for r in range(R)]  # perturbation_min_success = P (default): any failed perturbation fails the realization
    pms = 1
    fail_g = [fr[r] or (P - sum(fp[r])) < pms for r in range(R)]
    z = [cfgw[r] if not fail_g[r] else 0.0 * cfgw[r] for r in range(R)]
    tot = T.total(z)
    # the quantifier of C02/C03: value clauses apply when some realization with positive weight succeeds
    T.assume(tot > 0)
    wn = [zr / tot for zr in z]
    # ghosts for the least-squares contract
    ghosts = []
    for r in range(R):
        for j in range(J + K):
            ghosts.append([slope(r, j)[i] for i in free])
    truth = {j: [T.total([wn[r] * slope(r, j)[i] for r in range(R)]) for i in free] for j in range(J + K)}
    if case["merge"]:
        for j in range(J + K):
            ghosts.append(truth[j])
            for n_act in range(2, R + 1):
                ghosts.append([t / float(n_act) for t in truth[j]])  # the recorded known behaviour (see known_findings.txt)
    inv = H.InvertContract(T, ghosts) if T.symbolic else None
    ch = H.Chain(T, stubs={(MG, "_invert_linear_equations"): inv} if T.symbolic else None)

    def fobj(v, r, p, k, lo=0, hi=J):
        if case.get("fail_in") == "constraint" and hi <= J:
            # the failure of this case shows in the constraint columns only
            return T.np.array([T.total([slope(r, j)[i] * v[i] for i in range(N)]) + c0[r, j] for j in range(lo, hi)])
        if (p is None or p < 0) and fr[r]:
            return T.np.array([np.nan] * (hi - lo))
        if p is not None and p >= 0 and fp[r][p]:
            return T.np.array([np.nan] * (hi - lo))
        return T.np.array([T.total([slope(r, j)[i] * v[i] for i in range(N)]) + c0[r, j] for j in range(lo, hi)])

    sev = H.ScriptedEvaluator(T, ch, fobj, (lambda v, r, p, k: fobj(v, r, p, k, J, J + K)) if K else None)
    cfg = H.make_config(T, R, J, K, N, weights=cfgw, ow=ow, P=P, mask=case["mask"], merge=case["merge"], min_success=1, pert_min_success=pms,
                        magnitudes=T.const(np.ones(N)), omap_est=case.get("omap_est"), cmap_est=case.get("cmap_est"))
    est_names = case.get("ests") or [case["est"]]
    ests = [H.estimator(ch, m, merge=case["merge"]) for m in est_names]

    def method_of(j):
        emap = case.get("omap_est") if j < J else case.get("cmap_est")
        return est_names[0 if emap is None else emap[j if j < J else j - J]]

    ev = H.make_evaluator(T, ch, cfg, sev, estimators=ests, samplers=[H.FakeSampler(samples)])
    try:
        if case.get("prior_function"):
            # a function evaluation at xf, then a gradient-only request at x: the difference quotients must use f(x), whatever is cached
            if case["prior_function"] == "same":
                xf = x.copy()
            elif case["prior_function"] == "fixed-differs":
                shift = T.real("fixed_variable_shift", (), lo=0.5, hi=2.0)
                xf = T.np.array([x[i] if mask[i] else x[i] + shift for i in range(N)])
            else:
                gap = 1e-9 if case["prior_function"] == "near" else 1.0
                if case["prior_function"] == "near":
                    # another point, closer than 1e-6 in every coordinate (an offset of that size, so that the bounded runs draw such points)
                    xf = x + T.real("x_function_offset", (N,), lo=-0.999e-6, hi=0.999e-6)
                else:
                    xf = T.real("x_function", (N,))
                T.assume(T.any([(xf[i] - x[i] > gap) | (x[i] - xf[i] > gap) for i in range(N)]))
            ev.calculate(xf, compute_functions=True, compute_gradients=False)
            gres = ev.calculate(x, compute_functions=False, compute_gradients=True)[-1]
        else:
            fres, gres = ev.calculate(x, compute_functions=True, compute_gradients=True)
    except OptimizationAborted:
        T.prove("C02.abort_only_from_stddev_estimator", "stddev" in est_names)
        return
    nok = R - sum(fail_g)
    if nok < 1:
        T.prove("C02.no_gradient_without_successful_realization", gres.gradients is None)
        return
    T.prove("C02.gradient_present", gres.gradients is not None)
    if gres.gradients is None:
        return
    G = gres.gradients
    # conditioning hypothesis: symbolic mode - part of the solve contract; concrete mode - evaluated on the reported matrices
    pre0 = tot > 0
    if not T.symbolic:
        pv = np.asarray(gres.evaluations.perturbed_variables) - np.asarray(x)
        if case["merge"]:
            rows = [pv[r, p, free] for r in range(R) for p in range(P) if not fail_g[r] and not fp[r][p] and float(wn[r]) > 0]
            ok = bool(rows) and cond_ok(np.array(rows))
        else:
            ok = all(cond_ok(np.array([pv[r, p, free] for p in range(P) if not fp[r][p]]).reshape(-1, len(free))) for r in range(R) if not fail_g[r] and float(wn[r]) > 0)
        T.assume(ok)
    for kind, cnt, off, grads in (("objective", J, 0, G.objectives), ("constraint", K, J, G.constraints)):
        for jj in range(cnt):
            j = off + jj
            for i in range(N):
                if not mask[i]:
                    T.prove("C02.fixed_variable_entries_are_exactly_zero", T.same(grads[jj, i], 0.0 * x[i]) if T.symbolic else float(grads[jj, i]) == 0.0)
            pre = pre0
            if method_of(j) == "mean":
                want = truth[j]
            else:
                vals = [T.total([slope(r, j)[i] * x[i] for i in range(N)]) + c0[r, j] if not fail_g[r] else 0.0 * x[0] for r in range(R)]
                m = T.total([wn[r] * vals[r] for r in range(R)])
                npos = T.count([wn[r] > 0 for r in range(R)])
                norm = npos / (npos - 1)
                var = T.total([wn[r] * (vals[r] - m) * (vals[r] - m) for r in range(R)])
                sd = T.np.sqrt(norm * var)
                abar = truth[j]
                want = [(norm / sd) * T.total([wn[r] * (vals[r] - m) * (slope(r, j)[i] - abar[k]) for r in range(R)]) for k, i in enumerate(free)]
                pre = pre & (npos >= 2) & (sd > 1e-6)
            got = [grads[jj, i] for i in free]
            if case["merge"]:
                nact = T.count([wn[r] > 0 for r in range(R)])
                single = nact == 1
                T.prove("C02.merged.exact_single_active_realization", T.implies(pre & single, T.all([T.close(got[k], want[k], 1e-7) for k in range(len(free))])))
                key = "C02.merged.exact_on_identical_realizations" if case["identical"] else ("C02.merged.exact_on_shared_perturbations" if case["shared"] else None)
                if key:
                    T.prove(key, T.implies(pre & ~single if T.symbolic else pre and not single, T.all([T.close(got[k], want[k], 1e-7) for k in range(len(free))])))
                if case["shared"]:
                    # not a clause of C02: pins the recorded behaviour inside the known-finding region so that any *other* deviation there is still reported
                    alts = [T.all([T.close(got[k], want[k] / float(n_act), 1e-7) for k in range(len(free))]) & (nact == n_act) for n_act in range(1, R + 1)]
                    T.prove("C02.merged.shared.is_exact_or_the_recorded_known_scaling", T.implies(pre, T.any(alts)))
            else:
                eq = (lambda u, v: T.same(u, v)) if T.symbolic else (lambda u, v: T.close(u, v, 1e-7))
                T.prove("C02.%s_gradient_exact_on_affine_ensemble[%s]" % (kind, method_of(j)), T.implies(pre, T.all([eq(got[k], want[k]) for k in range(len(free))])))
    T.prove("C02.weighted_objective_gradient_is_weighted_sum", T.all([T.close(G.weighted_objective[i], T.total([ow[j] * G.objectives[j, i] for j in range(J)]), 1e-9) for i in range(N)]))
    for i in range(N):
        if not mask[i]:
            T.prove("C02.fixed_variable_entries_are_exactly_zero", T.same(G.weighted_objective[i], 0.0 * x[i]) if T.symbolic else float(G.weighted_objective[i]) == 0.0)


# ----------------------------------------------------------------------------------- per-function weight rows (filters mapped to some functions only)
def cases_rows(tier):
    # ... including a filter map given for the constraints only (none for the objectives) and the other way round
    for omf, cmf in (([0, 1], [1]), ([1, 0], [-1]), ([-1, 0], [0]), ([0, -1], None), (None, [0]), (None, [1])):
        for both in (True, False):
            yield "flt=%s,%s/%s" % (omf, cmf, "functions+gradients" if both else "gradients-after-functions"), {"omf": omf, "cmf": cmf, "both": both}
    # a filter that drops a realization for every objective, the constraint unfiltered, and an evaluator that fills only the entries
    # flagged as needed (anything - here a symbolic garbage value - elsewhere): the constraint still needs every realization
    for both in (True, False):
        yield "flt=[0, 0],None/objective-filter-drops-a-realization/evaluator-honours-the-activity-flags/%s" % ("functions+gradients" if both else "gradients-after-functions"), {
            "omf": [0, 0], "cmf": None, "both": both, "drop": True}
    # filters on some functions only TOGETHER WITH a failed realization: failed in the function evaluation, or failed only through its
    # perturbations (fewer than perturbation_min_success succeed) - a (third-party) filter may return a positive weight for it, and
    # unfiltered functions carry the configured weight: either way a failed realization contributes nothing and the rest is renormalised
    for omf, cmf in (([0, -1], [1]), ([-1, 0], [-1]), ([1, 1], [0])):
        for both in (True, False):
            yield "flt=%s,%s/R3/realization-1-failed/%s" % (omf, cmf, "functions+gradients" if both else "gradients-after-functions"), {
                "omf": omf, "cmf": cmf, "both": both, "R": 3, "fail_real": 1}
            yield "flt=%s,%s/R3P2/realization-2-failed-through-its-perturbations/%s" % (omf, cmf, "functions+gradients" if both else "gradients-after-functions"), {
                "omf": omf, "cmf": cmf, "both": both, "R": 3, "P": 2, "fail_pert": (2, 0), "pms": 2}


def scn_rows(T, case):
    """Each function's gradient is combined with the weights in force for THAT function (its filter's, or the configured ones)."""
    R, P, N, J, K = case.get("R", 2), case.get("P", 1), 1, 2, 1
    cfgw = T.real("weights", (R,), lo=0.001)
    W = [T.real("W%d" % f, (R,), lo=0.001) for f in range(2)]
    ow = T.real("objective_weights", (J,))
    a = T.real("slopes", (R, J + K, N))
    c0 = T.real("offsets", (R, J + K))
    x = T.real("x", (N,))
    S = T.real("samples", (R, P, N))
    ghosts = [[a[r, j, 0]] for r in range(R) for j in range(J + K)]
    inv = H.InvertContract(T, ghosts) if T.symbolic else None
    ch = H.Chain(T, stubs={(MG, "_invert_linear_equations"): inv} if T.symbolic else None)
    fail_real, fail_pert, pms = case.get("fail_real"), case.get("fail_pert"), case.get("pms", 1)
    failed = [r == fail_real or (fail_pert is not None and r == fail_pert[0]) for r in range(R)]

    garbage = T.real("garbage", (R, J + K))
    if case.get("drop"):
        W[0] = T.np.array([W[0][0], 0.0 * W[0][1]])

    def f(v, r, p, k, lo, hi):
        if (p is None or p < 0) and r == fail_real:
            return T.np.array([np.nan] * (hi - lo))
        if p is not None and p >= 0 and (r == fail_real or (fail_pert is not None and (r, p) == tuple(fail_pert))):
            return T.np.array([np.nan] * (hi - lo))
        vals = [a[r, j, 0] * v[0] + c0[r, j] for j in range(lo, hi)]
        if case.get("drop"):
            ctx = sev.calls[-1]["context"]
            flags = ctx.active_objectives if lo == 0 else ctx.active_constraints
            if flags is not None:
                vals = [vals[j - lo] if bool(flags[j - lo, r]) else garbage[r, j] for j in range(lo, hi)]
        return T.np.array(vals)

    sev = H.ScriptedEvaluator(T, ch, lambda v, r, p, k: f(v, r, p, k, 0, J), lambda v, r, p, k: f(v, r, p, k, J, J + K))
    cfg = H.make_config(T, R, J, K, N, weights=cfgw, ow=ow, P=P, min_success=1, pert_min_success=pms, magnitudes=T.const(np.ones(N)),
                        omap_flt=case["omf"], cmap_flt=case["cmf"])
    ev = H.make_evaluator(T, ch, cfg, sev, filters=[H.AbstractFilter(W[0]), H.AbstractFilter(W[1])], samplers=[H.FakeSampler(S)])
    if case["both"]:
        fres, gres = ev.calculate(x, compute_functions=True, compute_gradients=True)
    else:
        (fres,) = ev.calculate(x, compute_functions=True, compute_gradients=False)
        (gres,) = ev.calculate(x, compute_functions=False, compute_gradients=True)
    if not T.symbolic:
        T.assume(all(abs(float(S[r, p, 0])) > 1e-6 for r in range(R) for p in range(P)))
    if fail_pert is not None or fail_real is not None:
        # a realization that failed only through its perturbations still has its function value: the FUNCTION estimate counts it
        # (only the gradient evaluation excludes it), whether functions and gradients were requested together or one after the other;
        # one whose function evaluation failed counts for nothing, whatever weight its row carries
        T.prove("C02.rows.function_results_flag_only_the_realizations_whose_function_evaluation_failed", [bool(b) for b in fres.realizations.failed_realizations] == [r == fail_real for r in range(R)])
        for jj in range(J):
            fidx = -1 if case["omf"] is None else case["omf"][jj]
            w = W[fidx] if fidx >= 0 else cfgw
            totf = T.total([w[r] for r in range(R) if r != fail_real])
            wantf = T.total([(w[r] / totf) * (a[r, jj, 0] * x[0] + c0[r, jj]) for r in range(R) if r != fail_real])
            T.prove("C02.rows.function_value_counts_every_realization_whose_function_evaluation_succeeded", T.close(fres.functions.objectives[jj], wantf, 1e-7) if not T.symbolic else T.same(fres.functions.objectives[jj], wantf))
    # the function VALUES are estimated with the weights in force for that function too (objectives and constraints alike)
    for kind, cnt, off, fmap, vals in (("objective", J, 0, case["omf"], fres.functions.objectives), ("constraint", K, J, case["cmf"], fres.functions.constraints)):
        for jj in range(cnt):
            fidx = -1 if fmap is None else fmap[jj]
            w = W[fidx] if fidx >= 0 else cfgw
            totf = T.total([w[r] for r in range(R) if r != fail_real])
            wantf = T.total([(w[r] / totf) * (a[r, off + jj, 0] * x[0] + c0[r, off + jj]) for r in range(R) if r != fail_real])
            T.prove("C02.rows.%s_value_uses_the_weights_in_force_for_that_function" % kind, T.close(vals[jj], wantf, 1e-7) if not T.symbolic else T.same(vals[jj], wantf))
    T.prove("C02.rows.gradient_results_flag_the_failed_realizations", [bool(b) for b in gres.realizations.failed_realizations] == failed)
    G = gres.gradients
    for kind, cnt, off, fmap, grads in (("objective", J, 0, case["omf"], G.objectives), ("constraint", K, J, case["cmf"], G.constraints)):
        for jj in range(cnt):
            fidx = -1 if fmap is None else fmap[jj]
            w = W[fidx] if fidx >= 0 else cfgw
            tot = T.total([w[r] for r in range(R) if not failed[r]])
            if not T.symbolic and case.get("drop"):
                tot = float(sum(float(w[r]) for r in range(R)))
            want = T.total([(w[r] / tot) * a[r, off + jj, 0] for r in range(R) if not failed[r]])
            T.prove("C02.rows.%s_gradient_uses_the_weights_in_force_for_that_function" % kind, T.close(grads[jj, 0], want, 1e-7) if not T.symbolic else T.same(grads[jj, 0], want))


# ----------------------------------------------------------------------------------- the body of the truncated-SVD solve
def cases_svd_body(tier):
    for rows, n in ((1, 1), (2, 1), (3, 1), (2, 2)) + (((3, 2), (4, 3)) if tier == "thorough" else ()):
        for what in ("consistent", "least-squares"):
            c = {"rows": rows, "n": n, "what": what}
            if n >= 2:
                # products of three symbolic orthogonal factors: 'unknown' in z3 and cvc5; kept as bounded native evidence only
                c["__concrete_only__"] = True
            yield "rows%d-n%d/%s" % (rows, n, what), c


def scn_svd_body(T, case):
    """The real body of _invert_linear_equations with numpy.linalg.svd BY LIBRARY CONTRACT (LAPACK's factorisation is outside the
    engine): svd(M) returns U (orthonormal columns), singular values s_0 >= s_1 >= ... >= 0 and an orthogonal Vt with
    M = U[:, :k] diag(s) Vt.  Under the conditioning hypothesis of C02 (the smallest squared singular value carries at least 1%
    of the total, so the energy cut-off at 99.9% keeps every singular value) the result is proved to be THE least-squares
    solution: M^T M x = M^T v, and x = g for a consistent system v = M g.  This discharges, per enumerated small shape, the
    contract that the gradient scenarios assume for the solve (InvertContract)."""
    from roptvc import snp

    rows, n = case["rows"], case["n"]
    f = T.func(MG, "_invert_linear_equations")
    if not T.symbolic:
        # bounded stand-in: the same obligations with the real LAPACK factorisation on random well-conditioned systems
        M = T.real("M", (rows, n))
        g = T.real("g", (n,))
        T.assume(cond_ok(np.asarray(M)))
        v = M @ g if case["what"] == "consistent" else T.real("v", (rows,))
        got = f(M, v)
        if case["what"] == "consistent":
            T.prove("C02.svd_body.consistent_system_is_solved_exactly", bool(np.allclose(got, g, rtol=1e-7, atol=1e-9)))
        T.prove("C02.svd_body.result_satisfies_the_normal_equations", bool(np.allclose(M.T @ M @ got, M.T @ v, rtol=1e-7, atol=1e-9)))
        return
    k = n
    U = T.real("U", (rows, rows))
    sg = T.real("sigma", (k,), lo=0.0)
    Vt = T.real("Vt", (n, n))
    for i in range(k - 1):
        T.assume(sg[i] >= sg[i + 1])
    T.assume(sg[k - 1] > 0)
    for a in range(rows):
        for b in range(a, rows):
            T.assume(T.same(T.total([U[r, a] * U[r, b] for r in range(rows)]), 1.0 if a == b else 0.0))
    for a in range(n):
        for b in range(a, n):
            T.assume(T.same(T.total([Vt[a, c] * Vt[b, c] for c in range(n)]), 1.0 if a == b else 0.0))
            T.assume(T.same(T.total([Vt[c, a] * Vt[c, b] for c in range(n)]), 1.0 if a == b else 0.0))
    M = T.np.array([[T.total([U[r, j] * sg[j] * Vt[j, c] for j in range(k)]) for c in range(n)] for r in range(rows)])
    # conditioning hypothesis of C02
    tot = T.total([sg[j] * sg[j] for j in range(k)])
    T.assume(sg[k - 1] * sg[k - 1] * 100.0 >= tot)

    def svd(matrix, *a, **kw):
        T.prove("C02.svd_body.factorisation_requested_for_the_given_matrix", T.same(matrix, M) and not a and not kw)
        return U.copy(), sg.copy(), Vt.copy()

    snp.LIBRARY_CONTRACTS["linalg.svd"] = svd
    try:
        if case["what"] == "consistent":
            g = T.real("g", (n,))
            v = T.np.array([T.total([M[r, c] * g[c] for c in range(n)]) for r in range(rows)])
        else:
            v = T.real("v", (rows,))
        got = f(M, v)
    finally:
        snp.LIBRARY_CONTRACTS.pop("linalg.svd", None)
    T.prove("C02.svd_body.result_has_one_entry_per_unknown", tuple(got.shape) == (n,))
    if case["what"] == "consistent":
        T.prove("C02.svd_body.consistent_system_is_solved_exactly", T.same(got, g))
    else:
        MtM = [[T.total([M[r, a] * M[r, b] for r in range(rows)]) for b in range(n)] for a in range(n)]
        Mtv = [T.total([M[r, a] * v[r] for r in range(rows)]) for a in range(n)]
        T.prove("C02.svd_body.result_satisfies_the_normal_equations", T.all([T.same(T.total([MtM[a][b] * got[b] for b in range(n)]), Mtv[a]) for a in range(n)]))


# ------------------------------------------------------------------------------------ user-domain results (shared contract)
def cases_user_results(tier):
    from contracts import backtransform

    return backtransform.cases(tier)


def scn_user_results(T, case):
    from contracts import backtransform

    backtransform.scenario(T, case, "C02")


# ------------------------------------------------------------------------------------ which variables a sampler is told to handle
def cases_assignment(tier):
    from contracts.C09 import cases_get_mask

    for cid, c in cases_get_mask(tier):
        if c["N"] <= (2 if tier == "quick" else 3):
            yield cid, dict(c, prefix="C02.assignment")


def scn_assignment(T, case):
    """Exactness rests on 'samples are zero at fixed variables': the mask handed to every sampler is (free) AND (assigned to it), an
    empty selection being an all-False mask - also for a sampler whose variables are all fixed (C09's scenario under this
    property's prefix)."""
    from contracts.C09 import scn_get_mask

    scn_get_mask(T, case)

# ------------------------------------------------------------------------------------ activity flags of later gradient requests
def cases_activity_history(tier):
    from contracts import C06

    for cid, c in C06.cases_activity_calls(tier):
        if c.get("second_pair"):
            yield cid, c


def scn_activity_history(T, case):
    """Exactness with an evaluator that fills only the entries flagged as needed rests on the flags of EVERY gradient request being
    those of the weights in force at that point - also the second and later ones on the same evaluator, when a filter selects other
    realizations (C06's scenario under this property's prefix)."""
    from contracts import C06
    from contracts.reuse import Renamed

    C06.scn_activity_calls(Renamed(T, "C06.calls.", "C02.activity_flags."), case)

SCENARIOS = [
    Scenario("gradient_affine", scn_gradient, cases_gradient, {"quick": 10, "thorough": 60}),
    Scenario("gradient_weight_rows", scn_rows, cases_rows, {"quick": 10, "thorough": 60}),
    Scenario("svd_solve_bounded", scn_svd, cases_svd, {"quick": 30, "thorough": 300}),
    Scenario("svd_solve_fewer_equations_than_unknowns_bounded", scn_svd_under, cases_svd_under, {"quick": 10, "thorough": 100}),
    Scenario("svd_solve_body_by_library_contract", scn_svd_body, cases_svd_body, {"quick": 10, "thorough": 100}),
    Scenario("user_domain_results", scn_user_results, cases_user_results, {"quick": 3, "thorough": 20}),
    Scenario("sampler_variable_assignment", scn_assignment, cases_assignment, {"quick": 1, "thorough": 1}),
    Scenario("activity_flags_of_later_gradient_requests", scn_activity_history, cases_activity_history, {"quick": 5, "thorough": 30}),
]

MANIFEST = {
    "category": "other",
    "text": "Deductive for everything around the least-squares solve: on affine ensembles the gradient reported by the real EnsembleEvaluator.calculate is proved (z3) "
            "to be the weight-normalised combination of the realization slopes (mean), the chain-rule gradient (stddev), zero on fixed variables, with failed "
            "perturbations/realizations excluded, given the contract of _invert_linear_equations; complete per enumerated shape. The SVD solve itself is only checked "
            "against its contract at run time (bounded), and merged estimation with several active realizations is a recorded known finding.",
    "note": "the real body of the truncated-SVD solve is proved against LAPACK's library contract for one unknown (1-3 equations) and checked at run time beyond; _invert_linear_equations by assumed contract (numpy.linalg.svd is outside the engine; bounded run-time check only); floats as reals; sqrt uninterpreted; bounded in shape; known finding C02.merged.*",
    "technique": "contract-based deductive verification: symbolic execution of the real source under sidecar contracts (callee by contract), VCs discharged by z3/cvc5; bounded run-time contract checking for the SVD body",
}
