"""C15 - event streams are well formed and aborts latch the plan, at every abort point.

Functions under contract: see contracts/stepflow.py (UNDER) plus Plan.emit_event over parent chains and
DefaultOptimizerStep._run_nested_plan.
"""
from __future__ import annotations

import types

from contracts import stepflow
from roptvc.driver import Scenario

LEVEL = "other"
MP = "ropt.plan._plan"
MC = "ropt.plan._context"
EXPLANATION = (
    "Same exhaustive environment as C14 (contracts/stepflow.py): for every abort point (a handler or an observer raising at any emitted event, or the evaluator aborting inside an "
    "evaluation) and every failure pattern, the event stream seen by the first handler equals the well-bracketed stream prescribed by the executable reading of the documentation "
    "(START step first, FINISHED step last also after failures and aborts, START/FINISHED_EVALUATION paired, an unmatched START_EVALUATION only when the abort arose at or inside "
    "it); every event reaches handlers first, then observers, each once; a user abort yields USER_ABORT, latches the plan and makes further steps refuse. Plan.emit_event is "
    "additionally checked over parent chains of depth <= 3 (own handlers, then the ancestors' handlers, then the observers, each exactly once), and _run_nested_plan to propagate "
    "an inner abort to the parent."
)
ASSUMPTIONS = stepflow_assumptions = [
    "environment bounded: at most 2 (thorough: 3) requests per run, one aborting receiver per run, plan nesting depth <= 3",
    "single-threaded; wall-clock ordering is not a notion of the model",
]


def scn(T, case):
    stepflow.run_case(T, case, ("events",))


def cases_chain(tier):
    for depth in (1, 2, 3):
        for nh in (0, 1, 2):
            yield "depth=%d/handlers=%d" % (depth, nh), {"depth": depth, "nh": nh}


def scn_chain(T, case):
    from ropt.enums import EventType
    from ropt.plan import Event

    if T.symbolic:
        sh = T.shadow([MP, MC])
        plan_cls, ctx_cls = T.under_contract(sh, MP, "Plan"), T.under_contract(sh, MC, "OptimizerContext")
        T.under_contract(sh, MP, "Plan.emit_event")
        T.under_contract(sh, MC, "OptimizerContext.call_observers")
    else:
        plan_cls, ctx_cls = T.func(MP, "Plan"), T.func(MC, "OptimizerContext")
    log = []
    octx = ctx_cls(evaluator=None, plugin_manager=types.SimpleNamespace())
    et = list(EventType)[T.choose(len(EventType))]
    for e in EventType:
        octx.add_observer(e, stepflow.Recorder("obs-%s-1" % e.name, log))
        octx.add_observer(e, stepflow.Recorder("obs-%s-2" % e.name, log))
    plans, want = [], []
    parent = None
    for d in range(case["depth"]):
        p = plan_cls(octx, parent)
        p._handlers = {"h%d" % k: stepflow.Recorder("plan%d-handler%d" % (d, k), log) for k in range(case["nh"])}
        plans.append(p)
        parent = p
    child = plans[-1]
    for d in range(case["depth"] - 1, -1, -1):
        want += ["plan%d-handler%d" % (d, k) for k in range(case["nh"])]
    want += ["obs-%s-1" % et.name, "obs-%s-2" % et.name]
    ev = Event(event_type=et, config=None, source=None)
    child.emit_event(ev)
    T.prove("C15.emit.own_handlers_then_ancestors_then_observers_each_once", [n for n, _ in log] == want)
    T.prove("C15.emit.same_event_object_everywhere", all(e is ev for _, e in log))
    # abort flag: monotone, run_step refuses
    from ropt.exceptions import PlanAborted

    child._steps = {"s": types.SimpleNamespace(run=lambda **kw: "ran")}
    T.prove("C15.plan.steps_run_while_not_aborted", child.run_step("s") == "ran" and child.aborted is False)
    child.abort()
    child.abort()
    try:
        child.run_step("s")
        refused = False
    except PlanAborted:
        refused = True
    T.prove("C15.plan.abort_is_latched_and_refuses_steps", refused and child.aborted is True)


def cases_nested(tier):
    for inner_aborted in (False, True):
        for ok_type in (True, False):
            yield "inner_aborted=%s/result_ok=%s" % (inner_aborted, ok_type), {"inner_aborted": inner_aborted, "ok_type": ok_type}
    # the inner plan has run under another outer plan before (a nested plan object reused by a second optimizer step)
    for inner_aborted in (False, True):
        yield "inner_aborted=%s/result_ok=True/inner-plan-used-before-by-another-plan" % inner_aborted, {"inner_aborted": inner_aborted, "ok_type": True, "reused": True}


def scn_nested(T, case):
    import numpy as np

    from ropt.results import FunctionResults

    MOPT = stepflow.MOPT
    if T.symbolic:
        sh = T.shadow([MOPT, MP])
        cls = T.under_contract(sh, MOPT, "DefaultOptimizerStep")
        T.under_contract(sh, MOPT, "DefaultOptimizerStep._run_nested_plan")
        plan_cls = sh.get(MP, "Plan")
    else:
        cls, plan_cls = T.func(MOPT, "DefaultOptimizerStep"), T.func(MP, "Plan")
    log = []
    octx = types.SimpleNamespace(call_observers=lambda event: log.append("observers"))
    outer, inner = plan_cls(octx), plan_cls(octx)
    outer._handlers = {"h": stepflow.Recorder("outer-handler", log)}
    inner._handlers = {"h": stepflow.Recorder("inner-handler", log)}
    if case.get("reused"):
        previous = plan_cls(octx)
        previous._handlers = {"h": stepflow.Recorder("previous-outer-handler", log)}
        pstep = cls(previous)
        pstep._nested_optimization = inner
        inner.add_function(lambda plan, variables: FunctionResults(batch_id=None, metadata={}, evaluations=None, realizations=None, functions=None))
        pstep._run_nested_plan(np.zeros(1))
    res = FunctionResults(batch_id=None, metadata={}, evaluations=None, realizations=None, functions=None) if case["ok_type"] else "not-a-result"

    def func(plan, variables):
        # the inner plan emits an event while it runs: it must reach its own handlers, then those of the plan that runs it NOW
        from ropt.enums import EventType
        from ropt.plan import Event

        del log[:]
        plan.emit_event(Event(event_type=EventType.START_EVALUATION, config=None, source=None))
        if case["inner_aborted"]:
            plan.abort()
        return res

    inner.add_function(func)
    step = cls(outer)
    step._nested_optimization = inner
    try:
        got, aborted = step._run_nested_plan(np.zeros(1))
    except TypeError:
        T.prove("C15.nested.type_error_only_for_non_results", not case["ok_type"])
        T.prove("C15.nested.inner_abort_propagates_to_the_parent_plan", outer.aborted == case["inner_aborted"])
        return
    T.prove("C15.nested.returns_the_inner_result_and_its_abort_flag", got is res and aborted == case["inner_aborted"])
    T.prove("C15.nested.inner_abort_propagates_to_the_parent_plan", outer.aborted == case["inner_aborted"])
    T.prove("C15.nested.events_of_the_inner_plan_reach_its_handlers_then_those_of_the_running_outer_plan_then_the_observers",
            [n if isinstance(n, str) else n[0] for n in log] == ["inner-handler", "outer-handler", "observers"], repr(log))


# ------------------------------------------------------------------------------------ what the plan steps hand on (shared contract)
def cases_steps(tier):
    from contracts import stepcontract

    return stepcontract.cases(tier)


def scn_steps(T, case):
    from contracts import stepcontract

    stepcontract.scenario(T, case, "C15")


SCENARIOS = [
    Scenario("step_event_streams", scn, stepflow.cases, {"quick": 10, "thorough": 100}),
    Scenario("emit_event_over_plan_chains", scn_chain, cases_chain, {"quick": 2, "thorough": 10}),
    Scenario("nested_plan_abort", scn_nested, cases_nested, {"quick": 1, "thorough": 1}),
    Scenario("plan_steps_hand_over", scn_steps, cases_steps, {"quick": 1, "thorough": 2}),
]

MANIFEST = {
    "category": "other",
    "text": "Exhaustive path exploration of the real step/plan/context code against a bounded non-deterministic environment: for every abort point and failure pattern the event stream, "
            "delivery order, exit code USER_ABORT, plan latch and refusal of further steps are checked against an executable reading of the documented semantics; emit_event over parent "
            "chains and nested-plan abort propagation separately. A contract check over all paths for that environment (runs bounded to 2 requests, nesting depth 3), not an unbounded proof.",
    "note": "bounded environment; single-threaded; SciPy assumed to propagate callback exceptions; EnsembleEvaluator.calculate by raises-contract",
    "technique": "contract-based verification of event/exception flow: symbolic-execution engine enumerating all environment choices over the real source, obligations per path; bounded run-time checking as stand-in",
}
