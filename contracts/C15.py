"""C15 - event streams are well formed and aborts latch the plan, at every abort point.

Functions under contract: see contracts/stepflow.py (UNDER) plus Plan.emit_event over parent chains and
DefaultOptimizerStep._run_nested_plan.
"""
from __future__ import annotations

import types

from contracts import stepflow
from roptvc.driver import Scenario

LEVEL = "other"
MP = "ropt.plan._plan"
MC = "ropt.plan._context"
EXPLANATION = (
    "Same exhaustive environment as C14 (contracts/stepflow.py): for every abort point (a handler or an observer raising at any emitted event, or the evaluator aborting inside an "
    "evaluation) and every failure pattern, the event stream seen by the first handler equals the well-bracketed stream prescribed by the executable reading of the documentation "
    "(START step first, FINISHED step last also after failures and aborts, START/FINISHED_EVALUATION paired, an unmatched START_EVALUATION only when the abort arose at or inside "
    "it); every event reaches handlers first, then observers, each once; a user abort yields USER_ABORT, latches the plan and makes further steps refuse. Plan.emit_event is "
    "additionally checked over parent chains of depth <= 3 (own handlers, then the ancestors' handlers, then the observers, each exactly once), and _run_nested_plan to propagate "
    "an inner abort to the parent."
)
ASSUMPTIONS = stepflow_assumptions = [
    "environment bounded: at most 2 (thorough: 3) requests per run, one aborting receiver per run, plan nesting depth <= 3",
    "single-threaded; wall-clock ordering is not a notion of the model",
]


def scn(T, case):
    stepflow.run_case(T, case, ("events",))


def cases_chain(tier):
    for depth in (1, 2, 3, 4, 5, 8) + ((13, 40) if tier == "thorough" else ()):
        for nh in (0, 1, 2):
            if depth > 3 and nh == 0:
                continue
            yield "depth=%d/handlers=%d" % (depth, nh), {"depth": depth, "nh": nh}
            if depth >= 2 and nh:
                # history: the chain below the outermost plan has already emitted events on its own, then it is nested under
                # the outermost plan (set_parent on the plan at the top of the sub-chain, as a running optimizer step does)
                yield "depth=%d/handlers=%d/sub-chain-emitted-before-it-was-nested" % (depth, nh), {"depth": depth, "nh": nh, "late_root": True}
    # the nested plans are built on their OWN optimizer context (another evaluator): the events still end at the observers of the
    # outermost plan's context, and only there
    for depth in (2, 3):
        yield "depth=%d/handlers=1/inner-plans-have-their-own-context" % depth, {"depth": depth, "nh": 1, "own_context": True}
    # the induction step, for a chain of ANY depth: a plan with an arbitrary parent delivers the event to its own handlers, then
    # hands the same event to the parent exactly once (whose own delivery is this very contract), and calls no observer itself
    for nh in (0, 1, 2):
        yield "induction-step/arbitrary-parent/handlers=%d" % nh, {"depth": 1, "nh": nh, "abstract_parent": True}


def scn_chain(T, case):
    from ropt.enums import EventType
    from ropt.plan import Event

    if T.symbolic:
        sh = T.shadow([MP, MC])
        plan_cls, ctx_cls = T.under_contract(sh, MP, "Plan"), T.under_contract(sh, MC, "OptimizerContext")
        T.under_contract(sh, MP, "Plan.emit_event")
        T.under_contract(sh, MC, "OptimizerContext.call_observers")
    else:
        plan_cls, ctx_cls = T.func(MP, "Plan"), T.func(MC, "OptimizerContext")
    log = []
    octx = ctx_cls(evaluator=None, plugin_manager=stepflow.PlanPlugins())
    et = list(EventType)[T.choose(len(EventType))]
    for e in EventType:
        octx.add_observer(e, stepflow.Recorder("obs-%s-1" % e.name, log))
        octx.add_observer(e, stepflow.Recorder("obs-%s-2" % e.name, log))
    plans, want = [], []
    parent = None
    if case.get("abstract_parent"):
        from roptvc.sym import ContractUnbound

        class ArbitraryParent:
            """Known by the contract of emit_event only; code that looks inside it is outside this induction argument (undecided,
            not a violation: the enumerated chains above still decide)."""

            def emit_event(self, event):
                log.append(("parent.emit_event", event))

            def __getattr__(self, name):
                raise ContractUnbound("emit_event reads %r of the parent plan instead of handing the event to parent.emit_event: the induction step does not apply" % name)

        parent = ArbitraryParent()
        p = plan_cls(octx, parent)
        for k in range(case["nh"]):
            stepflow.add_handler(p, stepflow.Recorder("plan0-handler%d" % k, log))
        ev = Event(event_type=et, config=None, source=None)
        p.emit_event(ev)
        T.prove("C15.emit.induction_step.own_handlers_then_the_parent_once_and_no_observer_called_directly",
                [n for n, _ in log] == ["plan0-handler%d" % k for k in range(case["nh"])] + ["parent.emit_event"] and all(e is ev for _, e in log))
        return
    inner_ctx = None
    if case.get("own_context"):
        inner_ctx = ctx_cls(evaluator=None, plugin_manager=stepflow.PlanPlugins())
        for e in EventType:
            inner_ctx.add_observer(e, stepflow.Recorder("observer-of-an-inner-context-%s" % e.name, log))
    for d in range(case["depth"]):
        p = plan_cls(octx if (d == 0 or inner_ctx is None) else inner_ctx, None if (case.get("late_root") and d == 1) else parent)
        for k in range(case["nh"]):
            stepflow.add_handler(p, stepflow.Recorder("plan%d-handler%d" % (d, k), log))
        plans.append(p)
        parent = p
    child = plans[-1]
    if case.get("late_root"):
        child.emit_event(Event(event_type=et, config=None, source=None))
        T.prove("C15.emit.a_chain_not_yet_nested_does_not_reach_the_future_outer_plan", not any(n.startswith("plan0-") for n, _ in log))
        del log[:]
        plans[1].set_parent(plans[0])
    for d in range(case["depth"] - 1, -1, -1):
        want += ["plan%d-handler%d" % (d, k) for k in range(case["nh"])]
    want += ["obs-%s-1" % et.name, "obs-%s-2" % et.name]
    ev = Event(event_type=et, config=None, source=None)
    child.emit_event(ev)
    T.prove("C15.emit.own_handlers_then_ancestors_then_observers_each_once", [n for n, _ in log] == want)
    T.prove("C15.emit.same_event_object_everywhere", all(e is ev for _, e in log))
    # abort flag: monotone, run_step refuses
    from ropt.exceptions import PlanAborted

    sid = stepflow.add_step(child, lambda **kw: "ran")
    T.prove("C15.plan.steps_run_while_not_aborted", child.run_step(sid) == "ran" and child.aborted is False)
    child.abort()
    child.abort()
    try:
        child.run_step(sid)
        refused = False
    except PlanAborted:
        refused = True
    T.prove("C15.plan.abort_is_latched_and_refuses_steps", refused and child.aborted is True)
    # the latch survives running the plan's function again (a nested plan is run once per evaluation of the outer step): the
    # function sees the plan aborted, the steps it tries are refused, and the plan is still aborted afterwards
    seen = []

    def function(plan, *args):
        seen.append(plan.aborted)
        try:
            plan.run_step(sid)
            seen.append("step ran")
        except PlanAborted:
            seen.append("refused")
        return "done"

    child.add_function(function)
    out = child.run_function(1.0)
    T.prove("C15.plan.abort_latch_survives_running_the_plan_function_again", out == "done" and seen == [True, "refused"] and child.aborted is True)


def cases_nested(tier):
    for inner_aborted in (False, True):
        for ok_type in (True, False):
            yield "inner_aborted=%s/result_ok=%s" % (inner_aborted, ok_type), {"inner_aborted": inner_aborted, "ok_type": ok_type}
    # the inner plan ends without a result (its function returns None: nothing was tracked), aborted or not
    for inner_aborted in (False, True):
        yield "inner_aborted=%s/no-result" % inner_aborted, {"inner_aborted": inner_aborted, "ok_type": True, "none": True}
    # the inner plan has run under another outer plan before (a nested plan object reused by a second optimizer step)
    for inner_aborted in (False, True):
        yield "inner_aborted=%s/result_ok=True/inner-plan-used-before-by-another-plan" % inner_aborted, {"inner_aborted": inner_aborted, "ok_type": True, "reused": True}


def scn_nested(T, case):
    import numpy as np

    from ropt.results import FunctionResults

    MOPT = stepflow.MOPT
    if T.symbolic:
        sh = T.shadow([MOPT, MP])
        cls = T.under_contract(sh, MOPT, "DefaultOptimizerStep")
        T.under_contract(sh, MOPT, "DefaultOptimizerStep._run_nested_plan")
        plan_cls = sh.get(MP, "Plan")
    else:
        cls, plan_cls = T.func(MOPT, "DefaultOptimizerStep"), T.func(MP, "Plan")
    log = []
    octx = types.SimpleNamespace(call_observers=lambda event: log.append("observers"), plugin_manager=stepflow.PlanPlugins())
    outer, inner = plan_cls(octx), plan_cls(octx)
    stepflow.add_handler(outer, stepflow.Recorder("outer-handler", log))
    stepflow.add_handler(inner, stepflow.Recorder("inner-handler", log))
    if case.get("reused"):
        previous = plan_cls(octx)
        stepflow.add_handler(previous, stepflow.Recorder("previous-outer-handler", log))
        pstep = cls(previous)
        pstep._nested_optimization = inner
        inner.add_function(lambda plan, variables: FunctionResults(batch_id=None, metadata={}, evaluations=None, realizations=None, functions=None))
        pstep._run_nested_plan(np.zeros(1))
    res = FunctionResults(batch_id=None, metadata={}, evaluations=None, realizations=None, functions=None) if case["ok_type"] else "not-a-result"
    if case.get("none"):
        res = None  # 'no result' is a legitimate outcome of the inner function (FunctionResults | None): never a TypeError

    def func(plan, variables):
        # the inner plan emits an event while it runs: it must reach its own handlers, then those of the plan that runs it NOW
        from ropt.enums import EventType
        from ropt.plan import Event

        del log[:]
        plan.emit_event(Event(event_type=EventType.START_EVALUATION, config=None, source=None))
        if case["inner_aborted"]:
            plan.abort()
        return res

    inner.add_function(func)
    step = cls(outer)
    step._nested_optimization = inner
    try:
        got, aborted = step._run_nested_plan(np.zeros(1))
    except TypeError:
        T.prove("C15.nested.type_error_only_for_non_results", not case["ok_type"])
        T.prove("C15.nested.inner_abort_propagates_to_the_parent_plan", outer.aborted == case["inner_aborted"])
        return
    T.prove("C15.nested.returns_the_inner_result_and_its_abort_flag", got is res and aborted == case["inner_aborted"])
    T.prove("C15.nested.inner_abort_propagates_to_the_parent_plan", outer.aborted == case["inner_aborted"])
    T.prove("C15.nested.events_of_the_inner_plan_reach_its_handlers_then_those_of_the_running_outer_plan_then_the_observers",
            [n if isinstance(n, str) else n[0] for n in log] == ["inner-handler", "outer-handler", "observers"], repr(log))


# ------------------------------------------------------------------------------------ what the plan steps hand on (shared contract)
def cases_steps(tier):
    from contracts import stepcontract

    return stepcontract.cases(tier)


def scn_steps(T, case):
    from contracts import stepcontract

    stepcontract.scenario(T, case, "C15")


# ------------------------------------------------------------------------------------ BasicOptimizer: every callback gets its own events
def cases_callbacks(tier):
    for order in ("abort-first", "results-first"):
        for abort in (False, True):
            yield "%s/abort=%s" % (order, abort), {"order": order, "abort": abort}
    # the first run of the object ends with an ordinary exception raised by the user's evaluator: the later runs are as usual
    yield "abort-first/abort=False/first-run-ends-with-an-exception", {"order": "abort-first", "abort": False, "first_run_raises": True}


def scn_callbacks(T, case):
    """'Every event is delivered exactly once to ... the observers': the two callbacks of BasicOptimizer are observers of different
    event types (abort check: START_EVALUATION, results: FINISHED_EVALUATION); each is registered for its own type and is the
    function that runs when that type is observed, whatever the order in which they were set."""
    from ropt.enums import EventType, OptimizerExitCode
    from ropt.exceptions import OptimizationAborted
    from ropt.plan import Event

    MB = "ropt.plan._basic_optimizer"
    registered, log = [], []

    class FakePlan:
        def __init__(self, ctx):
            self._f = None

        step_exists = handler_exists = lambda self, k: False

        def has_function(self):
            return self._f is not None

        def add_step(self, name):
            return "optimizer-step-id"

        def add_handler(self, name, **kw):
            return "tracker-id"

        def add_function(self, f):
            self._f = f

        def run_function(self, *a):
            runs.append(1)
            if case.get("first_run_raises") and len(runs) == 1:
                raise RuntimeError("the evaluator failed")
            return None, "EXIT"

    runs = []
    if T.symbolic:
        sh = T.shadow([MB], stubs={(MB, "Plan"): FakePlan})
        cls = T.under_contract(sh, MB, "BasicOptimizer")
        for q in ("run", "set_abort_callback", "set_results_callback"):
            T.under_contract(sh, MB, "BasicOptimizer." + q)
        restore = None
    else:
        import ropt.plan._basic_optimizer as real

        restore = (real, real.Plan)
        real.Plan = FakePlan
        cls = real.BasicOptimizer
    try:
        # the object is made by its real constructor (real OptimizerContext); its callbacks are observed where the statement puts
        # them: at the observers of the context, by delivering events
        bo = cls({"variables": {"initial_values": [0.0]}}, lambda x, c: None)
        abort_cb = lambda: log.append("abort-check") or case["abort"]  # noqa: E731
        results_cb = lambda results: log.append(("results", results))  # noqa: E731
        if case["order"] == "abort-first":
            bo.set_abort_callback(abort_cb).set_results_callback(results_cb)
        else:
            bo.set_results_callback(results_cb).set_abort_callback(abort_cb)
        payload = ("r0", "r1")
        for run in (1, 2, 3):
            try:
                bo.run()
            except RuntimeError:
                T.prove("C15.basic.only_the_users_exception_escapes", bool(case.get("first_run_raises")) and run == 1)
            # after the first, the second and the third run of the SAME object: one event, one invocation of each callback
            for et in (EventType.START_EVALUATION, EventType.FINISHED_EVALUATION):
                del log[:]
                ev = Event(event_type=et, config=None, source="optimizer-step-id", data={"results": payload} if et == EventType.FINISHED_EVALUATION else {})
                try:
                    bo._optimizer_context.call_observers(ev)
                    raised = None
                except OptimizationAborted as exc:
                    raised = exc.exit_code
                if et == EventType.START_EVALUATION:
                    T.prove("C15.basic.start_of_an_evaluation_runs_the_abort_check_once_and_nothing_else", log == ["abort-check"] and (raised == OptimizerExitCode.USER_ABORT) == case["abort"], "run %d: %r" % (run, log))
                else:
                    T.prove("C15.basic.finished_evaluation_reports_the_results_once_and_nothing_else", log == [("results", payload)] and raised is None, "run %d: %r" % (run, log))
            for et in EventType:
                if et not in (EventType.START_EVALUATION, EventType.FINISHED_EVALUATION):
                    del log[:]
                    bo._optimizer_context.call_observers(Event(event_type=et, config=None, source="optimizer-step-id", data={}))
                    T.prove("C15.basic.other_events_reach_no_callback", log == [], "%s: %r" % (et.name, log))
    finally:
        if restore:
            restore[0].Plan = restore[1]


SCENARIOS = [
    Scenario("step_event_streams", scn, stepflow.cases, {"quick": 10, "thorough": 100}),
    Scenario("emit_event_over_plan_chains", scn_chain, cases_chain, {"quick": 2, "thorough": 10}),
    Scenario("nested_plan_abort", scn_nested, cases_nested, {"quick": 1, "thorough": 1}),
    Scenario("plan_steps_hand_over", scn_steps, cases_steps, {"quick": 1, "thorough": 2}),
    Scenario("basic_optimizer_callbacks", scn_callbacks, cases_callbacks, {"quick": 1, "thorough": 1}),
]

MANIFEST = {
    "category": "other",
    "text": "Exhaustive path exploration of the real step/plan/context code against a bounded non-deterministic environment: for every abort point and failure pattern the event stream, "
            "delivery order, exit code USER_ABORT, plan latch and refusal of further steps are checked against an executable reading of the documented semantics; emit_event over parent "
            "chains and nested-plan abort propagation separately. A contract check over all paths for that environment (runs bounded to 2 requests, nesting depth 3), not an unbounded proof.",
    "note": "event delivery over plan chains of depth <= 8 (40 thorough) plus the induction step for any depth (arbitrary parent by the contract of emit_event); bounded environment; single-threaded; SciPy assumed to propagate callback exceptions; EnsembleEvaluator.calculate by raises-contract",
    "technique": "contract-based verification of event/exception flow: symbolic-execution engine enumerating all environment choices over the real source, obligations per path; bounded run-time checking as stand-in",
}
