"""C06 - evaluator requests are complete and correctly labelled; inactive entries are inert.

Top-level contracts on EnsembleEvaluator.calculate (all three evaluation kinds) observed at the user's Evaluator callable,
plus _get_active_realizations and the immutability of every result field.
"""
from __future__ import annotations

import dataclasses
import itertools

import numpy as np

from contracts import harness as H
from roptvc.driver import Scenario

LEVEL = "other"
MG = "ropt.ensemble_evaluator._gradient"
MR = "ropt.ensemble_evaluator._evaluator_results"
EXPLANATION = (
    "Observed at the Evaluator callable and on the results of the real calculate, for symbolic variables, samples, weights and evaluator outputs: (labels) exactly one evaluator "
    "call per evaluation, whose rows are exactly the needed (vector, realization) / (realization, perturbation) combinations, each once, with the right labels and user-domain "
    "variables; (values) every reported per-realization value is the value the evaluator returned for the row with that label; (activity) an entry is flagged inactive only if its "
    "in-force weight is zero, and in a split gradient evaluation every zero-weight entry is flagged; (inertness, relational) two evaluator outputs that differ only in inactive "
    "entries give identical results; (frame) the evaluator's result object and arrays are unchanged after the call and every array stored in a result is a fresh read-only copy. "
    "Shapes R <= 3, P <= 2, N <= 2, batch <= 2 enumerated (thorough: R <= 4, P <= 3, N <= 3, batch <= 3)."
)
ASSUMPTIONS = [
    "least-squares solve as an uninterpreted function (contract stub); sampler interface contract",
    "the label layout is checked per enumerated shape (index arithmetic is concrete per shape); values are symbolic",
    "known finding C06.inert.filter_ranking: with a sort/CVaR filter, a realization whose configured weight is zero still takes part in the ranking",
    "bounded in shape only",
]


class _Tr:
    """Variable transform with a symbolic positive scale (interface contract: from_optimizer is element-wise)."""

    def __init__(self, s):
        self.s = s

    def from_optimizer(self, v):
        return v * self.s

    def __bool__(self):
        return True


def _all_arrays(obj, prefix=""):
    """Every ndarray reachable from a results object (dataclass fields, dict values)."""
    out = []
    if obj is None:
        return out
    if isinstance(obj, np.ndarray):
        return [(prefix, obj)]
    if dataclasses.is_dataclass(obj):
        for f in dataclasses.fields(obj):
            out += _all_arrays(getattr(obj, f.name), prefix + "." + f.name)
    elif isinstance(obj, dict):
        for k, v in obj.items():
            out += _all_arrays(v, prefix + "[%s]" % k)
    elif isinstance(obj, (tuple, list)):
        for i, v in enumerate(obj):
            out += _all_arrays(v, prefix + "[%d]" % i)
    return out


def _root(a):
    while isinstance(a, np.ndarray) and a.base is not None and isinstance(a.base, np.ndarray):
        a = a.base
    return a


def cases_requests(tier):
    quick = tier == "quick"
    for kind in ("functions", "both", "functions-then-gradients"):
        for (R, P, N, B) in ((2, 1, 1, 1), (2, 2, 2, 1), (3, 2, 1, 1), (2, 3, 1, 1)) + (() if quick else ((1, 1, 1, 1), (3, 1, 2, 1), (2, 3, 2, 1), (4, 2, 2, 1), (3, 3, 2, 1), (2, 2, 3, 1))):
            for tr in (False, True):
                for K in (0, 1):
                    yield "%s/R%dP%dN%dK%d/%s" % (kind, R, P, N, K, "transform" if tr else "plain"), {"kind": kind, "R": R, "P": P, "N": N, "B": B, "K": K, "tr": tr}
            # a realization whose objective is NaN while its constraint is not (and vice versa), with objective/constraint transforms
            yield "%s/R%dP%dN%dK1/objective-nan/function-transforms" % (kind, R, P, N), {"kind": kind, "R": R, "P": P, "N": N, "B": B, "K": 1, "tr": False, "fail": "objective", "otr": True}
            if (R, P, N) == (2, 1, 1):
                for only in ("objective-only", "constraint-only"):
                    yield "%s/R%dP%dN%dK1/function-transforms-%s" % (kind, R, P, N, only), {"kind": kind, "R": R, "P": P, "N": N, "B": B, "K": 1, "tr": False, "otr": only}
            yield "%s/R%dP%dN%dK1/objective-nan" % (kind, R, P, N), {"kind": kind, "R": R, "P": P, "N": N, "B": B, "K": 1, "tr": False, "fail": "objective", "otr": False}
            yield "%s/R%dP%dN%dK1/constraint-nan" % (kind, R, P, N), {"kind": kind, "R": R, "P": P, "N": N, "B": B, "K": 1, "tr": True, "fail": "constraint", "otr": False}
        if kind == "functions":
            yield "functions/R2N2K1/batch2", {"kind": kind, "R": 2, "P": 1, "N": 2, "B": 2, "K": 1, "tr": False}
            yield "functions/R3N1K0/batch2/transform", {"kind": kind, "R": 3, "P": 1, "N": 1, "B": 2, "K": 0, "tr": True}
            if not quick:
                yield "functions/R2N2K1/batch3", {"kind": kind, "R": 2, "P": 1, "N": 2, "B": 3, "K": 1, "tr": False}
                yield "functions/R3N2K1/batch3/transform", {"kind": kind, "R": 3, "P": 1, "N": 2, "B": 3, "K": 1, "tr": True}


def scn_requests(T, case):
    PFX = case.get("prefix", "C06")
    R, P, N, B, K, J = case["R"], case["P"], case["N"], case["B"], case["K"], 1
    ch = H.Chain(T, stubs={(MG, "_invert_linear_equations"): H.InvertContract(T)} if T.symbolic else None)
    x = T.real("x", (N,) if B == 1 else (B, N))
    S = T.real("samples", (R, P, N))
    scale = T.real("scale", (N,), lo=0.5, hi=2.0) if case["tr"] else None
    w = T.real("weights", (R,), lo=0.001)
    # the evaluator's table is indexed by the labels it is called with: (batch row, realization, perturbation or -1)
    tabO = T.real("tableO", (B, R, P + 1, J))
    tabC = T.real("tableC", (B, R, P + 1, K)) if K else None
    state = {"b_of_row": None}

    fail = case.get("fail")
    nanrow = T.np.array([np.nan])

    def fobj(v, r, p, k):
        b = state["b_of_row"][k] if state["b_of_row"] is not None else 0
        if fail == "objective" and r == 0:
            return nanrow
        return tabO[b, r, 0 if p is None or p < 0 else p + 1]

    def fcon(v, r, p, k):
        b = state["b_of_row"][k] if state["b_of_row"] is not None else 0
        if fail == "constraint" and r == 0:
            return nanrow
        return tabC[b, r, 0 if p is None or p < 0 else p + 1]

    infos, info_objects = [], []

    class Ev(H.ScriptedEvaluator):
        def __call__(self, variables, context):
            # batch row of a function request: rows come as (vector b, realization r) with r fastest
            state["b_of_row"] = [k // R for k in range(variables.shape[0])] if context.perturbations is None else None
            res = super().__call__(variables, context)
            buf = np.arange(float(variables.shape[0])) + 100.0 * len(infos)  # the evaluator's own bookkeeping buffer ...
            tag = buf[:]
            tag.setflags(write=False)  # ... handed out as a read-only view (the buffer itself is reused by the evaluator)
            res.evaluation_info = {"tag": tag}
            infos.append((buf, buf.copy()))
            info_objects.append((res, res.evaluation_info, tag))
            return res

    cfg = H.make_config(T, R, J, K, N, weights=w, ow=T.const(np.array([1.0])), P=P, min_success=1, pert_min_success=1, magnitudes=T.const(np.ones(N)))
    sev = Ev(T, ch, fobj, fcon if K else None)
    import types as _t

    # function transforms: both, or only one of them (the other member of the transforms object left at None)
    with_o = case.get("otr") in (True, "objective-only")
    with_c = case.get("otr") in (True, "constraint-only") and bool(K)
    ko = T.real("objective_scale", (), lo=0.5, hi=2.0) if with_o else None
    kc = T.real("constraint_scale", (), lo=0.5, hi=2.0) if with_c else None
    otr = _t.SimpleNamespace(to_optimizer=lambda o: o * ko) if with_o else None
    ctr = _t.SimpleNamespace(to_optimizer=lambda c: c * kc) if with_c else None
    transforms = _t.SimpleNamespace(variables=_Tr(scale) if case["tr"] else None, objectives=otr, nonlinear_constraints=ctr) if (case["tr"] or case.get("otr")) else None
    to_o = (lambda v: v * ko) if with_o else (lambda v: v)
    to_c = (lambda v: v * kc) if with_c else (lambda v: v)
    ev = H.make_evaluator(T, ch, cfg, sev, samplers=[H.FakeSampler(S)], transforms=transforms)
    user = (lambda v: v * scale) if case["tr"] else (lambda v: v)
    px = lambda r, p: x + S[r, p]  # noqa: E731  (magnitude 1, boundary type NONE)
    snapshot = []
    if case["kind"] == "functions":
        results = ev.calculate(x, compute_functions=True, compute_gradients=False)
        expect_calls = [[("f", b, r) for b in range(B) for r in range(R)]]
    elif case["kind"] == "both":
        results = ev.calculate(x, compute_functions=True, compute_gradients=True)
        expect_calls = [[("f", 0, r) for r in range(R)] + [("g", r, p) for r in range(R) for p in range(P)]]
    else:
        r1 = ev.calculate(x, compute_functions=True, compute_gradients=False)
        r2 = ev.calculate(x, compute_functions=False, compute_gradients=True)
        results = tuple(r1) + tuple(r2)
        expect_calls = [[("f", 0, r) for r in range(R)], [("g", r, p) for r in range(R) for p in range(P)]]
    T.prove(PFX + ".requests.one_evaluator_call_per_evaluation", len(sev.calls) == len(expect_calls))
    xs = [x] if B == 1 else [x[b] for b in range(B)]
    for call, expect in zip(sev.calls, expect_calls):
        V = call["variables"]
        T.prove(PFX + ".requests.exactly_the_needed_rows", V.shape[0] == len(expect) and len(call["realizations"]) == len(expect))
        if V.shape[0] != len(expect):
            continue
        # completeness: the multiset of labels is exactly the needed combinations, each once
        labels = []
        for k in range(len(expect)):
            r, p = call["realizations"][k], call["perturbations"][k]
            labels.append(("f", None, r) if p is None or p < 0 else ("g", r, p))
        want_labels = [("f", None, e[2]) if e[0] == "f" else e for e in expect]
        T.prove(PFX + ".requests.every_needed_combination_is_requested_exactly_once", sorted(map(str, labels)) == sorted(map(str, want_labels)))
        has_pert = any(e[0] == "g" for e in expect)
        T.prove(PFX + ".requests.perturbation_labels_present_iff_perturbed_rows_are_requested", (call["context"].perturbations is not None) == has_pert)
        # labels match the vector carried by the row, in user coordinates
        for k in range(len(expect)):
            r, p = call["realizations"][k], call["perturbations"][k]
            if p is None or p < 0:
                b = k // R if case["kind"] == "functions" else 0
                T.prove(PFX + ".requests.unperturbed_rows_carry_the_user_domain_vector", T.same(V[k], user(xs[b])))
            else:
                T.prove(PFX + ".requests.perturbed_rows_carry_the_labelled_user_domain_perturbation", T.same(V[k], user(px(r, p))))
    # every reported per-realization value is the (transformed) evaluator value for that label; rows of a failed realization are NaN
    ok_rows = [r for r in range(R) if not (fail and r == 0)]
    for ridx, res in enumerate(results):
        e = res.evaluations
        if hasattr(e, "perturbed_objectives"):
            T.prove(PFX + ".values.perturbed_values_are_the_evaluator_values_of_the_labelled_rows",
                    T.all([T.same(e.perturbed_objectives[r, p], to_o(tabO[0, r, p + 1])) for r in ok_rows for p in range(P)])
                    & (T.all([T.same(e.perturbed_constraints[r, p], to_c(tabC[0, r, p + 1])) for r in ok_rows for p in range(P)]) if K else True))
            T.prove(PFX + ".values.reported_perturbed_variables_are_those_evaluated", T.all([T.same(e.perturbed_variables[r, p], px(r, p)) for r in range(R) for p in range(P)]))
            if fail:
                T.prove(PFX + ".values.rows_of_failed_entries_are_nan", T.all([T.np.isnan(e.perturbed_objectives[0, p, 0]) for p in range(P)]) & (T.all([T.np.isnan(e.perturbed_constraints[0, p, 0]) for p in range(P)]) if K else True))
        else:
            b = ridx if case["kind"] == "functions" else 0
            T.prove(PFX + ".values.function_values_are_the_evaluator_values_of_the_labelled_rows",
                    T.all([T.same(e.objectives[r], to_o(tabO[b, r, 0])) for r in ok_rows]) & (T.all([T.same(e.constraints[r], to_c(tabC[b, r, 0])) for r in ok_rows]) if K else True))
            T.prove(PFX + ".values.reported_variables_are_those_evaluated", T.same(e.variables, xs[b]))
            if fail:
                T.prove(PFX + ".values.rows_of_failed_entries_are_nan", T.np.isnan(e.objectives[0, 0]) & (T.np.isnan(e.constraints[0, 0]) if K else True))
        T.prove(PFX + ".values.evaluation_info_is_reported", "tag" in e.evaluation_info)
    # frame: the evaluator's own object and arrays are untouched; results hold fresh read-only arrays
    roots = []
    for res_obj, objs, cons, objs0, cons0 in sev.returned:
        T.prove(PFX + ".frame.evaluator_result_object_not_assigned", res_obj.objectives is objs and res_obj.constraints is cons)
        T.prove(PFX + ".frame.evaluator_arrays_not_written", T.same(objs, objs0) & (T.same(cons, cons0) if cons is not None else True))
        roots += [id(_root(objs))] + ([id(_root(cons))] if cons is not None else [])
    for res_obj, info_dict, tag_view in info_objects:
        # ... including the dictionary of per-evaluation information the evaluator handed over: same dict, same keys, same arrays
        T.prove(PFX + ".frame.evaluator_info_dictionary_not_modified", res_obj.evaluation_info is info_dict and list(info_dict) == ["tag"] and info_dict["tag"] is tag_view
                and tuple(tag_view.shape) == (len(tag_view),))
    for tag, tag0 in infos:
        T.prove(PFX + ".frame.evaluator_arrays_not_written", bool(np.array_equal(tag, tag0)), "evaluation_info")
        roots.append(id(_root(tag)))
    for res in results:
        for name, arr in _all_arrays(res):
            T.prove(PFX + ".frame.result_arrays_are_read_only", not arr.flags.writeable, name)
            T.prove(PFX + ".frame.result_arrays_do_not_alias_the_evaluator_arrays", id(_root(arr)) not in roots, name)


# ------------------------------------------------------------------------------------ activity flags
def cases_activity(tier):
    for R, J, K in ((2, 1, 0), (3, 2, 1)) + (((4, 2, 2), (1, 1, 1)) if tier == "thorough" else ()):
        zero_sets = [z for z in itertools.product((False, True), repeat=R) if not all(z)]
        for zeros in zero_sets:
            yield "configured/R%dJ%dK%d/zero=%s" % (R, J, K, "".join("0" if z else "w" for z in zeros)), {"src": "config", "R": R, "J": J, "K": K, "zeros": list(zeros)}
        yield "configured/R%dJ%dK%d/symbolic" % (R, J, K), {"src": "config", "R": R, "J": J, "K": K, "zeros": None}
        yield "rows/R%dJ%dK%d/symbolic" % (R, J, K), {"src": "rows", "R": R, "J": J, "K": K, "zeros": None}


def scn_activity(T, case):
    import types as _t

    f = T.func(MR, "_get_active_realizations")
    R, J, K = case["R"], case["J"], case["K"]
    if case["zeros"] is None:
        w = T.real("weights", (R,), lo=0.0)
    else:
        pos = T.real("positive", (R,), lo=0.001)
        w = T.np.array([0.0 * pos[r] if case["zeros"][r] else pos[r] for r in range(R)])
    cfg = _t.SimpleNamespace(realizations=_t.SimpleNamespace(weights=w), objectives=_t.SimpleNamespace(weights=T.const(np.ones(J))),
                             nonlinear_constraints=None if not K else _t.SimpleNamespace(lower_bounds=T.const(np.zeros(K))))
    if case["src"] == "config":
        ao, ac = f(cfg)
        if ao is None:
            T.prove("C06.activity.none_only_if_every_realization_has_non_zero_weight", T.all([~(w[r] == 0) if T.symbolic else w[r] != 0 for r in range(R)]) & (ac is None))
            return
        T.prove("C06.activity.shapes", tuple(ao.shape) == (J, R) and (ac is None) == (K == 0) and (K == 0 or tuple(ac.shape) == (K, R)))
        for r in range(R):
            for j in range(J):
                T.prove("C06.activity.inactive_only_if_weight_is_zero", T.implies(~ao[j, r] if T.symbolic else not ao[j, r], w[r] == 0))
                T.prove("C06.activity.every_zero_weight_entry_is_flagged_inactive", T.implies(w[r] == 0, ~ao[j, r] if T.symbolic else not ao[j, r]))
            for k in range(K):
                T.prove("C06.activity.inactive_only_if_weight_is_zero", T.implies(~ac[k, r] if T.symbolic else not ac[k, r], w[r] == 0))
        return
    ow = T.real("objective_weight_rows", (J, R), lo=0.0)
    cw = T.real("constraint_weight_rows", (K, R), lo=0.0) if K else None
    ao, ac = f(cfg, objective_weights=ow, constraint_weights=cw)
    for r in range(R):
        for j in range(J):
            T.prove("C06.activity.split_gradient.active_iff_in_force_weight_non_zero", T.all([T.implies(~ao[j, r] if T.symbolic else not ao[j, r], ow[j, r] == 0), T.implies(ow[j, r] == 0, ~ao[j, r] if T.symbolic else not ao[j, r])]))
        for k in range(K):
            T.prove("C06.activity.split_gradient.active_iff_in_force_weight_non_zero", T.all([T.implies(~ac[k, r] if T.symbolic else not ac[k, r], cw[k, r] == 0), T.implies(cw[k, r] == 0, ~ac[k, r] if T.symbolic else not ac[k, r])]))


# ------------------------------------------------------------------------------------ activity flags as the evaluator sees them
def cases_activity_calls(tier):
    for omf, cmf in (([-1], [0]), ([0], [-1]), ([0], [0]), (None, None), ([-1], [-1]), ([0], None), (None, [0])):
        for zero_cfg in (False, True):
            yield "flt=%s,%s/configured-zero=%s" % (omf, cmf, zero_cfg), {"omf": omf, "cmf": cmf, "zero_cfg": zero_cfg}
            if omf is not None or cmf is not None:
                # a second function/gradient pair on the same evaluator, at another point, where the filter selects OTHER realizations:
                # the flags of the second gradient request follow the weights of the second function evaluation
                yield "flt=%s,%s/configured-zero=%s/second-pair-with-other-filter-weights" % (omf, cmf, zero_cfg), {"omf": omf, "cmf": cmf, "zero_cfg": zero_cfg, "second_pair": True}


def scn_activity_calls(T, case):
    """Function evaluation followed by a gradient-only evaluation at the same point (split evaluations): the flags handed to the
    evaluator are compared with the weights in force for every (function, realization) entry."""
    R, P, N, J, K = 3, 1, 1, 1, 1
    inv = H.InvertContract(T) if T.symbolic else None
    ch = H.Chain(T, stubs={(MG, "_invert_linear_equations"): inv} if T.symbolic else None)
    pos = T.real("positive_weights", (R,), lo=0.001)
    cfgw = T.np.array([pos[0], pos[1], 0.0 * pos[2] if case["zero_cfg"] else pos[2]])
    fw = T.real("filter_weights", (R,), lo=0.001)
    W = T.np.array([0.0 * fw[0], fw[1], fw[2]])  # the filter zeroes realization 0
    x, S = T.real("x", (N,)), T.real("samples", (R, P, N))
    vals = T.real("values", (R, P + 1, J + K))
    sev = H.ScriptedEvaluator(T, ch, lambda v, r, p, k: vals[r, 0 if p is None or p < 0 else p + 1, :J], lambda v, r, p, k: vals[r, 0 if p is None or p < 0 else p + 1, J:])
    cfg = H.make_config(T, R, J, K, N, weights=cfgw, ow=T.const(np.array([1.0])), P=P, min_success=1, pert_min_success=1, magnitudes=T.const(np.ones(N)),
                        omap_flt=case["omf"], cmap_flt=case["cmf"])
    flt = H.AbstractFilter(W)
    ev = H.make_evaluator(T, ch, cfg, sev, filters=[flt], samplers=[H.FakeSampler(S)])
    ev.calculate(x, compute_functions=True, compute_gradients=False)
    ev.calculate(x, compute_functions=False, compute_gradients=True)
    if case.get("second_pair"):
        fw2 = T.real("filter_weights_at_the_second_point", (R,), lo=0.001)
        W = T.np.array([fw2[0], 0.0 * fw2[1], fw2[2]])  # at the second point the filter zeroes realization 1 (and no longer 0)
        flt.w = W
        x2 = T.real("x_second", (N,))
        T.assume(T.any([(x2[i] - x[i] > 0.5) | (x[i] - x2[i] > 0.5) for i in range(N)]))
        del sev.calls[:]
        ev.calculate(x2, compute_functions=True, compute_gradients=False)
        ev.calculate(x2, compute_functions=False, compute_gradients=True)
    fctx, gctx = sev.calls[0]["context"], sev.calls[1]["context"]

    def in_force(fmap):
        return W if (fmap is not None and fmap[0] >= 0) else cfgw

    # first (function) call: only the configured weights are known
    for flags in (fctx.active_objectives, fctx.active_constraints):
        for r in range(R):
            zero = case["zero_cfg"] and r == 2
            if flags is None:
                T.prove("C06.calls.function_request.zero_configured_weights_are_flagged_inactive", not case["zero_cfg"])
            else:
                T.prove("C06.calls.function_request.inactive_only_if_configured_weight_is_zero", bool(flags[0, r]) == (not zero))
    # gradient-only call after the function call: flags follow the weights in force per function
    for name, flags, w in (("objective", gctx.active_objectives, in_force(case["omf"])), ("constraint", gctx.active_constraints, in_force(case["cmf"]))):
        for r in range(R):
            iszero = T.same(w[r], 0.0 * pos[0]) if T.symbolic else float(w[r]) == 0.0
            if flags is None:
                T.prove("C06.calls.split_gradient.every_zero_weight_%s_entry_is_flagged_inactive" % name, ~iszero if T.symbolic and not isinstance(iszero, (bool, np.bool_)) else not iszero)
            else:
                act = bool(flags[0, r])
                T.prove("C06.calls.split_gradient.every_zero_weight_%s_entry_is_flagged_inactive" % name, T.implies(iszero, not act))
                T.prove("C06.calls.split_gradient.%s_entries_inactive_only_if_weight_is_zero" % name, T.implies(not act, iszero) if not act else True)


    # the per-realization summary `context.active` (what an evaluator looks at that does not distinguish functions): a realization is
    # flagged inactive only if NO function needs it, i.e. the weights in force of every objective and constraint are zero for it
    for tag, ctx, wo, wc in (("function_request", fctx, cfgw, cfgw if K else None), ("split_gradient", gctx, in_force(case["omf"]), in_force(case["cmf"]) if K else None)):
        if ctx.active is None:
            continue
        for r in range(R):
            zo = T.same(wo[r], 0.0 * pos[0]) if T.symbolic else float(wo[r]) == 0.0
            zc = True if wc is None else (T.same(wc[r], 0.0 * pos[0]) if T.symbolic else float(wc[r]) == 0.0)
            if not bool(ctx.active[r]):
                T.prove("C06.calls.%s.realization_flagged_inactive_only_if_no_function_needs_it" % tag, T.all([zo, zc]))


# ------------------------------------------------------------------------------------ inertness (relational)
def cases_inert(tier):
    for kind in ("functions", "both", "functions-then-gradients"):
        for zero in ([0.5, 0.5, 0.0], [0.0, 1.0]) + (([1.0, 0.0, 0.0], [0.0, 0.25, 0.75, 0.0], [0.0, 0.5, 0.0, 0.5]) if tier == "thorough" else ()):
            for flt in (None, "abstract"):
                yield "%s/w=%s/filter=%s" % (kind, zero, flt), {"kind": kind, "w": zero, "flt": flt}
    yield "functions/w=[0.5, 0.5, 0.0]/filter=sort-objective", {"kind": "functions", "w": [0.5, 0.5, 0.0], "flt": "sort"}


def scn_inert(T, case):
    from ropt.exceptions import OptimizationAborted

    w = case["w"]
    R, P, N, J = len(w), 1, 1, 1
    inactive = [wi == 0 for wi in w]
    inv = H.InvertContract(T) if T.symbolic else None
    ch = H.Chain(T, stubs={(MG, "_invert_linear_equations"): inv} if T.symbolic else None)
    x = T.real("x", (N,))
    S = T.real("samples", (R, P, N))
    base = T.real("values", (R, P + 1, J))
    garbage = [T.real("garbage%d" % run, (R, P + 1, J)) for run in range(2)]
    Wf = T.real("filter_weights", (R,), lo=0.0)
    outs = []
    for run in range(2):
        def fobj(v, r, p, k, run=run):
            idx = 0 if p is None or p < 0 else p + 1
            return garbage[run][r, idx] if inactive[r] else base[r, idx]

        filters, omf = [], None
        if case["flt"] == "abstract":
            # a third-party filter that honours the activity contract: zero weight on inactive realizations, independent of their values
            filters, omf = [H.AbstractFilter(T.np.array([0.0 * Wf[r] if inactive[r] else Wf[r] for r in range(R)]))], [0]
        elif case["flt"] == "sort":
            from contracts.C05 import _filter
            import types as _t

            fcfg = _t.SimpleNamespace(objectives=_t.SimpleNamespace(weights=T.const(np.array([1.0]))), realizations=_t.SimpleNamespace(weights=T.const(np.array(w))), nonlinear_constraints=None)
            flt = _filter(T, "sort-objective", {"sort": [0], "first": 0, "last": 0}, fcfg) if not T.symbolic else None
            if T.symbolic:
                cls = ch.get("ropt.plugins.realization_filter.default", "DefaultRealizationFilter")
                flt = object.__new__(cls)
                flt._enopt_config, flt._method = fcfg, "sort-objective"
                flt._filter_options = ch.sh.ns["ropt.plugins.realization_filter.default"]["SortObjectiveOptions"].model_construct(sort=[0], first=0, last=0)
            filters, omf = [flt], [0]
        cfg = H.make_config(T, R, J, 0, N, weights=T.const(np.array(w)), ow=T.const(np.array([1.0])), P=P, min_success=1, pert_min_success=1,
                            magnitudes=T.const(np.ones(N)), omap_flt=omf)
        sev = H.ScriptedEvaluator(T, ch, fobj)
        ev = H.make_evaluator(T, ch, cfg, sev, samplers=[H.FakeSampler(S)], filters=filters)
        try:
            if case["kind"] == "functions":
                res = ev.calculate(x, compute_functions=True, compute_gradients=False)
            elif case["kind"] == "both":
                res = ev.calculate(x, compute_functions=True, compute_gradients=True)
            else:
                res = tuple(ev.calculate(x, compute_functions=True, compute_gradients=False)) + tuple(ev.calculate(x, compute_functions=False, compute_gradients=True))
        except OptimizationAborted:
            res = "aborted"
        outs.append(res)
    key = "C06.inert.filter_ranking" if case["flt"] == "sort" else "C06.inert.inactive_entries_do_not_influence_results"
    a, b = outs
    if a == "aborted" or b == "aborted":
        T.prove(key, a == b, "one run aborted, the other did not")
        return
    for ra, rb in zip(a, b):
        T.prove(key, [bool(v) for v in ra.realizations.failed_realizations] == [bool(v) for v in rb.realizations.failed_realizations], "failed flags")
        if hasattr(ra, "functions"):
            T.prove(key, (ra.functions is None) == (rb.functions is None))
            if ra.functions is not None and rb.functions is not None:
                T.prove(key, T.same(ra.functions.objectives, rb.functions.objectives) & T.same(ra.functions.weighted_objective, rb.functions.weighted_objective), "functions")
        else:
            T.prove(key, (ra.gradients is None) == (rb.gradients is None))
            if ra.gradients is not None and rb.gradients is not None:
                T.prove(key, T.same(ra.gradients.objectives, rb.gradients.objectives) & T.same(ra.gradients.weighted_objective, rb.gradients.weighted_objective), "gradients")


# ------------------------------------------------------------------------------------ user-domain results (shared contract)
def cases_user_results(tier):
    from contracts import backtransform

    return backtransform.cases(tier)


def scn_user_results(T, case):
    from contracts import backtransform

    backtransform.scenario(T, case, "C06")


# ------------------------------------------------------------------------------------ values reported next to a built-in filter
def cases_chain(tier):
    from contracts import integration

    for cid, c in integration.cases_filter_chain(("sort-constraint", "cvar-constraint", "sort-objective"), tier):
        if c["variant"] in ("plain", "second-call") and c["bounds"] == "upper":
            yield cid, c


def scn_chain(T, case):
    """'Every value in the reported results is the value the evaluator returned for the row with that label' also when a built-in
    realization filter has looked at the values: the filter works on copies, the reported per-realization values are untouched
    (the integration scenario of C04/C05 under this property's prefix)."""
    from contracts import integration

    integration.scn_filter_chain(T, case, "C06")


# ------------------------------------------------------------------------------------ what the plan steps hand on (shared contract)
def cases_steps(tier):
    from contracts import stepcontract

    return stepcontract.cases(tier)


def scn_steps(T, case):
    from contracts import stepcontract

    stepcontract.scenario(T, case, "C06")


SCENARIOS = [
    Scenario("requests_labels_values_frame", scn_requests, cases_requests, {"quick": 3, "thorough": 20}),
    Scenario("activity_flags", scn_activity, cases_activity, {"quick": 10, "thorough": 60}),
    Scenario("activity_flags_at_the_evaluator", scn_activity_calls, cases_activity_calls, {"quick": 5, "thorough": 40}),
    Scenario("inertness", scn_inert, cases_inert, {"quick": 5, "thorough": 40}),
    Scenario("user_domain_results", scn_user_results, cases_user_results, {"quick": 3, "thorough": 20}),
    Scenario("values_reported_next_to_a_built_in_filter", scn_chain, cases_chain, {"quick": 2, "thorough": 10}),
    Scenario("plan_steps_hand_over", scn_steps, cases_steps, {"quick": 1, "thorough": 2}),
]

MANIFEST = {
    "category": "other",
    "text": "Deductive (level 'other' only because one obligation is a recorded known finding, so discharged < obligations): completeness and labelling of every evaluator request, value-by-label, activity flags, inertness of inactive entries (relational, two runs), and the frame "
            "conditions (evaluator's object/arrays untouched, every result array a fresh read-only copy, enumerated mechanically over all dataclass fields of the results) are "
            "discharged by z3 on the real calculate for all real values; complete per enumerated shape. One known finding (zero-weight realizations take part in filter rankings).",
    "note": "least-squares solve by contract stub; shapes enumerated (R<=3,P<=3,N<=2,batch<=2); aliasing is decided by NumPy's own view/copy behaviour on object arrays (base-chain identity)",
    "technique": "contract-based deductive verification: symbolic execution of the real source under sidecar contracts (frame and relational obligations), VCs discharged by z3/cvc5; bounded run-time contract checking as stand-in",
}
