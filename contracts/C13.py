"""C13 - constraint differences and violations are reported exactly for all bound kinds.

Functions under contract:
  ropt.results._constraint_info:ConstraintInfo.create / __post_init__ / transform_from_optimizer
  ropt.results._utils:_immutable_copy
  ropt.plugins.plan._utils:_violates_constraint
"""
from __future__ import annotations

import itertools
import types

import numpy as np

from roptvc.driver import Scenario

LEVEL = "proof"
EXPLANATION = (
    "For every enumerated combination of finite/infinite lower and upper bounds (variables, linear rows, non-linear rows) and for all real "
    "values of variables, coefficients, bounds and constraint values, the real bodies of ConstraintInfo.create/__post_init__ are proved to "
    "report diff = value - bound and violation = max(lower - value, value - upper, 0), the bound group to be present whenever any bound is "
    "finite, every stored array to be a fresh read-only copy; transform_from_optimizer to apply the transform's difference maps and recompute "
    "the violations; _violates_constraint(r, tol) <=> some violation > tol. The code is element-wise apart from A.x (a fold), so the proof is "
    "complete per enumerated shape (<= 2 variables, <= 2 linear rows, <= 2 non-linear rows; 3 each and all groups together in the thorough tier) with all values symbolic."
)
ASSUMPTIONS = [
    "values, coefficients and finite bounds are finite reals (not NaN); infinite bounds are -inf below / +inf above",
    "VariableTransform.bound_constraint_diffs_from_optimizer / linear_constraints_diffs_from_optimizer and "
    "NonLinearConstraintTransform.nonlinear_constraint_diffs_from_optimizer are arbitrary positive element-wise scalings (interface contract; C11 for the built-in scaler)",
]
M_INFO = "ropt.results._constraint_info"
M_UTIL = "ropt.results._utils"


def _kinds(seq, inf):
    return np.array([inf if k == "inf" else "fin" for k in seq], dtype=object)


def spec_violation(T, value, lb, ub):
    """max(lower - value, value - upper, 0), element-wise, from the statement."""
    zero = 0.0 * value
    return T.np.maximum(T.np.maximum(lb - value, value - ub), zero)


def _check_group(T, tag, info_lower, info_upper, info_viol, values, lb, ub):
    T.prove("C13.%s.lower_diff_is_value_minus_lower" % tag, T.same(info_lower, values - lb))
    T.prove("C13.%s.upper_diff_is_value_minus_upper" % tag, T.same(info_upper, values - ub))
    T.prove("C13.%s.violation_is_max_of_excess" % tag, T.same(info_viol, spec_violation(T, values, lb, ub)))
    for i in range(len(lb)):
        outside = (values[i] < lb[i]) | (values[i] > ub[i])
        T.prove("C13.%s.outside_finite_bound_gives_positive_violation" % tag, T.implies(outside, info_viol[i] > 0))
        T.prove("C13.%s.inside_gives_zero_violation" % tag, T.implies(~outside, T.same(info_viol[i], 0.0 * values[i])))
    for arr in (info_lower, info_upper, info_viol):
        T.prove("C13.%s.stored_arrays_read_only" % tag, not arr.flags.writeable)


# ------------------------------------------------------------------------------- scenario: create
def cases_create(tier):
    kinds = ("fin", "inf")
    # variable bounds: every kind combination for 1 and 2 variables
    for n in (1, 2) + ((3,) if tier == "thorough" else ()):
        for lk in itertools.product(kinds, repeat=n):
            for uk in itertools.product(kinds, repeat=n):
                yield "bounds/n%d/%s/%s" % (n, "".join(k[0] for k in lk), "".join(k[0] for k in uk)), {"n": n, "lk": list(lk), "uk": list(uk), "lin": 0, "nl": 0}
                if n == 2:
                    # with a variable mask: the bounds of a FIXED variable are bounds too (a fixed variable outside its finite bound is a violation)
                    yield "bounds/n%d/%s/%s/second-variable-fixed" % (n, "".join(k[0] for k in lk), "".join(k[0] for k in uk)), {"n": n, "lk": list(lk), "uk": list(uk), "lin": 0, "nl": 0, "mask": [True, False]}
    # linear and non-linear rows: every kind per row, up to 2 rows (3 in thorough for non-linear)
    for rows in (1, 2) + ((3,) if tier == "thorough" else ()):
        for lk in itertools.product(kinds, repeat=rows):
            for uk in itertools.product(kinds, repeat=rows):
                cid = "%s/%s" % ("".join(k[0] for k in lk), "".join(k[0] for k in uk))
                yield "linear/r%d/%s" % (rows, cid), {"n": 2, "lk": ["inf", "inf"], "uk": ["inf", "inf"], "lin": rows, "lin_lk": list(lk), "lin_uk": list(uk), "nl": 0}
                yield "nonlinear/r%d/%s" % (rows, cid), {"n": 1, "lk": ["fin"], "uk": ["inf"], "lin": 0, "nl": rows, "nl_lk": list(lk), "nl_uk": list(uk)}
    if tier == "thorough":
        # all three groups together, every kind pattern of two entries shared by the groups, plus mixed patterns
        for lk in itertools.product(kinds, repeat=2):
            for uk in itertools.product(kinds, repeat=2):
                cid = "%s/%s" % ("".join(k[0] for k in lk), "".join(k[0] for k in uk))
                yield "all/%s" % cid, {"n": 2, "lk": list(lk), "uk": list(uk), "lin": 2, "lin_lk": list(uk), "lin_uk": list(lk), "nl": 2, "nl_lk": list(lk)[::-1], "nl_uk": list(uk)[::-1]}


def _make(T, case):
    n = case["n"]
    x = T.real("x", (n,))
    lb = T.real("lb", (n,), kinds=_kinds(case["lk"], "-inf"))
    ub = T.real("ub", (n,), kinds=_kinds(case["uk"], "+inf"))
    T.assume(T.all(lb <= ub))
    lin = nl = None
    cvals = None
    if case["lin"]:
        r = case["lin"]
        A = T.real("A", (r, n))
        llb = T.real("llb", (r,), kinds=_kinds(case["lin_lk"], "-inf"))
        lub = T.real("lub", (r,), kinds=_kinds(case["lin_uk"], "+inf"))
        T.assume(T.all(llb <= lub))
        lin = types.SimpleNamespace(coefficients=A, lower_bounds=llb, upper_bounds=lub)
    if case["nl"]:
        r = case["nl"]
        nlb = T.real("nlb", (r,), kinds=_kinds(case["nl_lk"], "-inf"))
        nub = T.real("nub", (r,), kinds=_kinds(case["nl_uk"], "+inf"))
        T.assume(T.all(nlb <= nub))
        nl = types.SimpleNamespace(lower_bounds=nlb, upper_bounds=nub)
        cvals = T.real("c", (r,))
    cfg = types.SimpleNamespace(variables=types.SimpleNamespace(lower_bounds=lb, upper_bounds=ub, mask=None if case.get("mask") is None else np.array(case["mask"], dtype=bool),
                                                                initial_values=x.copy(), types=None),
                                linear_constraints=lin, nonlinear_constraints=nl)
    return cfg, x, cvals


def scn_create(T, case):
    sh = T.shadow([M_INFO, M_UTIL])
    CI = T.under_contract(sh, M_INFO, "ConstraintInfo") if T.symbolic else T.func(M_INFO, "ConstraintInfo")
    if T.symbolic:
        T.under_contract(sh, M_INFO, "ConstraintInfo.create")
        T.under_contract(sh, M_INFO, "ConstraintInfo.__post_init__")
        T.under_contract(sh, M_UTIL, "_immutable_copy")
    cfg, x, cvals = _make(T, case)
    x0 = x.copy()
    info = CI.create(cfg, x, cvals)
    T.prove("C13.create.arguments_not_modified", T.same(x, x0))
    any_finite = any(k == "fin" for k in case["lk"] + case["uk"])
    if info is None:
        T.prove("C13.create.none_only_without_any_constraint", (not any_finite) and not case["lin"] and not case["nl"])
        return
    # the bound group is omitted only if no bound of the group is finite
    T.prove("C13.create.bound_info_present_if_any_finite", (info.bound_lower is not None and info.bound_upper is not None and info.bound_violation is not None) or not any_finite)
    if info.bound_lower is not None:
        _check_group(T, "bounds", info.bound_lower, info.bound_upper, info.bound_violation, x0, cfg.variables.lower_bounds, cfg.variables.upper_bounds)
    T.prove("C13.create.linear_info_present_iff_configured", (info.linear_lower is not None and info.linear_violation is not None) == bool(case["lin"]))
    if case["lin"] and info.linear_lower is not None:
        lc = cfg.linear_constraints
        values = T.np.array([sum(lc.coefficients[i, j] * x0[j] for j in range(case["n"])) for i in range(case["lin"])])
        _check_group(T, "linear", info.linear_lower, info.linear_upper, info.linear_violation, values, lc.lower_bounds, lc.upper_bounds)
    T.prove("C13.create.nonlinear_info_present_iff_values_given", (info.nonlinear_lower is not None and info.nonlinear_violation is not None) == bool(case["nl"]))
    if case["nl"] and info.nonlinear_lower is not None:
        nc = cfg.nonlinear_constraints
        _check_group(T, "nonlinear", info.nonlinear_lower, info.nonlinear_upper, info.nonlinear_violation, cvals, nc.lower_bounds, nc.upper_bounds)


# ------------------------------------------------------------------------------- scenario: transform_from_optimizer
class _VarTr:
    def __init__(self, s, e):
        self.s, self.e = s, e

    def bound_constraint_diffs_from_optimizer(self, lower, upper):
        return lower * self.s, upper * self.s

    def linear_constraints_diffs_from_optimizer(self, lower, upper):
        return lower * self.e, upper * self.e


class _NlTr:
    def __init__(self, s):
        self.s = s

    def nonlinear_constraint_diffs_from_optimizer(self, lower, upper):
        return lower * self.s, upper * self.s


def cases_transform(tier):
    # every combination of: variable transform / non-linear transform configured, and which difference groups the result carries
    for var_tr in (False, True):
        for nl_tr in (False, True):
            for has_b, has_l, has_nl in itertools.product((False, True), repeat=3):
                if not (has_b or has_l or has_nl):
                    continue
                yield "var=%s/nl=%s/groups=%d%d%d" % (var_tr, nl_tr, has_b, has_l, has_nl), {"var_tr": var_tr, "nl_tr": nl_tr, "has_b": has_b, "has_l": has_l, "has_nl": has_nl}
                if tier == "thorough":
                    for n, r in ((1, 2), (3, 2), (3, 3)):
                        yield "var=%s/nl=%s/groups=%d%d%d/n%d/r%d" % (var_tr, nl_tr, has_b, has_l, has_nl, n, r), {"var_tr": var_tr, "nl_tr": nl_tr, "has_b": has_b, "has_l": has_l, "has_nl": has_nl, "n": n, "r": r}


def scn_transform(T, case):
    PFX = case.get("prefix", "C13")
    sh = T.shadow([M_INFO, M_UTIL])
    CI = T.under_contract(sh, M_INFO, "ConstraintInfo") if T.symbolic else T.func(M_INFO, "ConstraintInfo")
    if T.symbolic:
        T.under_contract(sh, M_INFO, "ConstraintInfo.transform_from_optimizer")
    n, r = case.get("n", 2), case.get("r", 1)
    kw = {}
    if case["has_b"]:
        bl, bu = T.real("bl", (n,)), T.real("bu", (n,))
        kw.update(bound_lower=bl, bound_upper=bu)
    if case["has_l"]:
        ll, lu = T.real("ll", (r,)), T.real("lu", (r,))
        kw.update(linear_lower=ll, linear_upper=lu)
    if case["has_nl"]:
        nl_l, nl_u = T.real("nl", (r,)), T.real("nu", (r,))
        kw.update(nonlinear_lower=nl_l, nonlinear_upper=nl_u)
    info = CI(**kw)
    s = T.real("s", (n,), lo=0.001)
    e = T.real("e", (r,), lo=0.001)
    k = T.real("k", (r,), lo=0.001)
    tr = types.SimpleNamespace(variables=_VarTr(s, e) if case["var_tr"] else None, nonlinear_constraints=_NlTr(k) if case["nl_tr"] else None)
    try:
        out = info.transform_from_optimizer(tr)
    except AssertionError:
        T.fail(PFX + ".transform.no_internal_assertion", "AssertionError in transform_from_optimizer")
        return
    fs = s if case["var_tr"] else 1.0
    fe = e if case["var_tr"] else 1.0
    if case["has_b"]:
        T.prove(PFX + ".transform.bound_diffs_scaled_back", T.same(out.bound_lower, bl * fs) & T.same(out.bound_upper, bu * fs))
        T.prove(PFX + ".transform.bound_violation_recomputed", T.same(out.bound_violation, T.np.maximum(T.np.maximum(-(bl * fs), bu * fs), 0.0 * bl)))
    else:
        T.prove(PFX + ".transform.no_bound_info_invented", out.bound_lower is None and out.bound_violation is None)
    if case["has_l"]:
        T.prove(PFX + ".transform.linear_diffs_scaled_back", T.same(out.linear_lower, ll * fe) & T.same(out.linear_upper, lu * fe))
        T.prove(PFX + ".transform.linear_violation_recomputed", T.same(out.linear_violation, T.np.maximum(T.np.maximum(-(ll * fe), lu * fe), 0.0 * ll)))
    else:
        T.prove(PFX + ".transform.no_linear_info_invented", out.linear_lower is None and out.linear_violation is None)
    if case["has_nl"]:
        fk = k if case["nl_tr"] else 1.0
        T.prove(PFX + ".transform.nonlinear_diffs_scaled_back", T.same(out.nonlinear_lower, nl_l * fk) & T.same(out.nonlinear_upper, nl_u * fk))
        T.prove(PFX + ".transform.nonlinear_violation_recomputed", T.same(out.nonlinear_violation, T.np.maximum(T.np.maximum(-(nl_l * fk), nl_u * fk), 0.0 * nl_l)))
    else:
        T.prove(PFX + ".transform.no_nonlinear_info_invented", out.nonlinear_lower is None and out.nonlinear_violation is None)


# ------------------------------------------------------------------------------- scenario: _violates_constraint
def cases_violates(tier):
    for tol in ("none", "zero", "sym"):
        for groups in itertools.product((False, True), repeat=3):
            yield "tol=%s/groups=%s" % (tol, "".join("1" if g else "0" for g in groups)), {"tol": tol, "groups": list(groups)}
            if tier == "thorough":
                for m in (1, 3):
                    yield "tol=%s/groups=%s/m%d" % (tol, "".join("1" if g else "0" for g in groups), m), {"tol": tol, "groups": list(groups), "m": m}
    yield "no-info", {"tol": "sym", "groups": None}


def scn_violates(T, case):
    from ropt.results import FunctionResults  # the real class: _violates_constraint asserts isinstance

    f = T.func("ropt.plugins.plan._utils", "_violates_constraint")
    viols = []
    if case["groups"] is None:
        info = None
    else:
        vals = {}
        for name, present in zip(("bound_violation", "linear_violation", "nonlinear_violation"), case["groups"]):
            vals[name] = T.real(name, (case.get("m", 2),), lo=0.0) if present else None
            if present:
                viols.append(vals[name])
        info = types.SimpleNamespace(**vals)
    res = FunctionResults(batch_id=None, metadata={}, evaluations=None, realizations=None, functions=None, constraint_info=info)
    tol = None if case["tol"] == "none" else (0.0 if case["tol"] == "zero" else T.real("tol", (), lo=0.0))
    got = f(res, tol)
    if tol is None:
        T.prove("C13.violates.no_tolerance_means_feasible", got is False or got == False)  # noqa: E712
        return
    expect = T.any([v[i] > tol for v in viols for i in range(case.get("m", 2))])
    T.prove("C13.violates.iff_some_violation_exceeds_tolerance", _iff(T, got, expect))


def _iff(T, got, expect):
    # `got` is a concrete bool on each explored path (the code branched on it); `expect` may be symbolic
    if bool(got):
        return expect
    return ~expect if T.symbolic and not isinstance(expect, (bool, np.bool_)) else (not bool(expect))


# ------------------------------------------------------------------------------- scenario: the built-in variable scaler end to end
def cases_scaler(tier):
    for which in ("s", "so", "o"):
        for lk, uk in (("fin", "fin"), ("-inf", "fin"), ("fin", "+inf")):
            yield "%s/%s/%s" % (which, lk, uk), {"which": which, "lk": lk, "uk": uk}


def scn_scaler(T, case):
    """The quantifier of C13 includes transforms: with the real VariableScaler (scales only, offsets only, both) the reported
    differences of a result computed in optimizer coordinates are value - bound IN THE USER DOMAIN (C11 proves the same against
    the untransformed run; here the reference is the formula of the statement)."""
    from contracts import C11

    PFX = "C13"
    sh = C11._shadow(T, [C11.MV, M_INFO, "ropt.results._utils"])
    n = 2
    s, o = C11._so(T, n, case["which"], given=True)
    sc = C11._scaler(T, s, o)
    CI = T.under_contract(sh, M_INFO, "ConstraintInfo") if T.symbolic else T.func(M_INFO, "ConstraintInfo")
    if T.symbolic:
        T.under_contract(sh, M_INFO, "ConstraintInfo.transform_from_optimizer")
        T.under_contract(sh, M_INFO, "ConstraintInfo.create")
    x = T.real("x", (n,))
    kinds = lambda k: np.array([k, "fin"], dtype=object)  # noqa: E731
    lb, ub = T.real("lb", (n,), kinds=kinds(case["lk"])), T.real("ub", (n,), kinds=kinds(case["uk"]))
    A = T.real("A", (1, n))
    T.assume(T.any([~T.same(A[0, i], 0.0 * A[0, i]) if T.symbolic else A[0, i] != 0 for i in range(n)]))
    llb, lub = T.real("llb", (1,), kinds=np.array([case["lk"]], dtype=object)), T.real("lub", (1,), kinds=np.array([case["uk"]], dtype=object))
    Ah, lh_, uh_ = sc.linear_constraints_to_optimizer(A, llb, lub)
    cfg_opt = types.SimpleNamespace(variables=types.SimpleNamespace(lower_bounds=sc.to_optimizer(lb), upper_bounds=sc.to_optimizer(ub)),
                                    linear_constraints=types.SimpleNamespace(coefficients=Ah, lower_bounds=lh_, upper_bounds=uh_), nonlinear_constraints=None)
    tr = types.SimpleNamespace(variables=sc, objectives=None, nonlinear_constraints=None)
    back = CI.create(cfg_opt, sc.to_optimizer(x), None).transform_from_optimizer(tr)
    eq = (lambda a, b: T.same(a, b)) if T.symbolic else (lambda a, b: T.close(a, b, 1e-9))
    zero = 0.0 * x[0]
    v = T.total([A[0, i] * x[i] for i in range(n)])
    T.prove(PFX + ".scaler.bound_differences_are_value_minus_bound_in_the_user_domain", T.all([eq(back.bound_lower[i], x[i] - lb[i]) & eq(back.bound_upper[i], x[i] - ub[i]) for i in range(n)]))
    T.prove(PFX + ".scaler.bound_violation_is_max_of_lower_minus_value_value_minus_upper_zero", T.all([eq(back.bound_violation[i], T.np.maximum(T.np.maximum(lb[i] - x[i], x[i] - ub[i]), zero)) for i in range(n)]))
    T.prove(PFX + ".scaler.linear_differences_are_value_minus_bound_in_the_user_domain", eq(back.linear_lower[0], v - llb[0]) & eq(back.linear_upper[0], v - lub[0]))
    T.prove(PFX + ".scaler.linear_violation_is_max_of_lower_minus_value_value_minus_upper_zero", eq(back.linear_violation[0], T.np.maximum(T.np.maximum(llb[0] - v, v - lub[0]), zero)))


# ------------------------------------------------------------------------------------ user-domain results (shared contract)
def cases_user_results(tier):
    from contracts import backtransform

    return backtransform.cases(tier)


def scn_user_results(T, case):
    from contracts import backtransform

    backtransform.scenario(T, case, "C13")


# ------------------------------------------------------------------------------------ what the plan steps hand on (shared contract)
def cases_steps(tier):
    from contracts import stepcontract

    return stepcontract.cases(tier)


def scn_steps(T, case):
    from contracts import stepcontract

    stepcontract.scenario(T, case, "C13")


# ------------------------------------------------------------------------------------ a variable scaler that has served another configuration before
def cases_scaler_reuse(tier):
    from contracts import C11

    for cid, c in C11.cases_linear(tier):
        if c.get("prior"):
            yield cid, c


def scn_scaler_reuse(T, case):
    """The user-domain linear differences and violations of a result are those of THIS configuration's constraints also when the scaler object has served another configuration before (C11's linear-constraint scenario with a used scaler, under this property's prefix)."""
    from contracts import C11
    from contracts.reuse import Renamed

    C11.scn_linear(Renamed(T, "C11.linear.", "C13.scaler_reuse."), case)


# ------------------------------------------------------------------- feasibility of the results a tracker keeps (C12's step contract)
def cases_tracked(tier):
    from contracts import C12

    for cid, c in C12.cases_step(tier):
        if c["tol"] != "none" and not c.get("ignore") and (c["flip"] or len(c["kinds"]) == 1):
            yield cid, c


def scn_tracked(T, case):
    """'A result is treated as feasible iff every violation is within the tolerance' where results are selected: the 'best' and the
    'last' tracker judge every delivered result by its violation in the domain the optimizer works in (the transformed results of
    the event when there are any), both alike (C12's tracker step contract under this property's prefix)."""
    from contracts import C12
    from contracts.reuse import Renamed

    C12.scn_step(Renamed(T, "C12.", "C13.tracked."), case)


SCENARIOS = [
    Scenario("create", scn_create, cases_create, {"quick": 6, "thorough": 60}),
    Scenario("transform_from_optimizer", scn_transform, cases_transform, {"quick": 10, "thorough": 100}),
    Scenario("violates_constraint", scn_violates, cases_violates, {"quick": 10, "thorough": 100}),
    Scenario("variable_scaler_end_to_end", scn_scaler, cases_scaler, {"quick": 10, "thorough": 100}),
    Scenario("user_domain_results", scn_user_results, cases_user_results, {"quick": 3, "thorough": 20}),
    Scenario("plan_steps_hand_over", scn_steps, cases_steps, {"quick": 1, "thorough": 2}),
    Scenario("scaler_object_reused_for_another_configuration", scn_scaler_reuse, cases_scaler_reuse, {"quick": 5, "thorough": 30}),
    Scenario("feasibility_of_tracked_results", scn_tracked, cases_tracked, {"quick": 5, "thorough": 30}),
]

MANIFEST = {
    "category": "proof",
    "text": "Deductive: post-conditions from the statement of C13 (diff = value - bound, violation = max(lower - value, value - upper, 0), presence of "
            "each group, read-only copies, back-transformation, feasibility <=> no violation above the tolerance) discharged by z3 on the real bodies "
            "for all real values and every finite/infinite bound kind; complete per enumerated shape (<= 2 entries per group, 3 in the thorough tier).",
    "note": "floats as extended reals; shapes enumerated (the code is element-wise except A.x); transform interfaces assumed to be positive scalings; the way the tracker uses _violates_constraint is C12",
    "technique": "contract-based deductive verification: symbolic execution of the real source under sidecar contracts, VCs discharged by z3/cvc5; bounded run-time contract checking as stand-in",
}
