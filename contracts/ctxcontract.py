"""Shared scenario: every OptimizerContext (and hence every BasicOptimizer / plan made without an explicit plug-in manager) owns a
plug-in manager of its own.  C19 ('registrations on one manager never affect another manager') and C16 ('independent of other
optimizations in the process and of whether plug-in managers are reused') rest on it."""
from __future__ import annotations

import types

MC = "ropt.plan._context"


def cases(tier):
    yield "two-default-contexts-and-an-explicit-manager", {}


def scenario(T, case, prefix):
    made = []

    class FakeManager:
        def __init__(self):
            made.append(self)

    stubs = {(MC, "PluginManager"): FakeManager}
    restore = None
    if T.symbolic:
        sh = T.shadow([MC], stubs)
        cls = T.under_contract(sh, MC, "OptimizerContext", stubs)
        T.under_contract(sh, MC, "OptimizerContext.__init__", stubs)
    else:
        import importlib

        real = importlib.import_module(MC)
        restore = (real, real.PluginManager)
        real.PluginManager = FakeManager
        cls = real.OptimizerContext
    try:
        ev = lambda *a: None  # noqa: E731
        a, b = cls(evaluator=ev), cls(evaluator=ev)
        mine = types.SimpleNamespace()
        c = cls(evaluator=ev, plugin_manager=mine)
        d = cls(evaluator=ev)
    finally:
        if restore:
            restore[0].PluginManager = restore[1]
    T.prove(prefix + ".context.every_default_context_builds_a_plugin_manager_of_its_own",
            len(made) == 3 and a.plugin_manager is made[0] and b.plugin_manager is made[1] and d.plugin_manager is made[2] and len({id(m) for m in made}) == 3)
    T.prove(prefix + ".context.an_explicit_plugin_manager_is_used_as_it_is", c.plugin_manager is mine)
    T.prove(prefix + ".context.the_users_evaluator_is_kept", a.evaluator is ev)
