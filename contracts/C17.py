"""C17 - samplers obey the perturbation-sample contract, including QMC point integrity.

Functions under contract: ropt.plugins.sampler.scipy:SciPySampler.__init__ / generate_samples / _generate_stats_samples /
_generate_qmc_samples / _init_sampler / _set_options.  SciPy's distributions and QMC engines are used by library contract.
"""
from __future__ import annotations

import itertools
import types

import numpy as np

from roptvc.driver import Scenario

LEVEL = "proof"
M = "ropt.plugins.sampler.scipy"
STATS = ("norm", "uniform", "truncnorm")
QMC = ("sobol", "halton", "lhs")
EXPLANATION = (
    "With SciPy's distributions/engines replaced by their library contracts (rvs(size, random_state, **kw) returns a fresh array of that shape within the bounds implied by the "
    "options; engine.random(n) returns the next n points as an (n,d) array in [0,1); scale is the affine map per column), the real SciPySampler code is proved (z3) to return, for "
    "symbolic draws: shape (R,P,N); exactly 0 outside the mask; identical perturbations for all realizations when shared, an own draw per realization otherwise; every QMC "
    "perturbation vector equal to ONE scaled point of the sequence (row r*P+p); values in [-1,1] for the bounded methods with default options; random_state=rng / seed=rng at "
    "every call into SciPy; a fresh result array on every call (no state carried in returned buffers). Shapes R,P <= 3, N <= 3, all masks enumerated. "
    "In addition the real SciPy engines are compared bit-for-bit with identically seeded reference engines (bounded, native)."
)
ASSUMPTIONS = [
    "library contracts of scipy.stats rv_continuous.rvs, scipy.stats.qmc engines and qmc.scale (assumed in the proof; exercised natively against the real SciPy in the bounded scenario)",
    "bounded in shape only (R,P,N <= 3)",
]
TRUSTED = ["scipy.stats / scipy.stats.qmc (library contracts)"]


class _Dist:
    """rv_continuous by contract."""

    def __init__(self, T, name, log, draws):
        self.T, self.name, self.log, self.draws = T, name, log, draws

    def rvs(self, size=None, random_state=None, **kw):
        self.log.append(("rvs", tuple(size), random_state, dict(kw)))
        lo, hi = None, None
        if self.name == "uniform":
            lo, hi = kw.get("loc", 0.0), kw.get("loc", 0.0) + kw.get("scale", 1.0)
        elif self.name == "truncnorm":
            lo, hi = kw.get("a"), kw.get("b")
        d = self.T.real("draw%d" % len(self.draws), tuple(size), lo=lo, hi=hi)
        self.draws.append(d)
        return d


class _Engine:
    """QMCEngine by contract: random(n) returns the next n points of the sequence, each in [0,1)^d."""

    def __init__(self, T, d, seed, log, draws, **options):
        self.T, self.d, self.log, self.draws = T, d, log, draws
        log.append(("engine", d, seed, dict(options)))

    def random(self, n):
        self.log.append(("random", n))
        pts = self.T.real("points%d" % len(self.draws), (n, self.d), lo=0.0, hi=1.0)
        self.draws.append(pts)
        return pts


def _scale(sample, l_bounds, u_bounds):
    """qmc.scale by contract: the affine map l + (u - l) * x per column."""
    if np.size(l_bounds) == 0 or np.size(sample) == 0:
        # library pre-condition (scipy.stats.qmc.scale validates its bounds with a reduction that has no identity)
        raise ValueError("zero-size array to reduction operation maximum which has no identity")
    return sample * (np.asarray(u_bounds) - np.asarray(l_bounds)) + np.asarray(l_bounds)


def cases_sampler(tier):
    quick = tier == "quick"
    shapes = [(1, 1, 1), (2, 1, 2), (2, 2, 2), (3, 2, 1)] if quick else [(1, 1, 1), (2, 1, 2), (1, 2, 2), (2, 2, 2), (3, 2, 1), (2, 3, 3), (3, 3, 2)]
    for method in STATS + QMC:
        for (R, P, N) in shapes:
            masks = [None] + [list(m) for m in itertools.product((False, True), repeat=N) if any(m) and not all(m)]
            if quick:
                masks = masks[:2]
            # every variable assigned to the sampler is fixed (or it has none): it handles nothing and returns zeros
            masks = masks + [[False] * N]
            for mask in masks:
                for shared in (False, True):
                    yield "%s/R%dP%dN%d/mask=%s/%s" % (method, R, P, N, mask, "shared" if shared else "per-realization"), {
                        "method": method, "R": R, "P": P, "N": N, "mask": mask, "shared": shared, "options": {}}
    # the configured method in its other supported spellings (any case, with or without the plug-in prefix; 'default' is 'norm')
    for method in STATS + QMC:
        for spelled in (method.upper(), "SciPy/" + method.title()):
            yield "%s/R2P1N2/spelled-%s" % (method, spelled), {"method": method, "R": 2, "P": 1, "N": 2, "mask": None, "shared": False, "options": {}, "spelled": spelled}
    for spelled in ("default", "Default", "scipy/default", "SciPy/DEFAULT"):
        yield "norm/R2P1N2/spelled-%s" % spelled, {"method": "norm", "R": 2, "P": 1, "N": 2, "mask": None, "shared": False, "options": {}, "spelled": spelled}
    # a realization with weight zero is still a realization: it gets its samples like every other one
    for method in ("norm", "lhs"):
        for shared in (False, True):
            yield "%s/R3P2N2/one-zero-weight-realization/%s" % (method, "shared" if shared else "per-realization"), {
                "method": method, "R": 3, "P": 2, "N": 2, "mask": None, "shared": shared, "options": {}, "weights": [1.0, 0.0, 2.0]}
            yield "%s/R3P2N2/one-zero-weight-realization/mask/%s" % (method, "shared" if shared else "per-realization"), {
                "method": method, "R": 3, "P": 2, "N": 2, "mask": [True, False], "shared": shared, "options": {}, "weights": [1.0, 0.0, 2.0]}
    yield "uniform/R2P1N1/options-override", {"method": "uniform", "R": 2, "P": 1, "N": 1, "mask": None, "shared": False, "options": {"loc": 0.0, "scale": 0.5}}
    # partial options: the defaults still fill in what the user left out
    yield "uniform/R2P1N1/options-partial", {"method": "uniform", "R": 2, "P": 1, "N": 1, "mask": None, "shared": False, "options": {"scale": 2.0}}
    yield "truncnorm/R2P1N1/options-partial", {"method": "truncnorm", "R": 2, "P": 1, "N": 1, "mask": None, "shared": False, "options": {"loc": 0.0}}
    # a sampler with default options created after (and used after) another instance of the same method that was given explicit
    # options: instances must not share option state
    for method, prior in (("uniform", {"loc": -5.0, "scale": 10.0}), ("truncnorm", {"a": -4.0, "b": 4.0}), ("norm", {"scale": 3.0}), ("sobol", {"scramble": False}), ("lhs", {"scramble": False})):
        yield "%s/R2P1N2/after-an-instance-with-options" % method, {"method": method, "R": 2, "P": 1, "N": 2, "mask": None, "shared": False, "options": {}, "prior": prior}


def scn_sampler(T, case):
    method, R, P, N, mask, shared = case["method"], case["R"], case["P"], case["N"], case["mask"], case["shared"]
    marr = None if mask is None else np.array(mask, dtype=bool)
    d = N if mask is None else sum(mask)
    cols = list(range(N)) if mask is None else [i for i in range(N) if mask[i]]
    log, draws = [], []
    rng = np.random.default_rng(12345)
    stubs = {
        (M, "_STATS_SAMPLERS"): {k: _Dist(T, k, log, draws) for k in STATS},
        (M, "_QMC_ENGINES"): {k: (lambda dim, seed=None, _k=k, **o: _Engine(T, dim, seed, log, draws, **o)) for k in QMC},
        (M, "scale"): _scale,
    }
    if T.symbolic:
        sh = T.shadow([M], stubs)
        cls = T.under_contract(sh, M, "SciPySampler")
        for q in ("__init__", "generate_samples", "_generate_stats_samples", "_generate_qmc_samples", "_init_sampler", "_set_options"):
            T.under_contract(sh, M, "SciPySampler." + q, stubs)
        restore = None
    else:
        import ropt.plugins.sampler.scipy as real

        restore = (real, {k[1]: getattr(real, k[1]) for k in stubs})
        for k, v in stubs.items():
            setattr(real, k[1], v)
        cls = real.SciPySampler
    try:
        cfg = types.SimpleNamespace(
            samplers=(types.SimpleNamespace(method=case.get("spelled", "scipy/" + method), options=dict(case["options"]), shared=shared),),
            variables=types.SimpleNamespace(initial_values=np.zeros(N)),
            realizations=types.SimpleNamespace(weights=(np.array(case["weights"]) / sum(case["weights"])) if case.get("weights") else np.ones(R) / R),
            gradient=types.SimpleNamespace(number_of_perturbations=P),
        )
        if case.get("prior"):
            prior = dict(case["prior"])
            cfg0 = types.SimpleNamespace(samplers=(types.SimpleNamespace(method="scipy/" + method, options=prior, shared=shared),), variables=cfg.variables,
                                         realizations=cfg.realizations, gradient=cfg.gradient)
            cls(cfg0, 0, marr, rng).generate_samples()
            T.prove("C17.frame.configured_options_not_modified", prior == case["prior"])
            del log[:]
            del draws[:]
        smp = cls(cfg, 0, marr, rng)
        out1 = smp.generate_samples()
        snap1 = out1.copy()
        out1 += 5.0  # what _perturb_variables does with several samplers: in-place accumulation on the returned array
        out2 = smp.generate_samples()
    finally:
        if restore:
            for k, v in restore[1].items():
                setattr(restore[0], k, v)
    Rd = 1 if shared else R
    for call, out in enumerate((snap1, out2)):
        T.prove("C17.shape_is_realizations_perturbations_variables", tuple(out.shape) == (R, P, N))
        if tuple(out.shape) != (R, P, N):
            return
        for i in range(N):
            if i not in cols:
                z = (lambda v: T.same(v, 0.0)) if T.symbolic else (lambda v: float(v) == 0.0)
                T.prove("C17.entries_of_unhandled_variables_are_exactly_zero", T.all([z(out[r, p, i]) for r in range(R) for p in range(P)]))
        if not cols:
            # the sampler handles no variable: nothing needs to be drawn, everything is zero (checked above)
            continue
        draw = draws[call]
        if method in STATS:
            T.prove("C17.stats.drawn_with_the_requested_shape", tuple(draw.shape) == (Rd, P, d))
            ref = lambda r, p, c: draw[0 if shared else r, p, c]  # noqa: E731
        else:
            T.prove("C17.qmc.requests_one_point_per_realization_and_perturbation", tuple(draw.shape) == (Rd * P, d))
            # each perturbation vector is ONE point of the sequence, scaled to [-1, 1]
            ref = lambda r, p, c: 2.0 * draw[(0 if shared else r) * P + p, c] - 1.0  # noqa: E731
        T.prove("C17.%s" % ("qmc.point_integrity" if method in QMC else "stats.values_are_the_draw"),
                T.all([T.same(out[r, p, i], ref(r, p, c)) for r in range(R) for p in range(P) for c, i in enumerate(cols)]))
        if shared:
            T.prove("C17.shared_gives_identical_perturbations_for_all_realizations", T.all([T.same(out[r], out[0]) for r in range(R)]))
        if method in ("uniform", "truncnorm") + QMC and not case["options"]:
            T.prove("C17.bounded_methods_stay_within_minus_one_and_one", T.all([(out[r, p, i] >= -1) & (out[r, p, i] <= 1) for r in range(R) for p in range(P) for i in range(N)]))
    T.prove("C17.every_call_returns_a_fresh_array", out2 is not out1)
    # frame: every call into SciPy is given the sampler's generator
    for entry in log:
        if entry[0] == "rvs":
            T.prove("C17.frame.rvs_uses_the_given_generator", entry[2] is rng)
            want = {"uniform": {"loc": -1.0, "scale": 2.0}, "truncnorm": {"a": -1.0, "b": 1.0}}.get(method, {})
            want = {**want, **case["options"]}
            T.prove("C17.default_options_keep_bounded_distributions_in_range", entry[3] == want)
        if entry[0] == "engine":
            T.prove("C17.frame.engine_seeded_with_the_given_generator", entry[2] is rng and entry[1] == d)
            T.prove("C17.engine_options_are_the_configured_ones", entry[3] == case["options"])


# ------------------------------------------------------------------------------------ native comparison with the real SciPy
def cases_native(tier):
    for method in STATS + QMC:
        # (point counts per call that are and are not powers of two; four consecutive calls on the same sampler)
        for (R, P, N) in ((2, 2, 2), (3, 4, 3), (4, 4, 2)) + (() if tier == "quick" else ((1, 8, 2), (4, 2, 1), (2, 16, 3), (5, 3, 2))):
            for shared in (False, True):
                for mask in (None, [True] + [False] * (N - 1) if N > 1 else None, [False] * N):
                    yield "%s/R%dP%dN%d/%s/mask=%s" % (method, R, P, N, "shared" if shared else "own", mask), {
                        "method": method, "R": R, "P": P, "N": N, "shared": shared, "mask": mask, "__concrete_only__": True}


def scn_native(T, case):
    import warnings

    from scipy.stats import norm, truncnorm, uniform
    from scipy.stats.qmc import Halton, LatinHypercube, Sobol, scale

    from ropt.config.enopt import EnOptConfig
    from ropt.plugins.sampler.scipy import SciPySampler

    method, R, P, N, shared, mask = case["method"], case["R"], case["P"], case["N"], case["shared"], case["mask"]
    seed = T.integer("seed", 0, 10_000)
    cfg = EnOptConfig.model_validate({"variables": {"initial_values": [0.0] * N}, "realizations": {"weights": [1.0] * R},
                                      "gradient": {"number_of_perturbations": P}, "samplers": [{"method": method, "shared": shared}]})
    marr = None if mask is None else np.array(mask, dtype=bool)
    d = N if mask is None else sum(mask)
    s = SciPySampler(cfg, 0, marr, np.random.default_rng(seed))
    ref_rng = np.random.default_rng(seed)
    Rd = 1 if shared else R
    with warnings.catch_warnings():
        warnings.simplefilter("ignore")
        eng = {"sobol": Sobol, "halton": Halton, "lhs": LatinHypercube}[method](d, seed=ref_rng) if method in QMC else None
        for call in range(4):
            out = s.generate_samples()
            if d == 0:
                ref = np.zeros((Rd, P, 0))  # no variable handled: the reference draws nothing
            elif method in QMC:
                ref = scale(eng.random(Rd * P), [-1.0] * d, [1.0] * d).reshape(Rd, P, d)
            else:
                dist, kw = {"norm": (norm, {}), "uniform": (uniform, {"loc": -1.0, "scale": 2.0}), "truncnorm": (truncnorm, {"a": -1.0, "b": 1.0})}[method]
                ref = dist.rvs(size=(Rd, P, d), random_state=ref_rng, **kw)
            if shared:
                ref = np.repeat(ref, R, axis=0)
            full = np.zeros((R, P, N))
            full[..., marr if marr is not None else slice(None)] = ref
            T.prove("C17.native.equals_identically_seeded_scipy_reference", bool(np.array_equal(out, full)), "call %d" % call)
            if method == "lhs" and not shared and d > 0:
                pts = (out[..., marr if marr is not None else slice(None)].reshape(R * P, d) + 1.0) / 2.0
                strata = np.sort(np.floor(pts * (R * P)).astype(int), axis=0)
                T.prove("C17.native.latin_hypercube_stratification_per_variable", bool(np.all(strata == np.arange(R * P)[:, None])))


# ------------------------------------------------------------------------------------ which variables a sampler is told to handle
def cases_assignment(tier):
    from contracts.C09 import cases_get_mask

    for cid, c in cases_get_mask(tier):
        if c["N"] <= (2 if tier == "quick" else 3):
            yield cid, dict(c, prefix="C17.assignment")


def scn_assignment(T, case):
    """'Variables it does not handle (fixed, or assigned to another sampler)': the mask that EnsembleEvaluator hands to each
    sampler is exactly (free) AND (assigned to it) - an empty selection is an all-False mask, never None, which a sampler reads
    as 'all variables' (the scenario of C09, stated here as the pre-condition of the sampler contract above)."""
    from contracts.C09 import scn_get_mask

    scn_get_mask(T, case)


# ------------------------------------------------------------------------------------ several samplers: every one's samples are kept, none is modified
def cases_combined(tier):
    from contracts import C10

    for cid, c in C10.cases_perturb(tier):
        if c["samplers"] is not None:
            yield cid, c


def scn_combined(T, case):
    """'Variables assigned to another sampler': with several samplers in use the perturbation of every variable comes from the sampler
    it is assigned to - two, three or four samplers, interleaved - and the arrays the samplers returned are left as they are
    (C10's scenario of _perturb_variables under this property's prefix)."""
    from contracts import C10
    from contracts.reuse import Renamed

    C10.scn_perturb(Renamed(T, "C10.", "C17.combined."), case)


# ------------------------------------------------------------------------------------ the validated mask and sampler assignment are what the user configured
def cases_validated_mask_and_assignment(tier):
    for tr in (False, True):
        for m1 in (True, False):
            yield "variables/transform=%s/mask-given-once=%s" % (tr, m1), {"v": "variables", "tr": tr, "bad": False, "mask1": m1}
    for ptypes in ([1, 1], [2, 1]):
        yield "gradient/fix_perturbations/%s" % ptypes, {"v": "gradient-fix", "ptypes": ptypes, "tr": False}


def scn_validated_mask_and_assignment(T, case):
    """Which variables a sampler handles is derived from the VALIDATED mask and sampler assignment: a mask given once is broadcast (never dropped), and fixing the perturbations leaves the sampler assignment alone (C18's validator scenarios under this property's prefix)."""
    from contracts import C18
    from contracts.reuse import Renamed

    C18.scn_validators(Renamed(T, "C18.", "C17.config."), case)


SCENARIOS = [
    Scenario("sampler_contract", scn_sampler, cases_sampler, {"quick": 3, "thorough": 20}),
    Scenario("native_scipy_reference", scn_native, cases_native, {"quick": 3, "thorough": 30}),
    Scenario("samples_of_several_samplers_combined", scn_combined, cases_combined, {"quick": 5, "thorough": 40}),
    Scenario("sampler_variable_assignment", scn_assignment, cases_assignment, {"quick": 1, "thorough": 1}),
    Scenario("validated_mask_and_assignment", scn_validated_mask_and_assignment, cases_validated_mask_and_assignment, {"quick": 2, "thorough": 10}),
]

MANIFEST = {
    "category": "proof",
    "text": "Deductive, given SciPy's library contracts: shape, zeros outside the mask, shared/own draws, QMC point integrity (each perturbation vector is one scaled point, row r*P+p), "
            "range [-1,1], generator passing, default options and fresh result arrays are discharged by z3 on the real SciPySampler code for symbolic draws, per enumerated "
            "shape (R,P,N <= 3) and mask. The real SciPy engines are additionally compared bit-for-bit with identically seeded references (bounded).",
    "note": "includes samplers that handle no variable (all-False mask) and the mask assignment made by EnsembleEvaluator; scipy.stats / scipy.stats.qmc by assumed library contract in the proof; native comparison against the real SciPy is a bounded stand-in; bounded in shape",
    "technique": "contract-based deductive verification: symbolic execution of the real source under sidecar contracts (library contracts for SciPy), VCs discharged by z3/cvc5; bounded run-time contract checking as stand-in",
}
