"""C08 - the problem handed to SciPy is equivalent to the configured problem.

Functions under contract: ropt.plugins.optimizer.utils:NormalizedConstraints.__init__ / set_constraints / set_gradients,
get_masked_linear_constraints, validate_supported_constraints (+ helpers);
ropt.plugins.optimizer.scipy:SciPyOptimizer._initialize_bounds / _initialize_constraints / _initialize_constraints_dict /
_initialize_constraints_object / _fun / _jac / _parse_options / start.
"""
from __future__ import annotations

import itertools
import types

import numpy as np

from roptvc.driver import Scenario

LEVEL = "other"
MS = "ropt.plugins.optimizer.scipy"
MU = "ropt.plugins.optimizer.utils"
KINDS = ("eq", "lower", "upper", "two", "none")
EXPLANATION = (
    "For every combination of constraint kinds per row (equality, lower-only, upper-only, two-sided, unbounded), symbolic bounds, values, Jacobians, coefficients and test "
    "points: (1) the real NormalizedConstraints yields exactly one 'eq' entry value-rhs for an equality row, value-lower (>= 0) for a finite lower and upper-value (>= 0) for a finite "
    "upper bound, in row order, nothing for unbounded rows, Jacobian rows with the same sign; hence a value satisfies the configured bounds iff all its entries do; (2) the list "
    "of constraint dictionaries / constraint objects and the Bounds object built by the real SciPyOptimizer restate the configured problem (non-linear rows first, then linear "
    "rows, values and Jacobians of the same row under the same index); (3) with a mask only free variables are exposed and every retained linear row is restated exactly on them; "
    "(4) max_iterations reaches the back-end (known finding when options is not a dict); (5) methods that cannot take a constraint kind reject it. "
    "Kinds are enumerated for up to 2 non-linear + 2 linear rows in the proof (3+3 in the bounded native sweep)."
)
ASSUMPTIONS = [
    "a row is an equality (lower == upper) or its bounds differ by at least 1e-15 (tolerance used by the code; quantifier of C08)",
    "the ensemble is an uninterpreted function of the point (values F, Jacobian G)",
    "scipy.optimize.minimize / differential_evolution / Bounds / LinearConstraint / NonlinearConstraint by library contract (plain records; 'ineq' means fun >= 0, 'eq' means fun == 0)",
    "which constraint kinds a SciPy method cannot take is taken from SciPy's documentation",
    "known finding C08.options.max_iterations_forwarded[options=None]",
    "bounded in the number of rows (2+2 symbolic; 3+3 native) and variables (<= 3)",
]


def _bounds(T, tag, kinds):
    lbs, ubs = [], []
    for i, k in enumerate(kinds):
        a = T.real("%s_a%d" % (tag, i), ())
        d = T.real("%s_d%d" % (tag, i), (), lo=1e-6)
        if k == "eq":
            lbs.append(a), ubs.append(a)
        elif k == "lower":
            lbs.append(a), ubs.append(np.inf)
        elif k == "upper":
            lbs.append(-np.inf), ubs.append(a)
        elif k == "two":
            lbs.append(a), ubs.append(a + d)
        else:
            lbs.append(-np.inf), ubs.append(np.inf)
    return T.np.array(lbs) if lbs else T.const(np.zeros(0)), T.np.array(ubs) if ubs else T.const(np.zeros(0))


def expected_entries(kinds):
    """(row, side) per normalized entry, in order, from the statement."""
    out = []
    for i, k in enumerate(kinds):
        if k == "eq":
            out.append((i, "eq"))
        if k in ("lower", "two"):
            out.append((i, "lo"))
        if k in ("upper", "two"):
            out.append((i, "up"))
    return out


def feasible(T, v, lb, ub):
    return (lb <= v) & (v <= ub)


# ------------------------------------------------------------------------------------ NormalizedConstraints
def cases_normalized(tier):
    for n in (1, 2):
        for kinds in itertools.product(KINDS, repeat=n):
            yield "kinds=%s" % ",".join(kinds), {"kinds": list(kinds)}
    if tier == "thorough":
        for kinds in itertools.product(KINDS, repeat=3):
            yield "kinds=%s" % ",".join(kinds), {"kinds": list(kinds)}


def scn_normalized(T, case):
    NC = T.func(MU, "NormalizedConstraints")
    kinds = case["kinds"]
    n, Nv = len(kinds), 2
    lb, ub = _bounds(T, "b", kinds)
    nc = NC(lb, ub)
    # the statement fixes WHICH entries there are (one per finite side of every row, equalities once), not their order: every clause
    # below holds for any layout (row by row, lower sides before upper sides, ...), as long as values, Jacobians and the eq / ineq
    # labels are laid out alike
    want = expected_entries(kinds)
    T.prove("C08.normalized.one_entry_per_finite_side", len(nc.is_eq) == len(want) and sorted(bool(e) for e in nc.is_eq) == sorted(s == "eq" for _, s in want))
    if len(nc.is_eq) != len(want):
        return
    vals = T.real("values", (n,))
    jac = T.real("jacobian", (n, Nv))
    nc.set_constraints(vals)
    nc.set_gradients(jac)
    C, G = nc.constraints, nc.gradients
    T.prove("C08.normalized.shapes", tuple(C.shape) == (len(want), 1) and tuple(G.shape) == (len(want), Nv))
    vb = T.real("batch_values", (n, 2))
    nc.set_constraints(vb)
    CB = nc.constraints

    def is_side(e, i, side):
        """entry e restates side `side` of row i: label, value (single and batched, column-wise) and Jacobian with the sign of the value"""
        if bool(nc.is_eq[e]) != (side == "eq"):
            return False
        if side in ("eq", "lo"):
            return T.all([T.same(C[e, 0], vals[i] - lb[i]), T.same(G[e, :], jac[i, :]), T.same(CB[e, :], vb[i, :] - lb[i])])
        return T.all([T.same(C[e, 0], ub[i] - vals[i]), T.same(G[e, :], -jac[i, :]), T.same(CB[e, :], ub[i] - vb[i, :])])

    for e in range(len(want)):
        T.prove("C08.normalized.every_entry_is_a_configured_side_with_value_and_jacobian_of_the_same_sign", T.any([is_side(e, i, side) for (i, side) in want]))
    for (i, side) in want:
        T.prove("C08.normalized.every_configured_side_has_its_entry", T.any([is_side(e, i, side) for e in range(len(want))]))
    # the equivalence of the statement: the values satisfy the configured bounds iff all normalized entries do
    ok_norm = T.all([(T.same(C[e, 0], 0.0 * vals[0]) if bool(nc.is_eq[e]) else C[e, 0] >= 0) for e in range(len(want))] or [True])
    ok_conf = T.all([feasible(T, vals[i], lb[i], ub[i]) for i in range(n)])
    T.prove("C08.normalized.feasible_iff_all_entries_feasible", T.all([T.implies(ok_conf, ok_norm), T.implies(ok_norm, ok_conf)]))
    nc.reset()
    T.prove("C08.normalized.reset_clears_both_caches", nc.constraints is None and nc.gradients is None)


# ------------------------------------------------------------------------------------ the problem built by SciPyOptimizer
def _optimizer(T, method, Nv, nl_kinds, lin_kinds, mask, options, max_iter, extra=None, vb=None, parallel=False):
    if T.symbolic:
        sh = T.shadow([MS, MU], extra)
        cls = T.under_contract(sh, MS, "SciPyOptimizer")
        for q in ("__init__", "_initialize_bounds", "_initialize_constraints", "_initialize_constraints_dict", "_initialize_constraints_object", "_fun", "_jac", "_parse_options", "start") + (
                ("_function", "_constraint_functions", "_get_function_or_gradient", "_invalidate_cache_if_moved", "_compute_functions_and_gradients") if parallel else ()):
            T.under_contract(sh, MS, "SciPyOptimizer." + q)
        T.under_contract(sh, MU, "get_masked_linear_constraints")
        T.under_contract(sh, MU, "NormalizedConstraints")
    else:
        cls = T.func(MS, "SciPyOptimizer")
    K, L = len(nl_kinds), len(lin_kinds)
    nlb, nub = _bounds(T, "nl", nl_kinds)
    llb, lub = _bounds(T, "lin", lin_kinds)
    A = T.real("A", (L, Nv)) if L else None
    vbk = vb or "finite"
    lk = {"finite": ["fin"] * Nv, "lower-only": ["fin"] * Nv, "upper-only": ["-inf"] * Nv, "mixed": ["fin", "-inf", "-inf"][:Nv], "none": ["-inf"] * Nv}[vbk]
    uk = {"finite": ["fin"] * Nv, "lower-only": ["+inf"] * Nv, "upper-only": ["fin"] * Nv, "mixed": ["+inf", "fin", "+inf"][:Nv], "none": ["+inf"] * Nv}[vbk]
    # (upper = lower + a non-negative width where both are finite: the pre-condition lower <= upper holds by construction, also for
    # every random draw of the bounded runs)
    vlb = T.real("var_lb", (Nv,), kinds=np.array(lk, dtype=object))
    vwidth, vfree_ub = T.real("var_width", (Nv,), lo=0.0), T.real("var_ub", (Nv,))
    vub = T.np.array([np.inf if uk[i] == "+inf" else (vfree_ub[i] if lk[i] == "-inf" else vlb[i] + vwidth[i]) for i in range(Nv)])
    x0 = T.real("initial", (Nv,))
    marr = None if mask is None else np.array(mask, dtype=bool)
    cfg = types.SimpleNamespace(
        variables=types.SimpleNamespace(lower_bounds=vlb, upper_bounds=vub, mask=marr, initial_values=x0, types=None),
        nonlinear_constraints=types.SimpleNamespace(lower_bounds=nlb, upper_bounds=nub) if K else None,
        linear_constraints=types.SimpleNamespace(coefficients=A, lower_bounds=llb, upper_bounds=lub) if L else None,
        optimizer=types.SimpleNamespace(method=method, speculative=False, split_evaluations=False, options=options, max_iterations=max_iter, max_functions=5, output_dir=None, tolerance=1e-3, parallel=parallel),
    )
    opt = object.__new__(cls)
    opt._config, opt._method, opt._parallel = cfg, method, False
    opt._cached_variables = opt._cached_function = opt._cached_gradient = None
    return opt, cfg, (nlb, nub, llb, lub, A, vlb, vub, x0)


def cases_problem(tier):
    quick = tier == "quick"
    for method in ("slsqp", "cobyla", "differential_evolution"):
        combos = [((k,), ()) for k in KINDS] + [((), (k,)) for k in KINDS] + [(("lower",), ("two",)), (("two", "eq"), ("upper",)), (("upper",), ("eq", "lower"))]
        if not quick:
            combos += [(a, b) for a in itertools.product(KINDS, repeat=2) for b in itertools.product(KINDS, repeat=1)][:40]
        for nl, lin in combos:
            for mask in (None, [True, False, True]):
                c = {"method": method, "nl": list(nl), "lin": list(lin), "mask": mask}
                if method == "cobyla":
                    c["vb"] = "none"  # COBYLA takes no variable bounds: with finite ones the constructor rejects the configuration
                yield "%s/nl=%s/lin=%s/mask=%s" % (method, ",".join(nl) or "-", ",".join(lin) or "-", mask), c
        if method == "differential_evolution":
            # vectorized populations (parallel evaluation): SciPy hands over a (variables, members) array and expects (members,) objective
            # values and a (constraints, members) array - member s everywhere the values AT member s.  Member counts below, equal to and
            # above the number of free variables and of constraints (3 free variables without the mask, 2 with it)
            for nl in (("two", "eq"), ("lower",), ("two", "upper", "eq")):
                for mask in (None, [True, False, True]):
                    for S in (1, 2, 3, 4):
                        yield "%s/vectorized/nl=%s/mask=%s/members=%d" % (method, ",".join(nl), mask, S), {"method": method, "nl": list(nl), "lin": [], "mask": mask, "members": S}
        # long vectors / large populations (more than a thousand numbers per request): bounded run-time checking only
        if method == "cobyla":
            yield "cobyla/large/variables=1100/nl=lower", {"method": method, "nl": ["lower"], "lin": [], "mask": None, "vb": "none", "Nv": 1100, "__concrete_only__": True}
        if method == "differential_evolution":
            yield "differential_evolution/vectorized/large/variables=12/members=120/nl=two,eq", {"method": method, "nl": ["two", "eq"], "lin": [], "mask": None, "members": 120, "Nv": 12, "__concrete_only__": True}
        # variable bounds with any mix of finite and infinite entries
        for vb in ("lower-only", "upper-only", "mixed", "none"):
            for mask in (None, [True, False, True]):
                yield "%s/variable-bounds=%s/mask=%s" % (method, vb, mask), {"method": method, "nl": [], "lin": [], "mask": mask, "vb": vb}


def scn_problem(T, case):
    method, nl_kinds, lin_kinds, mask = case["method"], case["nl"], case["lin"], case["mask"]
    Nv = case.get("Nv", 3)
    free = [i for i in range(Nv) if mask is None or mask[i]]
    K, L = len(nl_kinds), len(lin_kinds)
    records = {}

    class Rec:
        def __init__(self, kind, *a, **kw):
            self.kind, self.a, self.kw = kind, a, kw

    handed = []
    stubs = {(MS, "Bounds"): lambda lb, ub: Rec("Bounds", lb, ub), (MS, "LinearConstraint"): lambda A, lb, ub: Rec("Linear", A, lb, ub),
             (MS, "NonlinearConstraint"): lambda **kw: Rec("Nonlinear", **kw),
             (MS, "minimize"): lambda **kw: handed.append(kw), (MS, "differential_evolution"): lambda **kw: handed.append(kw)}
    if not T.symbolic:
        import ropt.plugins.optimizer.scipy as real

        saved = {k[1]: getattr(real, k[1]) for k in stubs}
        for k, v in stubs.items():
            setattr(real, k[1], v)
    try:
        opt, cfg, (nlb, nub, llb, lub, A, vlb, vub, x0) = _optimizer(T, method, Nv, nl_kinds, lin_kinds, mask, None, None, stubs if T.symbolic else None, vb=case.get("vb"), parallel=bool(case.get("members")))
        Fs = [T.uf("F%d" % j, len(free)) for j in range(1 + K)]
        Gs = [[T.uf("G%d_%d" % (j, i), len(free)) for i in range(len(free))] for j in range(1 + K)]
        calls = []

        def callback(v, *, return_functions, return_gradients):
            calls.append((return_functions, return_gradients))
            if case.get("members"):
                # batched request: one row per member, (members, 1 + K) values back
                nf = len(free)
                return T.np.array([[fj(*[v[b, i] for i in range(nf)]) for fj in Fs] for b in range(v.shape[0])]), T.np.array([])
            f = T.np.array([fj(*[v[i] for i in range(len(free))]) for fj in Fs]) if return_functions else T.np.array([])
            g = T.np.array([[gji(*[v[i] for i in range(len(free))]) for gji in row] for row in Gs]) if return_gradients else T.np.array([])
            return f, g

        # the object is made by its real constructor and the problem is observed where the statement puts it: in the arguments that
        # start() passes to the SciPy entry point
        try:
            opt = type(opt)(cfg, callback)
        except NotImplementedError:
            T.prove("C08.problem.construction_rejects_only_what_the_method_cannot_take",
                    (method == "cobyla" and (any(k in ("eq", "two") for k in list(nl_kinds) + list(lin_kinds)) or case.get("vb", "finite") != "none"))
                    or (method == "differential_evolution" and case.get("vb") == "none"))
            return
        opt.start(x0)
        T.prove("C08.problem.exactly_one_backend_call", len(handed) == 1)
        bounds, cons = handed[0].get("bounds"), handed[0].get("constraints")
        T.prove("C08.problem.starting_point_is_the_free_part_of_the_initial_values", T.same(handed[0]["x0"], T.np.array([x0[i] for i in free])))
    finally:
        if not T.symbolic:
            for k, v in saved.items():
                setattr(real, k, v)
    # ---- bounds: only the free variables, exactly the configured ones
    any_finite = case.get("vb") != "none"
    T.prove("C08.bounds.object_present_whenever_any_bound_is_finite", bounds is not None or not any_finite)
    if bounds is not None:
        T.prove("C08.bounds.are_those_of_the_free_variables", T.same(bounds.a[0], T.np.array([vlb[i] for i in free])) & T.same(bounds.a[1], T.np.array([vub[i] for i in free])))
    # ---- linear rows retained under the mask: those that do not touch a fixed variable; restated on the free variables
    xf = T.real("test_point", (len(free),))
    xfull = [None] * Nv
    for k, i in enumerate(free):
        xfull[i] = xf[k]
    for i in range(Nv):
        if xfull[i] is None:
            xfull[i] = x0[i]
    if L:
        touches = [T.any([~T.same(A[r, i], 0.0 * A[r, i]) if T.symbolic else A[r, i] != 0 for i in range(Nv) if i not in free] or [False]) for r in range(L)]
        retained = [r for r in range(L) if not bool(touches[r])]  # forks per row when symbolic
    else:
        retained = []
    nl_vals = [Fs[1 + j](*[xf[i] for i in range(len(free))]) for j in range(K)]
    lin_vals_full = {r: T.total([A[r, i] * xfull[i] for i in range(Nv)]) for r in retained}
    rows = [("nl", j, nl_vals[j], nlb[j], nub[j], nl_kinds[j]) for j in range(K)] + [("lin", r, lin_vals_full[r], llb[r], lub[r], lin_kinds[r]) for r in retained]
    if method == "differential_evolution":
        lin_rec = [c for c in cons if c.kind == "Linear"]
        nl_rec = [c for c in cons if c.kind == "Nonlinear"]
        T.prove("C08.objects.one_constraint_object_per_configured_group", len(lin_rec) == (1 if L else 0) and len(nl_rec) == (1 if K else 0))
        if L and lin_rec:
            Am, lo, up = lin_rec[0].a
            T.prove("C08.objects.linear_rows_restated_on_the_free_variables", tuple(Am.shape) == (len(retained), len(free)))
            for k, r in enumerate(retained):
                v_free = T.total([Am[k, c] * xf[c] for c in range(len(free))])
                T.prove("C08.objects.retained_linear_row_equivalent_on_free_variables",
                        T.all([T.implies(feasible(T, lin_vals_full[r], llb[r], lub[r]), feasible(T, v_free, lo[k], up[k])), T.implies(feasible(T, v_free, lo[k], up[k]), feasible(T, lin_vals_full[r], llb[r], lub[r]))]))
        if K and nl_rec:
            kw = nl_rec[0].kw
            T.prove("C08.objects.nonlinear_bounds_are_the_configured_ones", T.same(kw["lb"], nlb) & T.same(kw["ub"], nub))
            if not case.get("members"):
                T.prove("C08.objects.nonlinear_function_returns_the_constraint_values", T.same(kw["fun"](xf), T.np.array(nl_vals)))
        if case.get("members"):
            S, nf = case["members"], len(free)
            T.prove("C08.vectorized.populations_are_requested_as_arrays", handed[0].get("vectorized") is True)
            X = T.real("population", (nf, S))
            member = lambda j, s_: Fs[j](*[X[i, s_] for i in range(nf)])  # noqa: E731
            objective = handed[0]["func"](X)
            T.prove("C08.vectorized.objective_entry_s_is_the_objective_at_member_s", tuple(objective.shape) == (S,) and T.same(objective, T.np.array([member(0, s_) for s_ in range(S)])))
            # a second population right away (constraints first, no objective request in between), members far from the first
            Y = X + T.real("population_shift", (nf, S), lo=0.5, hi=2.0)
            T.assume(T.all([(abs(Y[i, s_] - X[i, s_]) > 1e-3 * (1.0 + abs(X[i, s_]))) & (abs(Y[i, s_] - X[i, s_]) > 1e-3 * (1.0 + abs(Y[i, s_]))) for i in range(nf) for s_ in range(S)]))
            # ... and a third one that differs from the first in ONE entry of a member in the middle only
            Z = X.copy()
            Z[nf // 2, S // 2] = Z[nf // 2, S // 2] + T.real("one_entry_shift", (), lo=0.5, hi=2.0)
            T.assume((abs(Z[nf // 2, S // 2] - X[nf // 2, S // 2]) > 1e-3 * (1.0 + abs(X[nf // 2, S // 2]))) & (abs(Z[nf // 2, S // 2] - X[nf // 2, S // 2]) > 1e-3 * (1.0 + abs(Z[nf // 2, S // 2]))))
            for P, tag in ((Y, "second"), (X, "first"), (Z, "one-entry-differs"), (X, "first-again")):
                vals = nl_rec[0].kw["fun"](P)
                want = T.np.array([[Fs[1 + k](*[P[i, s_] for i in range(nf)]) for s_ in range(S)] for k in range(K)])
                T.prove("C08.vectorized.constraint_entry_k_s_is_constraint_k_at_member_s", tuple(vals.shape) == (K, S) and T.same(vals, want), tag)
        return
    # ---- dictionary constraints: one entry per finite side of every configured row - in ANY order (the statement does not fix one),
    # as long as type, value and Jacobian of an entry belong together
    want = [(row, side) for row in rows for (i, side) in expected_entries([row[5]])]
    T.prove("C08.dicts.one_entry_per_finite_side_of_every_configured_row", len(cons) == len(want))
    if len(cons) != len(want):
        return
    # the passed callables describe the point they are GIVEN: every entry is evaluated at the test point, at a second, distant point
    # right away (no objective request in between), at the first one again, at a point that differs from the first in ONE coordinate
    # in the middle only, and at the first one once more
    xg = T.real("second_test_point", (len(free),))
    # (distant in the sense of the request pool of C07: farther apart than 1e-3 (1 + |x|), so that the optimizer's np.allclose test tells them apart)
    T.assume(T.all([(abs(xg[i] - xf[i]) > 1e-3 * (1.0 + abs(xf[i]))) & (abs(xg[i] - xf[i]) > 1e-3 * (1.0 + abs(xg[i]))) for i in range(len(free))]))
    xh = xf.copy()
    mid = len(free) // 2
    xh[mid] = xh[mid] + T.real("one_coordinate_shift", (), lo=0.5, hi=2.0)
    T.assume((abs(xh[mid] - xf[mid]) > 1e-3 * (1.0 + abs(xf[mid]))) & (abs(xh[mid] - xf[mid]) > 1e-3 * (1.0 + abs(xh[mid]))))  # distant in the sense above
    probes = [xf, xg, xf, xh, xf]
    seen = []
    for e, d in enumerate(cons):
        rec = {"type": d["type"], "vals": [], "jac": None}
        rec["vals"].append(d["fun"](probes[0])[0])
        if method != "cobyla":
            rec["jac"] = d["jac"](probes[0])
        else:
            T.prove("C08.dicts.cobyla_entries_carry_no_jacobian", "jac" not in d)
        seen.append(rec)
    for k in range(1, len(probes)):
        for e, d in enumerate(cons):
            seen[e]["vals"].append(d["fun"](probes[k])[0])

    def value_at(grp, idx, pt):
        full = [pt[free.index(i)] if i in free else x0[i] for i in range(Nv)]
        return Fs[1 + idx](*[pt[i] for i in range(len(free))]) if grp == "nl" else T.total([A[idx, i] * full[i] for i in range(Nv)])

    def restates(e, row, side):
        grp, idx, val, lo, up, kind = row
        rec = seen[e]
        if rec["type"] != ("eq" if side == "eq" else "ineq"):
            return False
        parts = []
        for k, pt in enumerate(probes):
            v = value_at(grp, idx, pt)
            parts.append(T.same(rec["vals"][k], (v - lo) if side != "up" else (up - v)))
        if rec["jac"] is not None:
            dv = [Gs[1 + idx][c](*[xf[i] for i in range(len(free))]) for c in range(len(free))] if grp == "nl" else [A[idx, i] for i in free]
            sgn = -1.0 if side == "up" else 1.0
            parts += [T.same(rec["jac"][c], sgn * dv[c]) for c in range(len(free))]
        return T.all(parts)

    for e in range(len(cons)):
        T.prove("C08.dicts.every_entry_restates_a_configured_side_at_the_point_passed_in_with_its_jacobian", T.any([restates(e, row, side) for (row, side) in want]))
    for (row, side) in want:
        T.prove("C08.dicts.every_configured_side_is_restated_by_an_entry", T.any([restates(e, row, side) for e in range(len(cons))]))
    # ---- equivalence of the statement
    ok_conf = T.all([feasible(T, val, lo, up) for (_, _, val, lo, up, _) in rows] or [True])
    ok_pass = T.all([(T.same(cons[e]["fun"](xf)[0], 0.0 * xf[0]) if cons[e]["type"] == "eq" else cons[e]["fun"](xf)[0] >= 0) for e in range(len(cons))] or [True])
    T.prove("C08.dicts.point_feasible_iff_feasible_for_the_passed_constraints", T.all([T.implies(ok_conf, ok_pass), T.implies(ok_pass, ok_conf)]))


# ------------------------------------------------------------------------------------ options / start arguments
def cases_options(tier):
    for method in ("slsqp", "tnc", "differential_evolution", "nelder-mead", "powell"):
        for options in ("none", "empty", "dict", "list"):
            for mi in (None, 7):
                yield "%s/options=%s/max_iterations=%s" % (method, options, mi), {"method": method, "options": options, "mi": mi}
                if options != "list":
                    yield "%s/options=%s/max_iterations=%s/validated-config" % (method, options, mi), {"method": method, "options": options, "mi": mi, "validated": True}
    # variable types (integer / real) with and without a mask: what differential evolution is told about integrality concerns the
    # free variables only, in their order
    for vtypes in ([2, 1], [1, 2], [2, 2]):
        for mask in (None, [True, False], [False, True]):
            yield "differential_evolution/options=dict/types=%s/mask=%s" % (vtypes, mask), {"method": "differential_evolution", "options": "dict", "mi": None, "types": vtypes, "mask": mask}


def scn_options(T, case):
    method, mi = case["method"], case["mi"]
    options = {"none": None, "empty": {}, "dict": {"ftol": 0.5, "maxiter": 99}, "list": ["a"]}[case["options"]]
    calls = []
    stubs = {(MS, "minimize"): lambda **kw: calls.append(("minimize", kw)), (MS, "differential_evolution"): lambda **kw: calls.append(("de", kw))}
    if not T.symbolic:
        import ropt.plugins.optimizer.scipy as real

        saved = {k[1]: getattr(real, k[1]) for k in stubs}
        for k, v in stubs.items():
            setattr(real, k[1], v)
    try:
        opt, cfg, parts = _optimizer(T, method, 2, [], [], case.get("mask"), options, mi, stubs if T.symbolic else None)
        if case.get("types"):
            cfg.variables.types = np.array(case["types"], dtype=np.ubyte)
        if case.get("validated"):
            # the optimizer section as the REAL OptimizerConfig validation produces it from the user's dictionary (the options
            # given as None, {} or a dict are part of the quantifier of C08: what is validated must still say what the user said)
            MOC = "ropt.config.enopt._optimizer_config"
            if T.symbolic:
                shc = T.shadow([MOC])
                ocls = T.under_contract(shc, MOC, "OptimizerConfig")
            else:
                ocls = T.func(MOC, "OptimizerConfig")
            d = {"method": method, "tolerance": 1e-3}
            if mi is not None:
                d["max_iterations"] = mi
            if case["options"] != "absent":
                d["options"] = options
            cfg.optimizer = ocls.model_validate(d)
        opt._bounds = opt._initialize_bounds()
        opt._constraints = []
        opt._normalized_constraints = None
        opt._options = opt._parse_options()
        opt.start(parts[7])
    finally:
        if not T.symbolic:
            for k, v in saved.items():
                setattr(real, k, v)
    T.prove("C08.start.backend_called_once", len(calls) == 1)
    kind, kw = calls[0]
    passed = dict(kw.get("options") or {}) if kind == "minimize" else {k: v for k, v in kw.items() if k in ("maxiter", "maxfun")}
    key = "maxfun" if method == "tnc" else "maxiter"
    if mi is not None:
        name = "C08.options.max_iterations_forwarded[options=%s]" % ("None" if not isinstance(options, dict) else "dict")
        T.prove(name, passed.get(key) == mi, "passed options: %r" % (passed,))
    # nothing is invented: besides the user's options only the iteration limit (and the plug-in's own display / integrality /
    # deferred-updating settings) reach the back-end; in particular max_functions is enforced by the driver, which reports
    # MAX_FUNCTIONS_REACHED - the back-end is not given a function budget of its own
    given = set(options) if isinstance(options, dict) else set()
    every = dict(kw.get("options") or {}) if kind == "minimize" else {k: v for k, v in kw.items() if k not in ("func", "x0", "bounds", "constraints", "polish", "vectorized")}
    T.prove("C08.options.no_option_is_invented_and_the_function_budget_is_not_forwarded", set(every) <= given | {key if mi is not None else key, "disp", "integrality", "updating", "workers"}
            and (mi is not None or key in given or key not in every), "passed: %r" % (sorted(every),))
    if case.get("types"):
        free = [i for i in range(2) if case.get("mask") is None or case["mask"][i]]
        T.prove("C08.options.integrality_is_that_of_the_free_variables", "integrality" in kw and [bool(b) for b in np.asarray(kw["integrality"]).reshape(-1)] == [case["types"][i] == 2 for i in free]
                and len(kw["x0"]) == len(free), "integrality passed: %r for %d free variable(s)" % (kw.get("integrality"), len(free)))
    if isinstance(options, dict):
        T.prove("C08.options.user_options_forwarded", all(kw.get("options", kw).get(k) == v or (k == key and mi is not None) for k, v in options.items()) if kind == "minimize"
                else all(kw.get(k) == v or (k == key and mi is not None) for k, v in options.items()))
    if kind == "minimize":
        T.prove("C08.start.tolerance_bounds_and_method_forwarded", kw["tol"] == 1e-3 and kw["bounds"] is opt._bounds and kw["method"] == method and kw["constraints"] is opt._constraints)
        T.prove("C08.start.jacobian_passed_for_gradient_methods", kw["jac"] == opt._gradient if method not in ("nelder-mead", "powell", "cobyla") else kw["jac"] is False)
    else:
        T.prove("C08.start.bounds_and_constraints_forwarded", kw["bounds"] is opt._bounds and kw["constraints"] is opt._constraints)


# ------------------------------------------------------------------------------------ rejection of unsupported kinds
NO_BOUNDS = ("cg", "bfgs", "newton-cg")
NO_CONSTRAINTS = ("nelder-mead", "powell", "cg", "bfgs", "newton-cg", "l-bfgs-b", "tnc")
ALL_METHODS = ("nelder-mead", "powell", "cg", "bfgs", "newton-cg", "l-bfgs-b", "tnc", "cobyla", "slsqp", "differential_evolution")


def cases_reject(tier):
    for method in ALL_METHODS:
        for bounds in (False, True):
            for lin in (None, "eq", "ineq"):
                for nl in (None, "eq", "ineq"):
                    yield "%s/bounds=%s/lin=%s/nl=%s" % (method, bounds, lin, nl), {"method": method, "bounds": bounds, "lin": lin, "nl": nl}
                    if (lin or nl or bounds) and method in ("cobyla", "nelder-mead", "cg", "l-bfgs-b"):
                        # another optimizer plug-in, with methods of the same names that take every kind of constraint, has validated a
                        # configuration in this process before: the SciPy plug-in's own tables still decide
                        yield "%s/bounds=%s/lin=%s/nl=%s/after-another-plug-in-validated" % (method, bounds, lin, nl), {"method": method, "bounds": bounds, "lin": lin, "nl": nl, "prior": True}


def scn_reject(T, case):
    method = case["method"]
    validate = T.func(MU, "validate_supported_constraints")
    cls = T.func(MS, "SciPyOptimizer")
    grp = lambda k: None if k is None else types.SimpleNamespace(lower_bounds=np.array([0.0]), upper_bounds=np.array([0.0 if k == "eq" else np.inf]))  # noqa: E731
    cfg = types.SimpleNamespace(variables=types.SimpleNamespace(lower_bounds=np.array([0.0 if case["bounds"] else -np.inf]), upper_bounds=np.array([np.inf])),
                                linear_constraints=grp(case["lin"]), nonlinear_constraints=grp(case["nl"]))
    if case.get("prior"):
        everything = {k: set(ALL_METHODS) | {m.upper() for m in ALL_METHODS} for k in ("bounds", "linear:eq", "linear:ineq", "nonlinear:eq", "nonlinear:ineq")}
        validate(cfg, method, everything, {})
    try:
        validate(cfg, method, cls._supported_constraints, cls._required_constraints)
        accepted = True
    except NotImplementedError:
        accepted = False
    must_reject = (case["bounds"] and method in NO_BOUNDS) or ((case["lin"] or case["nl"]) and method in NO_CONSTRAINTS) or (method == "cobyla" and "eq" in (case["lin"], case["nl"]))
    T.prove("C08.reject.kinds_the_method_cannot_take_are_rejected_not_dropped", not (accepted and must_reject))
    T.prove("C08.reject.slsqp_and_differential_evolution_accept_every_kind", accepted or method not in ("slsqp", "differential_evolution") or (method == "differential_evolution" and not case["bounds"]))


# ------------------------------------------------------------------------------------ the validated linear constraints carry one bound pair per row
def cases_validated_linear_constraints(tier):
    for bad in (False, True):
        for both in (False, True):
            yield "inverted=%s/both-bounds-given-once=%s" % (bad, both), {"v": "linear", "bad": bad, "both_scalar": both}


def scn_validated_linear_constraints(T, case):
    """The problem handed to SciPy is built from the VALIDATED linear constraints: bounds given once are broadcast to one pair per row, also when both are given once (C18's validator scenario under this property's prefix)."""
    from contracts import C18
    from contracts.reuse import Renamed

    C18.scn_validators(Renamed(T, "C18.", "C08.config."), case)


# ------------------------------------------------------------------------------------ linear constraints under a variable transform
def cases_transformed_linear(tier):
    from contracts import C11

    for cid, c in C11.cases_linear(tier):
        if c["rows"] == 1 or tier == "thorough":
            yield cid, c


def scn_transformed_linear(T, case):
    """With a variable transform the 'configured problem' is the user's and the problem handed to SciPy is built from the transformed
    linear constraints: a user point satisfies the configured rows iff its optimizer-domain image satisfies the transformed ones -
    for rows with coefficients of any sign (C11's scenario of the real VariableScaler under this property's prefix)."""
    from contracts import C11
    from contracts.reuse import Renamed

    C11.scn_linear(Renamed(T, "C11.", "C08.transform."), case)


# ------------------------------------------------------------------------------------ a second run of the same optimizer object
def cases_restart(tier):
    from contracts import C07

    for cid, c in C07.cases_start(tier):
        if c["K"]:
            yield cid, c


def scn_restart(T, case):
    """'The normalized constraint functions equal the configured constraint at the point asked for' in EVERY run of an optimizer
    object: whatever an earlier run left in the caches - also one that ended with an exception -, the first constraint value handed out
    in a new run is that of the new run (C07's base-case scenario under this property's prefix)."""
    from contracts import C07
    from contracts.reuse import Renamed

    C07.scn_start(Renamed(T, "C07.start.", "C08.restart."), case)


SCENARIOS = [
    Scenario("normalized_constraints", scn_normalized, cases_normalized, {"quick": 5, "thorough": 30}),
    Scenario("scipy_problem", scn_problem, cases_problem, {"quick": 3, "thorough": 15}),
    Scenario("options_and_start", scn_options, cases_options, {"quick": 1, "thorough": 2}),
    Scenario("rejection", scn_reject, cases_reject, {"quick": 1, "thorough": 1}),
    Scenario("validated_linear_constraints", scn_validated_linear_constraints, cases_validated_linear_constraints, {"quick": 2, "thorough": 10}),
    Scenario("linear_constraints_under_a_variable_transform", scn_transformed_linear, cases_transformed_linear, {"quick": 5, "thorough": 30}),
    Scenario("constraints_of_a_second_run", scn_restart, cases_restart, {"quick": 3, "thorough": 20}),
]

MANIFEST = {
    "category": "other",
    "text": "Deductive: for every enumerated combination of constraint kinds the real NormalizedConstraints / SciPyOptimizer construction code is proved (z3) to restate the configured "
            "bounds, linear and non-linear constraints exactly (entry per finite side, sign of values and Jacobians, row order non-linear then linear, masked restatement, feasibility "
            "equivalence at a symbolic test point), options/tolerance/bounds forwarding and rejection of unsupported kinds; one known finding (max_iterations dropped when options is not a dict). "
            "Level 'other' because of that finding and because SciPy's records are library contracts.",
    "note": "rows bounded (2 non-linear + 2 linear symbolic; more natively); ensemble as uninterpreted function; SciPy Bounds/LinearConstraint/NonlinearConstraint/minimize by library contract; known finding C08.options.max_iterations_forwarded[options=None]",
    "technique": "contract-based deductive verification: symbolic execution of the real source under sidecar contracts, VCs discharged by z3/cvc5; bounded run-time contract checking as stand-in",
}
