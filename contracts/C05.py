"""C05 - the sort filter selects exactly the configured rank window of successful members.

Functions under contract:
  ropt.plugins.realization_filter.default:_sort_and_select
  ...:DefaultRealizationFilter._sort_objectives / _sort_constraint / _check_range / get_realization_weights
  ropt.ensemble_evaluator._ensemble_evaluator:EnsembleEvaluator._calculate_filtered_realization_weights
"""
from __future__ import annotations

import itertools
import types

import numpy as np

from contracts.specs import rank_bounds, sort_window_spec
from roptvc.driver import Scenario

M = "ropt.plugins.realization_filter.default"
ME = "ropt.ensemble_evaluator._ensemble_evaluator"
LEVEL = "proof"
EXPLANATION = (
    "The post-condition of the statement (configured weight exactly at the successful members whose ascending rank of the sort value is in "
    "[first,last], zero elsewhere, failed members never ranked, window size) is proved for the real _sort_and_select and the filter methods for "
    "all real sort values (ties included: any consistent ranking is admitted), all configured weights, every failure mask and every window, per "
    "ensemble size n <= 3 (quick) / 6 (thorough), the values symbolic, i.e. every ordering including ties at once. np.argsort is used by contract (some sorting permutation, NaN last). The row mapping of "
    "_calculate_filtered_realization_weights is proved against abstract filters for every filter-index map over <= 2 objectives, <= 2 constraints, <= 2 filters."
)
ASSUMPTIONS = [
    "np.argsort contract: returns a permutation that sorts ascending with NaN last; ties in any order",
    "inputs satisfy the NaN-propagation invariant of _propagate_nan_values (a failed realization has NaN in every column; C03/C06)",
    "third-party RealizationFilter.get_realization_weights returns some (R,) array or raises OptimizationAborted (interface contract)",
    "ensemble sizes beyond the enumerated ones are not covered by the proof (bounded in shape only)",
]


def _masks(n):
    return [list(m) for m in itertools.product((False, True), repeat=n)]


# ---------------------------------------------------------------------------------- _sort_and_select
def cases_select(tier):
    for n in ((1, 2, 3) if tier == "quick" else (1, 2, 3, 4, 5, 6)):
        for failed in _masks(n):
            for first in range(n):
                for last in range(first, n):
                    yield "n%d/%s/%d-%d" % (n, "".join("F" if f else "o" for f in failed), first, last), {"n": n, "failed": failed, "first": first, "last": last}


def cases_select_large(tier):
    """Large ensembles: bounded run-time checking only (the proof is per enumerated size)."""
    for n in (8, 17, 24, 40) + ((64, 100) if tier == "thorough" else ()):
        for nf in (0, 3):
            failed = [(i * 7 + 3) % n < nf for i in range(n)]
            for first, last in ((0, 0), (2, n // 2), (n - 4, n - 1), (0, n - 1)):
                yield "large/n%d/failures=%d/%d-%d" % (n, nf, first, last), {"n": n, "failed": failed, "first": first, "last": last, "__concrete_only__": True}


def cases_select_sweep(tier):
    """EVERY rank window [first, last] of every ensemble size up to 48 (100 in the thorough tier), with and without failures: one
    bounded run per size (run-time checking only; window arithmetic that goes wrong at particular sizes or ranks has nowhere to hide
    below the bound)."""
    for n in range(7, 49 if tier == "quick" else 101):
        for nf in (0, 3):
            yield "sweep/n%d/failures=%d/all-windows" % (n, nf), {"n": n, "failed": [(i * 7 + 3) % n < nf for i in range(n)], "__concrete_only__": True}


def scn_select_sweep(T, case):
    f = T.func(M, "_sort_and_select")
    n, failed = case["n"], case["failed"]
    vals = T.real("values", (n,))
    cfg = T.real("weights", (n,), lo=0.001)
    m = n - sum(failed)
    # (an index-dependent irrational offset makes the drawn values distinct: ranks are unambiguous)
    v, c, fl = np.asarray(vals, dtype=float) + np.sqrt(2.0) * 1e-5 * np.arange(n), np.asarray(cfg, dtype=float), np.array(failed, dtype=bool)
    vals = v
    T.assume(len(set(v[~fl].tolist())) == m)
    # the specification evaluated directly (concrete runs only): rank = number of successful members with a smaller value
    rank = np.array([int(np.sum(v[~fl] < v[i])) if not fl[i] else -1 for i in range(n)])
    bad = []
    for first in range(m):
        for last in range(first, n):
            w = np.asarray(f(vals, cfg, fl.copy(), first, last), dtype=float)
            want = np.where((rank >= first) & (rank <= last), c, 0.0)
            if w.shape != (n,) or not np.array_equal(w, want):
                bad.append((first, last))
    T.prove("C05.select_sweep.weights_are_the_configured_ones_exactly_on_the_ranks_of_the_window_and_zero_elsewhere", not bad,
            "n=%d successful=%d wrong windows (first, last): %s" % (n, m, bad[:8]))


def scn_select(T, case):
    f = T.func(M, "_sort_and_select")
    n, failed = case["n"], case["failed"]
    vals = T.real("values", (n,))
    cfg = T.real("weights", (n,), lo=0.0)
    w = f(vals, cfg, np.array(failed, dtype=bool), case["first"], case["last"])
    T.prove("C05.select.shape", tuple(w.shape) == (n,))
    sort_window_spec(T, "C05.select", vals, cfg, failed, case["first"], case["last"], w)


# ---------------------------------------------------------------------------------- filter object
def _filter(T, method, options, cfg):
    """An instance of the (shadow) DefaultRealizationFilter made by its REAL constructor for the given configuration (whatever private
    state the class keeps is the state its constructor sets up).  Only the parsing of a SYMBOLIC option value by pydantic is outside
    the contract: for options with a symbolic value `model_validate` is `model_construct` (same class, same fields, no coercion)."""
    if T.symbolic:
        sh = T.shadow([M])
        cls = T.under_contract(sh, M, "DefaultRealizationFilter")
        for q in ("__init__", "_sort_objectives", "_sort_constraint", "_check_range", "get_realization_weights", "_cvar_objectives", "_cvar_constraint"):
            T.under_contract(sh, M, "DefaultRealizationFilter." + q)
        T.under_contract(sh, M, "_sort_and_select")
        T.under_contract(sh, M, "_get_cvar_weights_from_percentile")
        ns = sh.ns[M]
    else:
        import importlib

        mod = importlib.import_module(M)
        cls, ns = mod.DefaultRealizationFilter, vars(mod)
    optcls = {"sort-objective": "SortObjectiveOptions", "sort-constraint": "SortConstraintOptions", "cvar-objective": "CVaRObjectiveOptions", "cvar-constraint": "CVaRConstraintOptions"}[method]
    cfg.realization_filters = [types.SimpleNamespace(method=method, options=dict(options))]
    symbolic_option = T.symbolic and any(not isinstance(v, (int, float, list, tuple, str, bool, type(None))) for v in options.values())
    if symbolic_option and optcls in ns:
        base = ns[optcls]
        sub = type(base.__name__, (base,), {"model_validate": classmethod(lambda c, o, *a, **k: c.model_construct(**o)), "__module__": base.__module__})
        ns[optcls] = sub
    return cls(cfg, 0)


def cases_filter(tier):
    n = 3
    masks = _masks(n) if tier == "thorough" else [[False, False, False], [True, False, False], [False, True, True], [True, True, True]]
    for failed in masks:
        for (first, last) in ((0, 0), (1, 2), (0, 2)) + (((1, 1), (2, 2), (0, 1)) if tier == "thorough" else ()):
            tag = "%s/%d-%d" % ("".join("F" if f else "o" for f in failed), first, last)
            yield "objective/J2-sort01/" + tag, {"kind": "objective", "J": 2, "sort": [0, 1], "failed": failed, "first": first, "last": last}
            yield "objective/J2-sort1/" + tag, {"kind": "objective", "J": 2, "sort": [1], "failed": failed, "first": first, "last": last}
            yield "objective/J1/" + tag, {"kind": "objective", "J": 1, "sort": [0], "failed": failed, "first": first, "last": last}
            for bk in ("lower", "upper", "equality"):
                yield "constraint/K2-sort1/%s/" % bk + tag, {"kind": "constraint", "K": 2, "sort": 1, "failed": failed, "first": first, "last": last, "bounds": bk}


def scn_filter(T, case):
    from ropt.enums import OptimizerExitCode
    from ropt.exceptions import OptimizationAborted

    n, failed = 3, case["failed"]
    cfgw = T.real("weights", (n,), lo=0.0)
    nanmask = np.array(failed, dtype=bool)
    if case["kind"] == "objective":
        J = case["J"]
        ow = T.real("objective_weights", (J,))
        obj = T.real("objectives", (n, J), nan=np.repeat(nanmask[:, None], J, axis=1))
        con = None
        cfg = types.SimpleNamespace(objectives=types.SimpleNamespace(weights=ow), realizations=types.SimpleNamespace(weights=cfgw), nonlinear_constraints=None)
        flt = _filter(T, "sort-objective", {"sort": case["sort"], "first": case["first"], "last": case["last"]}, cfg)
        if J > 1:
            key = [T.total([ow[j] * obj[i, j] for j in case["sort"]]) if not failed[i] else 0.0 for i in range(n)]
        else:
            key = [obj[i, 0] if not failed[i] else 0.0 for i in range(n)]
    else:
        K = case["K"]
        obj = T.real("objectives", (n, 1), nan=nanmask[:, None])
        con = T.real("constraints", (n, K), nan=np.repeat(nanmask[:, None], K, axis=1))
        # the sort filter ranks by the constraint VALUE, whatever the kind of its bounds: lower-bounded, upper-bounded and equality rows
        bk = case.get("bounds", "lower")
        nlb = T.const(np.array({"lower": [0.0, 0.0], "upper": [-np.inf, -np.inf], "equality": [1.0, 1.0]}[bk]))
        nub = T.const(np.array({"lower": [np.inf, np.inf], "upper": [0.0, 0.0], "equality": [1.0, 1.0]}[bk]))
        cfg = types.SimpleNamespace(objectives=types.SimpleNamespace(weights=T.const([1.0])), realizations=types.SimpleNamespace(weights=cfgw),
                                    nonlinear_constraints=types.SimpleNamespace(lower_bounds=nlb, upper_bounds=nub, realization_filters=None, function_estimators=None))
        flt = _filter(T, "sort-constraint", {"sort": case["sort"], "first": case["first"], "last": case["last"]}, cfg)
        key = [con[i, case["sort"]] if not failed[i] else 0.0 for i in range(n)]
    obj0 = obj.copy()
    try:
        w = flt.get_realization_weights(obj, con)
    except OptimizationAborted as exc:
        # allowed exactly when the window selects no member with positive weight
        T.prove("C05.filter.abort_code_is_too_few_realizations", exc.exit_code == OptimizerExitCode.TOO_FEW_REALIZATIONS)
        # ... so no member that is certainly inside the window may carry a positive configured weight
        ok = [not f for f in failed]
        less, leq = rank_bounds(T, key, ok)
        for i in range(n):
            if ok[i]:
                surely_in = (less[i] >= case["first"]) & (leq[i] <= case["last"])
                T.prove("C05.filter.abort_only_without_positive_weight", ~(surely_in & (cfgw[i] > 0)))
        return
    T.prove("C05.filter.inputs_not_modified", T.same(obj, obj0))
    T.prove("C05.filter.returns_only_with_positive_weight", T.any([w[i] > 0 for i in range(n)]))
    sort_window_spec(T, "C05.filter", key, cfgw, failed, case["first"], case["last"], w)


# ---------------------------------------------------------------------------------- _check_range
def cases_range(tier):
    for n in (1, 3):
        for first in range(0, n + 2):
            for last in range(0, n + 2):
                yield "n%d/%d-%d" % (n, first, last), {"n": n, "first": first, "last": last}


def scn_range(T, case):
    from ropt.exceptions import ConfigError

    n = case["n"]
    cfg = types.SimpleNamespace(realizations=types.SimpleNamespace(weights=T.real("weights", (n,), lo=0.0)))
    valid = 0 <= case["first"] <= case["last"] < n
    try:
        # 'rejected at configuration time': by the real constructor
        _filter(T, "sort-objective", {"sort": [0], "first": case["first"], "last": case["last"]}, cfg)
    except ConfigError:
        T.prove("C05.check_range.rejects_only_windows_outside_the_ensemble", not valid)
        return
    T.prove("C05.check_range.accepts_only_windows_inside_the_ensemble", valid)


# ---------------------------------------------------------------------------------- the window check of the constructor, with a history
def cases_ctor_history(tier):
    for method in ("sort-objective", "sort-constraint"):
        for nA, nB, first, last in ((5, 3, 2, 4), (5, 3, 1, 2), (4, 2, 1, 3), (3, 3, 0, 2), (6, 4, 4, 5)):
            yield "%s/first-%d-realizations-then-%d/window=%d-%d" % (method, nA, nB, first, last), {"method": method, "nA": nA, "nB": nB, "first": first, "last": last}


def scn_ctor_history(T, case):
    """'Windows outside the ensemble are rejected at configuration time' - by the real constructor, for EVERY configuration: a filter
    with the same options has been made for a larger ensemble before (an earlier step of the plan, another run in the process);
    the constructor of the second one still checks the window against ITS ensemble."""
    from ropt.exceptions import ConfigError

    if T.symbolic:
        sh = T.shadow([M])
        cls = T.under_contract(sh, M, "DefaultRealizationFilter")
        T.under_contract(sh, M, "DefaultRealizationFilter.__init__")
        T.under_contract(sh, M, "DefaultRealizationFilter._check_range")
    else:
        cls = T.func(M, "DefaultRealizationFilter")
    sort = [0] if case["method"] == "sort-objective" else 0

    def config(n):
        return types.SimpleNamespace(realization_filters=(types.SimpleNamespace(method=case["method"], options={"sort": sort, "first": case["first"], "last": case["last"]}),),
                                     realizations=types.SimpleNamespace(weights=T.const(np.ones(n) / n)), objectives=types.SimpleNamespace(weights=T.const(np.ones(1))),
                                     nonlinear_constraints=types.SimpleNamespace(lower_bounds=T.const(np.zeros(1)), upper_bounds=T.const(np.ones(1))))

    outcomes = []
    for n in (case["nA"], case["nB"], case["nA"]):
        try:
            flt = cls(config(n), 0)
            outcomes.append((n, True, flt._filter_options.first == case["first"] and flt._filter_options.last == case["last"]))
        except ConfigError:
            outcomes.append((n, False, True))
    for k, (n, accepted, same) in enumerate(outcomes):
        T.prove("C05.constructor.window_is_checked_against_the_ensemble_of_this_configuration_whatever_was_constructed_before",
                accepted == (0 <= case["first"] <= case["last"] < n) and same, "construction %d for %d realizations: accepted=%s" % (k + 1, n, accepted))


# ---------------------------------------------------------------------------------- row mapping in the ensemble evaluator
class _AbstractFilter:
    def __init__(self, w, log, idx):
        self.w, self.log, self.idx = w, log, idx

    def get_realization_weights(self, objectives, constraints):
        self.log.append(self.idx)
        return self.w.copy()


def cases_rows(tier):
    F = 2
    for J, K in ((2, 0), (1, 1), (2, 2)) if tier == "quick" else ((1, 0), (2, 0), (1, 1), (2, 1), (2, 2)):
        omaps = [None] + [list(m) for m in itertools.product((-1, 0, 1), repeat=J)]
        cmaps = ([None] + [list(m) for m in itertools.product((-1, 0, 1), repeat=K)]) if K else [None]
        for om in omaps:
            for cm in cmaps:
                yield "J%dK%d/o=%s/c=%s" % (J, K, om, cm), {"J": J, "K": K, "F": F, "omap": om, "cmap": cm}


def scn_rows(T, case):
    """Observed on the results of the real EnsembleEvaluator (made by its constructor, filters behind the plug-in manager): the
    realization weights reported for each objective and constraint are those of the filter mapped to it (the configured ones for
    an unmapped function), and each mapped filter is asked once per evaluation, an unmapped one never."""
    from contracts import harness as H

    J, K, F, R = case["J"], case["K"], case["F"], 2
    ch = H.Chain(T)
    cfgw0 = T.real("weights", (R,), lo=0.001)
    tot = T.total([cfgw0[r] for r in range(R)])
    cfgw = cfgw0 / tot
    W = [T.real("W%d" % f, (R,), lo=0.001) for f in range(F)]
    log = []
    vals = T.real("values", (R, J + K))
    sev = H.ScriptedEvaluator(T, ch, lambda v, r, p, k: vals[r, :J], (lambda v, r, p, k: vals[r, J:]) if K else None)
    cfg = H.make_config(T, R, J, K, 1, weights=cfgw, ow=T.const(np.ones(J)), min_success=1, omap_flt=case["omap"], cmap_flt=case["cmap"])
    ev = H.make_evaluator(T, ch, cfg, sev, filters=[_AbstractFilter(W[f], log, f) for f in range(F)])
    (res,) = ev.calculate(T.real("x", (1,)), compute_functions=True, compute_gradients=False)
    used = set((case["omap"] or []) + (case["cmap"] or [])) - {-1}
    T.prove("C05.rows.only_mapped_filters_are_evaluated_once", sorted(log) == sorted(used))
    rz = res.realizations
    for name, mat, fmap, cnt in (("objective", rz.objective_weights, case["omap"], J), ("constraint", rz.constraint_weights, case["cmap"], K)):
        if mat is None:
            # None means: the configured weights for every function
            T.prove("C05.rows.%s_weights_none_only_if_no_function_is_filtered" % name, fmap is None or all(f < 0 for f in fmap) or cnt == 0)
            continue
        T.prove("C05.rows.%s_weights_shape" % name, tuple(mat.shape) == (cnt, R))
        for j in range(cnt):
            f = -1 if fmap is None else fmap[j]
            T.prove("C05.rows.%s_row_is_weights_in_force" % name, T.same(mat[j, :], W[f] if f >= 0 else cfgw))
    T.prove("C05.rows.configured_weights_not_modified", T.same(cfgw, cfg.realizations.weights))
    # ... and the values are estimated with them
    for name, got, fmap, cnt, off in (("objective", res.functions.objectives, case["omap"], J, 0), ("constraint", res.functions.constraints, case["cmap"], K, J)):
        for j in range(cnt):
            f = -1 if fmap is None else fmap[j]
            w = W[f] if f >= 0 else cfgw
            wt = T.total([w[r] for r in range(R)])
            T.prove("C05.rows.%s_value_is_estimated_with_the_weights_in_force" % name, T.same(got[j], T.total([(w[r] / wt) * vals[r, off + j] for r in range(R)])))


# ---------------------------------------------------------------------------------- the filter inside the real evaluator
def cases_chain(tier):
    from contracts import integration

    return integration.cases_filter_chain(('sort-objective', 'sort-constraint'), tier)


def scn_chain(T, case):
    from contracts import integration

    integration.scn_filter_chain(T, case, "C05")


# ------------------------------------------------------------------------------------ what the plan steps hand on (shared contract)
def cases_steps(tier):
    from contracts import stepcontract

    return stepcontract.cases(tier)


def scn_steps(T, case):
    from contracts import stepcontract

    stepcontract.scenario(T, case, "C05")


SCENARIOS = [
    Scenario("sort_and_select", scn_select, cases_select, {"quick": 4, "thorough": 40}),
    Scenario("sort_and_select_large_ensembles_bounded", scn_select, cases_select_large, {"quick": 6, "thorough": 40}),
    Scenario("sort_and_select_every_window_of_every_size_bounded", scn_select_sweep, cases_select_sweep, {"quick": 1, "thorough": 3}),
    Scenario("filter", scn_filter, cases_filter, {"quick": 10, "thorough": 60}),
    Scenario("check_range", scn_range, cases_range, {"quick": 1, "thorough": 1}),
    Scenario("constructor_window_check_with_a_history", scn_ctor_history, cases_ctor_history, {"quick": 1, "thorough": 2}),
    Scenario("filter_rows", scn_rows, cases_rows, {"quick": 3, "thorough": 20}),
    Scenario("filter_inside_the_evaluator", scn_chain, cases_chain, {"quick": 3, "thorough": 10}),
    Scenario("plan_steps_hand_over", scn_steps, cases_steps, {"quick": 1, "thorough": 2}),
]

MANIFEST = {
    "category": "proof",
    "text": "Deductive: the rank-window post-condition of C05 is discharged by z3 on the real _sort_and_select / sort filter methods / _check_range / "
            "get_realization_weights and the row mapping of _calculate_filtered_realization_weights, for all real sort values (ties included), weights, "
            "every failure mask and window; complete per enumerated ensemble size (n <= 3 quick, <= 6 thorough) and per filter-index map over <= 2 objectives, 2 constraints, 2 filters.",
    "note": "plus the filter inside the real EnsembleEvaluator (real constructors, failures in one column only, unused filter first, repeated calls, prior instances); np.argsort by contract (a sorting permutation, NaN last); floats as reals; bounded in shape only (proof per size <= 3/6; every window of every size up to 48/100 by bounded run-time checking); pydantic option parsing in __init__ not under contract (only _check_range)",
    "technique": "contract-based deductive verification: symbolic execution of the real source under sidecar contracts, VCs discharged by z3/cvc5; bounded run-time contract checking as stand-in",
}
