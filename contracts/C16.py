"""C16 - runs are reproducible from configuration and seed alone.

A determinism property is, in contract terms, a frame (reads/modifies) property: the run is a function of
(configuration, evaluator, a generator freshly built from the seed) if nothing on the path reads or writes anything else.
"""
from __future__ import annotations

import ast
import os
import types

import numpy as np

from roptvc import extract
from roptvc.driver import Scenario

LEVEL = "other"
ME = "ropt.ensemble_evaluator._ensemble_evaluator"
MS = "ropt.plugins.sampler.scipy"
MG = "ropt.ensemble_evaluator._gradient"
MM = "ropt.plugins._manager"
EXPLANATION = (
    "(1) Frame contracts on the real code: EnsembleEvaluator.__init__ builds exactly one generator default_rng(config.gradient.seed) and hands that very object to every sampler; "
    "every call of the built-in sampler into SciPy passes random_state=/seed= that generator; the order in which samplers are invoked is a function of gradient.samplers only "
    "(first appearance); plug-in objects cached by _from_entry_points are shared between managers but each manager owns its registry. (2) A syntactic frame scan of EVERY module "
    "under src/ropt (re-parsed on each run): no use of NumPy's or Python's global random state, no default_rng() without an explicit seed, no time/urandom-derived values, no "
    "`global` statements, no method of a Plugin subclass assigning to self (the shared cached plug-in objects are stateless), no module-level mutable container mutated by a "
    "function. (3) Bounded, native: complete traces (every evaluator request and result, bit for bit) of repeated runs under hostile conditions - global generator reseeded "
    "between and during runs, other optimizations interleaved, managers/contexts reused - are identical, and a changed seed changes the perturbations. "
    "That NumPy's Generator, SciPy's distributions/QMC engines and optimizers are deterministic functions of their inputs is assumed."
)
ASSUMPTIONS = [
    "numpy.random.Generator, scipy.stats, scipy.stats.qmc and scipy.optimize are deterministic functions of their arguments and of the generator passed to them (library contract)",
    "bit-identity of whole runs and 'changing the seed changes the perturbations' rest on those libraries: bounded native evidence only",
    "the syntactic scan is sound for the listed constructs only (direct module attribute uses; no alias tracking through containers)",
]


# ------------------------------------------------------------------------------------ generator construction and hand-over
def cases_rng(tier):
    for nsamplers in (1, 2, 3):
        for seed in ((1,), (7, 11)) + (((0,), (2**32 + 5,)) if tier == "thorough" else ()):
            yield "samplers=%d/seed=%s" % (nsamplers, seed), {"nsamplers": nsamplers, "seed": list(seed)}


def scn_rng(T, case):
    made, created = [], []

    def default_rng(seed=None):
        tok = object()
        made.append((seed, tok))
        return tok

    class Plug:
        def __init__(self, kind):
            self.kind = kind

        def create(self, *a):
            created.append((self.kind,) + a)
            return (self.kind, len(created))

    pm = types.SimpleNamespace(get_plugin=lambda kind, method: Plug(kind))
    n = case["nsamplers"]
    # a complete configuration record (every section the evaluator may read when it is constructed), one objective, two realizations
    from contracts import harness as H

    nv = 1 if n == 1 else n + 1
    cfg = H.make_config(T, 2, 1, 0, nv, weights=T.const(np.array([0.5, 0.5])), ow=T.const(np.array([1.0])), samplers=None if n == 1 else list(range(n)) + [0])
    cfg.gradient.seed = tuple(case["seed"])
    cfg.samplers = tuple(types.SimpleNamespace(method="m%d" % i, options={}) for i in range(n))
    cfg.realization_filters, cfg.function_estimators = (), (types.SimpleNamespace(method="default", options={}),)
    if T.symbolic:
        sh = T.shadow([ME], stubs={(ME, "default_rng"): default_rng})
        cls = T.under_contract(sh, ME, "EnsembleEvaluator")
        T.under_contract(sh, ME, "EnsembleEvaluator.__init__")
        T.under_contract(sh, ME, "EnsembleEvaluator._init_samplers")
        ev = cls(cfg, None, lambda *a: None, pm)
    else:
        import ropt.ensemble_evaluator._ensemble_evaluator as real

        saved = real.default_rng
        real.default_rng = default_rng
        try:
            ev = real.EnsembleEvaluator(cfg, None, lambda *a: None, pm)
        finally:
            real.default_rng = saved
    T.prove("C16.rng.exactly_one_generator_built_from_the_configured_seed", len(made) == 1 and made[0][0] == tuple(case["seed"]))
    samplers = [c for c in created if c[0] == "sampler"]
    T.prove("C16.rng.one_sampler_per_configured_sampler", len(samplers) == n and [c[2] for c in samplers] == list(range(n)))
    T.prove("C16.rng.every_sampler_receives_that_very_generator", all(c[4] is made[0][1] for c in samplers))
    T.prove("C16.rng.no_state_kept_besides_the_samplers", ev._cache_for_gradient is None)
    # a second evaluator made from the same configuration object starts its own generator from the seed (same stream again)
    n_made, n_created = len(made), len(created)
    if T.symbolic:
        cls(cfg, None, lambda *a: None, pm)
    else:
        real.default_rng = default_rng
        try:
            real.EnsembleEvaluator(cfg, None, lambda *a: None, pm)
        finally:
            real.default_rng = saved
    again = [c for c in created[n_created:] if c[0] == "sampler"]
    T.prove("C16.rng.a_second_evaluator_of_the_same_configuration_builds_its_own_generator_from_the_seed",
            len(made) == n_made + 1 and made[-1][0] == tuple(case["seed"]) and made[-1][1] is not made[0][1] and all(c[4] is made[-1][1] for c in again) and len(again) == n)


# ------------------------------------------------------------------------------------ sampler -> SciPy: the generator is passed on
def cases_sampler_frame(tier):
    from contracts.C17 import QMC, STATS

    for method in STATS + QMC:
        for shared in (False, True):
            yield "%s/%s" % (method, "shared" if shared else "own"), {"method": method, "R": 2, "P": 2, "N": 2, "mask": None, "shared": shared, "options": {}}
    # large requests (thousands of samples per call): the same frame, bounded run-time checking only
    for method in STATS + QMC:
        yield "%s/own/large-12x10x80" % method, {"method": method, "R": 12, "P": 10, "N": 80, "mask": None, "shared": False, "options": {}, "__concrete_only__": True}
    # engine options must not decide whether the generator is handed over (e.g. an unscrambled Latin hypercube still draws permutations)
    for method in QMC:
        yield "%s/scramble=False" % method, {"method": method, "R": 2, "P": 2, "N": 2, "mask": None, "shared": False, "options": {"scramble": False}}


def scn_sampler_frame(T, case):
    from contracts import C17

    log, draws = [], []
    rng = np.random.default_rng(5)
    stubs = {
        (MS, "_STATS_SAMPLERS"): {k: C17._Dist(T, k, log, draws) for k in C17.STATS},
        (MS, "_QMC_ENGINES"): {k: (lambda dim, seed=None, _k=k, **o: C17._Engine(T, dim, seed, log, draws, **o)) for k in C17.QMC},
        (MS, "scale"): C17._scale,
    }
    if T.symbolic:
        sh = T.shadow([MS], stubs)
        cls = T.under_contract(sh, MS, "SciPySampler")
        restore = None
    else:
        import ropt.plugins.sampler.scipy as real

        restore = (real, {k[1]: getattr(real, k[1]) for k in stubs})
        for k, v in stubs.items():
            setattr(real, k[1], v)
        cls = real.SciPySampler
    try:
        cfg = types.SimpleNamespace(samplers=(types.SimpleNamespace(method="scipy/" + case["method"], options=dict(case["options"]), shared=case["shared"]),),
                                    variables=types.SimpleNamespace(initial_values=np.zeros(case["N"])), realizations=types.SimpleNamespace(weights=np.ones(case["R"]) / case["R"]),
                                    gradient=types.SimpleNamespace(number_of_perturbations=case["P"]))
        smp = cls(cfg, 0, None, rng)
        state0 = rng.bit_generator.state
        smp.generate_samples()
        smp.generate_samples()
    finally:
        if restore:
            for k, v in restore[1].items():
                setattr(restore[0], k, v)
    # a second sampler of the same method created afterwards with DIFFERENT options, then a third with none: options given to
    # one sampler must not leak into another one (no state outside the sampler objects)
    if case["method"] in ("uniform", "truncnorm") and not case["options"]:
        log2 = []
        stubs2 = dict(stubs)
        stubs2[(MS, "_STATS_SAMPLERS")] = {k: C17._Dist(T, k, log2, draws) for k in C17.STATS}
        if T.symbolic:
            sh.ns[MS]["_STATS_SAMPLERS"] = stubs2[(MS, "_STATS_SAMPLERS")]
        else:
            import ropt.plugins.sampler.scipy as real2

            saved2 = real2._STATS_SAMPLERS
            real2._STATS_SAMPLERS = stubs2[(MS, "_STATS_SAMPLERS")]
        try:
            over = {"uniform": {"loc": 0.0, "scale": 0.5}, "truncnorm": {"a": -0.5, "b": 0.5}}[case["method"]]
            mk = lambda opts: types.SimpleNamespace(samplers=(types.SimpleNamespace(method="scipy/" + case["method"], options=opts, shared=False),),  # noqa: E731
                                                    variables=types.SimpleNamespace(initial_values=np.zeros(2)), realizations=types.SimpleNamespace(weights=np.ones(2) / 2),
                                                    gradient=types.SimpleNamespace(number_of_perturbations=2))
            given = dict(over)
            cls(mk(given), 0, None, rng).generate_samples()
            cls(mk({}), 0, None, rng).generate_samples()
        finally:
            if not T.symbolic:
                real2._STATS_SAMPLERS = saved2
        defaults = {"uniform": {"loc": -1.0, "scale": 2.0}, "truncnorm": {"a": -1.0, "b": 1.0}}[case["method"]]
        kws = [e[3] for e in log2 if e[0] == "rvs"]
        T.prove("C16.sampler.options_of_one_sampler_do_not_leak_into_another", len(kws) == 2 and kws[0] == over and kws[1] == defaults and given == over)
    T.prove("C16.sampler.scipy_is_called", len(log) >= 2)
    T.prove("C16.sampler.every_draw_uses_only_the_generator_it_was_given",
            all((e[2] is rng) for e in log if e[0] in ("rvs", "engine")))
    T.prove("C16.sampler.does_not_draw_from_the_generator_itself", rng.bit_generator.state == state0)


# ------------------------------------------------------------------------------------ back-end options: the configuration is not aliased into the back-end
def cases_options(tier):
    for method in ("slsqp", "differential_evolution"):
        yield method, {"method": method}


def scn_options(T, case):
    """Observed where the back-end is: an optimizer made by its REAL constructor is started twice; what start() hands to the SciPy
    entry point (a recording stand-in that then does to its arguments what a back-end does: advances a generator given as seed,
    appends to a list) is never an object of the configuration, and the configuration is the same afterwards."""
    from contracts import C08

    MSC = "ropt.plugins.optimizer.scipy"
    handed = []

    def backend(**kw):
        handed.append(kw)
        opts = kw.get("options") if isinstance(kw.get("options"), dict) else kw
        if "seed" in opts and hasattr(opts["seed"], "random"):
            opts["seed"].random(4)  # what the back-end does with it
        if isinstance(opts.get("nested"), dict):
            opts["nested"]["values"].append(3)

    stubs = {(MSC, "minimize"): backend, (MSC, "differential_evolution"): backend}
    saved = None
    if not T.symbolic:
        import importlib

        real = importlib.import_module(MSC)
        saved = {k[1]: getattr(real, k[1]) for k in stubs}
        for k, v in stubs.items():
            setattr(real, k[1], v)
    try:
        stateful = np.random.default_rng(3)  # e.g. a seed option given as a generator object
        state0 = stateful.bit_generator.state
        options = {"seed": stateful, "nested": {"values": [1, 2]}, "zero": 0, "empty": "", "off": False}
        opt0, cfg, rest = C08._optimizer(T, case["method"], 2, [], [], None, options, None, stubs if T.symbolic else None, vb="finite")
        x0 = rest[-1]
        opt = type(opt0)(cfg, lambda *a, **k: None)
        opt.start(x0)
        opt.start(x0)
        T.prove("C16.options.the_back_end_is_called_once_per_run", len(handed) == 2)
        if len(handed) != 2:
            return
        outs = [kw.get("options") if isinstance(kw.get("options"), dict) else kw for kw in handed]
        for out in outs:
            T.prove("C16.options.stateful_option_objects_are_not_shared_with_the_configuration", out.get("seed") is not stateful and stateful.bit_generator.state == state0)
            # every configured option reaches the back-end, falsy values included (an explicit seed of 0 is a seed)
            T.prove("C16.options.every_configured_option_is_forwarded", out.get("zero", "missing") == 0 and out.get("empty", "missing") == "" and out.get("off", "missing") is False and "seed" in out)
        T.prove("C16.options.configured_options_are_not_modified_by_the_back_end", options["nested"] == {"values": [1, 2]} and set(options) == {"seed", "nested", "zero", "empty", "off"})
        del handed[:]
        opt0b, cfg2, rest2 = C08._optimizer(T, case["method"], 2, [], [], None, {"seed": 0}, None, stubs if T.symbolic else None, vb="finite")
        type(opt0b)(cfg2, lambda *a, **k: None).start(rest2[-1])
        out2 = (handed[0].get("options") if isinstance(handed[0].get("options"), dict) else handed[0]) if handed else {}
        T.prove("C16.options.an_explicit_seed_of_zero_is_forwarded", out2.get("seed", "missing") == 0)
    finally:
        if saved is not None:
            for k, v in saved.items():
                setattr(real, k, v)


# ------------------------------------------------------------------------------------ sampler invocation order
def cases_order(tier):
    import itertools

    for n in (3,) + ((4,) if tier == "thorough" else ()):
        for assign in itertools.product((-1, 0, 1, 2), repeat=n):
            if len({a for a in assign if a >= 0}) >= 2:
                yield "samplers=%s" % (list(assign),), {"assign": list(assign)}


def scn_order(T, case):
    f = T.func(MG, "_perturb_variables")
    assign = case["assign"]
    N = len(assign)
    log = []

    class S:
        def __init__(self, i):
            self.i = i

        def generate_samples(self):
            log.append(self.i)
            return T.np.zeros((1, 1, N)) + 0.0

    cfg = types.SimpleNamespace(gradient=types.SimpleNamespace(samplers=np.array(assign, dtype=np.intc), perturbation_magnitudes=T.const(np.ones(N)), boundary_types=np.ones(N, dtype=np.ubyte)),
                                variables=types.SimpleNamespace(lower_bounds=T.const(np.full(N, -np.inf)), upper_bounds=T.const(np.full(N, np.inf))))
    f(cfg, T.real("x", (N,)), [S(i) for i in range(3)])
    want = list(dict.fromkeys(a for a in assign if a >= 0))
    T.prove("C16.order.samplers_run_once_each_in_order_of_first_appearance", log == want)


# ------------------------------------------------------------------------------------ syntactic frame scan of the whole package
ALLOWED_RANDOM_ATTRS = {"default_rng", "Generator"}


MUTATING_METHODS = {"append", "add", "update", "setdefault", "pop", "popitem", "clear", "extend", "insert", "remove", "discard", "appendleft", "popleft", "sort", "reverse", "__setitem__", "__delitem__"}
# the one memoized function of the package: the entry-point scan of the plug-in manager (plug-in objects are stateless, see the
# plug-in clause below, and each manager owns its registry - scenario plugin_manager_per_context)
ALLOWED_MEMOIZED = {("src/ropt/plugins/_manager.py", "_from_entry_points")}


def cases_scan(tier):
    yield "src/ropt", {}


def scn_scan(T, case):
    root = os.path.join(extract.SRC, "ropt")
    files = []
    for d, _, fs in os.walk(root):
        files += [os.path.join(d, f) for f in fs if f.endswith(".py")]
    T.prove("C16.scan.sources_found", len(files) > 30)
    findings = {"global_random_state": [], "unseeded_generator": [], "time_or_entropy": [], "global_statement": [], "plugin_state": [], "module_state": []}
    for path in sorted(files):
        rel = os.path.relpath(path, extract.REPO)
        tree = ast.parse(open(path, encoding="utf-8").read(), filename=path)
        imports_random = any(isinstance(n, ast.Import) and any(a.name == "random" for a in n.names) for n in ast.walk(tree)) or any(
            isinstance(n, ast.ImportFrom) and n.module == "random" for n in ast.walk(tree))
        if imports_random:
            findings["global_random_state"].append("%s: imports the `random` module" % rel)
        # module-level names bound to a mutable container (literal, comprehension or constructor call)
        def _mutable(v):
            return isinstance(v, (ast.Dict, ast.List, ast.Set, ast.DictComp, ast.ListComp, ast.SetComp)) or (
                isinstance(v, ast.Call) and (getattr(v.func, "id", None) or getattr(v.func, "attr", None)) in ("dict", "list", "set", "defaultdict", "OrderedDict", "deque", "Counter", "WeakValueDictionary"))

        module_containers = {t.id for n in tree.body if isinstance(n, (ast.Assign, ast.AnnAssign)) and _mutable(getattr(n, "value", None))
                             for t in (n.targets if isinstance(n, ast.Assign) else [n.target]) if isinstance(t, ast.Name)}
        for fn_node in ast.walk(tree):
            if not isinstance(fn_node, (ast.FunctionDef, ast.AsyncFunctionDef, ast.Lambda)):
                continue
            if isinstance(fn_node, (ast.FunctionDef, ast.AsyncFunctionDef)):
                for dec in fn_node.decorator_list:
                    dn = dec.func if isinstance(dec, ast.Call) else dec
                    dname = dn.id if isinstance(dn, ast.Name) else getattr(dn, "attr", "")
                    if dname in ("cache", "lru_cache", "cached_property") and (rel, fn_node.name) not in ALLOWED_MEMOIZED:
                        findings["module_state"].append("%s:%d %s is memoized (@%s): results of one run survive into the next" % (rel, fn_node.lineno, fn_node.name, dname))
            for sub in ast.walk(fn_node):
                tgt = []
                if isinstance(sub, (ast.Assign, ast.AugAssign, ast.AnnAssign)):
                    tgt = sub.targets if isinstance(sub, ast.Assign) else [sub.target]
                elif isinstance(sub, ast.Delete):
                    tgt = sub.targets
                for t in tgt:
                    if isinstance(t, ast.Subscript) and isinstance(t.value, ast.Name) and t.value.id in module_containers:
                        findings["module_state"].append("%s:%d %s[...] is assigned or deleted inside a function" % (rel, sub.lineno, t.value.id))
                if isinstance(sub, ast.Call) and isinstance(sub.func, ast.Attribute) and isinstance(sub.func.value, ast.Name) and sub.func.value.id in module_containers \
                        and sub.func.attr in MUTATING_METHODS:
                    findings["module_state"].append("%s:%d %s.%s(...) inside a function" % (rel, sub.lineno, sub.func.value.id, sub.func.attr))
        for node in ast.walk(tree):
            # np.random.<something> / numpy.random.<something>
            if isinstance(node, ast.Attribute) and isinstance(node.value, ast.Attribute) and node.value.attr == "random" and isinstance(node.value.value, ast.Name) and node.value.value.id in ("np", "numpy"):
                if node.attr not in ALLOWED_RANDOM_ATTRS:
                    findings["global_random_state"].append("%s:%d np.random.%s" % (rel, node.lineno, node.attr))
            if isinstance(node, ast.ImportFrom) and node.module == "numpy.random":
                for a in node.names:
                    if a.name not in ALLOWED_RANDOM_ATTRS:
                        findings["global_random_state"].append("%s:%d from numpy.random import %s" % (rel, node.lineno, a.name))
            if isinstance(node, ast.Call):
                fn = node.func
                name = fn.id if isinstance(fn, ast.Name) else (fn.attr if isinstance(fn, ast.Attribute) else "")
                if name == "default_rng" and not node.args and not node.keywords:
                    findings["unseeded_generator"].append("%s:%d default_rng() without a seed" % (rel, node.lineno))
                if isinstance(fn, ast.Attribute) and isinstance(fn.value, ast.Name):
                    if (fn.value.id, fn.attr) in (("os", "urandom"), ("time", "time"), ("time", "time_ns"), ("time", "perf_counter"), ("time", "monotonic"), ("secrets", "token_bytes")):
                        findings["time_or_entropy"].append("%s:%d %s.%s()" % (rel, node.lineno, fn.value.id, fn.attr))
            if isinstance(node, ast.Global):
                findings["global_statement"].append("%s:%d global %s" % (rel, node.lineno, ",".join(node.names)))
            # statelessness of plug-in objects (they are cached and shared between plug-in managers)
            if isinstance(node, ast.ClassDef) and any((isinstance(b, ast.Name) and b.id.endswith("Plugin")) or (isinstance(b, ast.Attribute) and b.attr.endswith("Plugin")) for b in node.bases):
                for sub in ast.walk(node):
                    if isinstance(sub, (ast.Assign, ast.AugAssign, ast.AnnAssign)):
                        targets = sub.targets if isinstance(sub, ast.Assign) else [sub.target]
                        for t in targets:
                            if isinstance(t, ast.Attribute) and isinstance(t.value, ast.Name) and t.value.id == "self":
                                findings["plugin_state"].append("%s:%d %s assigns self.%s" % (rel, sub.lineno, node.name, t.attr))
    allowed_time = {"src/ropt/plugins/optimizer/external.py"}  # time.sleep only; checked below
    T.prove("C16.scan.no_use_of_global_random_state", findings["global_random_state"] == [], "; ".join(findings["global_random_state"]))
    T.prove("C16.scan.no_generator_without_explicit_seed", findings["unseeded_generator"] == [], "; ".join(findings["unseeded_generator"]))
    T.prove("C16.scan.no_time_or_entropy_derived_values", findings["time_or_entropy"] == [], "; ".join(findings["time_or_entropy"]))
    T.prove("C16.scan.no_global_statements", findings["global_statement"] == [], "; ".join(findings["global_statement"]))
    T.prove("C16.scan.no_module_level_container_is_mutated_by_a_function_and_nothing_is_memoized", findings["module_state"] == [], "; ".join(findings["module_state"]))
    T.prove("C16.scan.plugin_objects_are_stateless", findings["plugin_state"] == [], "; ".join(findings["plugin_state"]))


# ------------------------------------------------------------------------------------ bounded native: traces under hostile conditions
def cases_native(tier):
    for sampler in ("norm", "uniform", "sobol", "lhs", "halton", "truncnorm"):
        for shared in (False, True):
            yield "%s/%s" % (sampler, "shared" if shared else "own"), {"sampler": sampler, "shared": shared, "__concrete_only__": True}
    # large requests (80 variables, 12 realizations, 10 perturbations: 9600 samples per gradient; 80 sampled dimensions)
    for sampler in ("norm", "uniform", "halton", "sobol") + (("lhs", "truncnorm") if tier == "thorough" else ()):
        yield "%s/own/large-80-variables-12-realizations-10-perturbations" % sampler, {"sampler": sampler, "shared": False, "large": True, "__concrete_only__": True}
    # evaluations in which realizations fail, at the FIRST evaluation of the run (so that nothing of this run precedes them): every
    # realization with realization_min_success = 0 and a non-linear constraint; every positively weighted realization while a
    # zero-weight one survives (realization_min_success = 1); NaN-tolerant and NaN-intolerant methods
    for method in ("slsqp", "differential_evolution"):
        yield "failures/all-realizations/min_success=0/constraint/%s" % method, {"sampler": "norm", "shared": False, "failing": "all", "method": method, "__concrete_only__": True}
        yield "failures/positive-weights-fail-zero-weight-survives/%s" % method, {"sampler": "norm", "shared": False, "failing": "positive", "method": method, "__concrete_only__": True}
    yield "two-samplers+filter+stddev", {"sampler": "norm", "shared": False, "rich": True, "__concrete_only__": True}
    yield "two-samplers+filter+stddev/no-variable-bounds", {"sampler": "norm", "shared": False, "rich": True, "unbounded": True, "__concrete_only__": True}
    yield "differential_evolution", {"sampler": "norm", "shared": False, "de": True, "__concrete_only__": True}


def _trace_run(config, pm=None, hostile=None, transforms=None, failing=None):
    from ropt.evaluator import EvaluatorResult
    from ropt.plan import BasicOptimizer

    trace, calls = [], []

    def ev(x, ctx):
        if hostile is not None:
            hostile()
        o = np.stack([((x - 0.3 * (r + 1)) ** 2).sum(axis=1) for r in [0]], axis=1)
        o = np.array([[float(((x[k] - 0.2 * (int(ctx.realizations[k]) + 1)) ** 2).sum())] for k in range(x.shape[0])])
        con = None
        if failing is not None:
            con = np.array([[float(x[k].sum() + 0.1 * int(ctx.realizations[k]))] for k in range(x.shape[0])])
            if not calls:
                bad = [k for k in range(x.shape[0]) if failing == "all" or (failing == "positive" and int(ctx.realizations[k]) in (0, 1))]
                o[bad, :] = np.nan
                con[bad, :] = np.nan
            calls.append(1)
            trace.append(("request", x.tobytes(), ctx.realizations.tobytes(), None if ctx.perturbations is None else ctx.perturbations.tobytes()))
            return EvaluatorResult(objectives=o, constraints=con)
        trace.append(("request", x.tobytes(), ctx.realizations.tobytes(), None if ctx.perturbations is None else ctx.perturbations.tobytes()))
        return EvaluatorResult(objectives=o)

    opt = BasicOptimizer(config, ev)

    def report(results):
        for r in results:
            trace.append(("result", type(r).__name__, r.evaluations.variables.tobytes(),
                          None if getattr(r, "functions", None) is None else r.functions.weighted_objective.tobytes(),
                          None if getattr(r, "gradients", None) is None else r.gradients.weighted_objective.tobytes(),
                          None if getattr(r, "functions", None) is None else (r.functions.objectives.tobytes(), None if r.functions.constraints is None else r.functions.constraints.tobytes()),
                          None if getattr(r, "constraint_info", None) is None or r.constraint_info.nonlinear_lower is None else r.constraint_info.nonlinear_lower.tobytes()))

    opt.set_results_callback(report)
    opt.run()
    trace.append(("exit", opt.exit_code.name))
    return trace


def scn_native(T, case):
    seed = T.integer("seed", 1, 10**6)
    cfg = {
        "variables": {"initial_values": [0.0, 0.1, 0.2], "lower_bounds": -1.0, "upper_bounds": 1.0},
        "realizations": {"weights": [1.0, 2.0, 1.0]},
        "optimizer": {"method": "slsqp", "max_functions": 4},
        "gradient": {"number_of_perturbations": 3, "seed": seed, "perturbation_magnitudes": 0.05},
        "samplers": [{"method": case["sampler"], "shared": case["shared"]}],
    }
    if case.get("large"):
        cfg["variables"]["initial_values"] = [0.01 * i for i in range(80)]
        cfg["realizations"]["weights"] = [1.0 + (r % 3) for r in range(12)]
        cfg["gradient"]["number_of_perturbations"] = 10
        cfg["optimizer"]["max_functions"] = 2
    FAIL = case.get("failing")
    if FAIL:
        cfg["optimizer"] = {"method": case["method"], "max_functions": 6} if case["method"] == "slsqp" else {"method": "differential_evolution", "max_functions": 8, "options": {"seed": 3, "popsize": 2, "maxiter": 1}}
        cfg["nonlinear_constraints"] = {"lower_bounds": [-10.0], "upper_bounds": [10.0]}
        if FAIL == "all":
            cfg["realizations"] = {"weights": [1.0, 2.0, 1.0], "realization_min_success": 0}
        else:
            cfg["realizations"] = {"weights": [1.0, 2.0, 0.0], "realization_min_success": 1}
    if case.get("rich"):
        if case.get("unbounded"):
            # no variable bounds: nothing clips or mirrors a perturbation back into range, whatever its size
            cfg["variables"] = {"initial_values": [0.0, 0.1, 0.2]}
        cfg["samplers"] = [{"method": "norm"}, {"method": "sobol"}]
        cfg["gradient"]["samplers"] = [1, 0, 1]
        cfg["variables"]["mask"] = [True, True, False]
        cfg["realization_filters"] = [{"method": "sort-objective", "options": {"sort": [0], "first": 0, "last": 1}}]
        cfg["objectives"] = {"weights": [1.0], "realization_filters": [0]}
    if case.get("de"):
        cfg["optimizer"] = {"method": "differential_evolution", "max_functions": 12, "options": {"seed": 3, "popsize": 2, "maxiter": 2}}
    rs = np.random.RandomState(seed)
    base = _trace_run(cfg, failing=FAIL)
    np.random.seed(int(rs.randint(0, 2**31 - 1)))
    again = _trace_run(cfg, failing=FAIL)
    T.prove("C16.native.same_trace_after_reseeding_the_global_generator", again == base)

    def hostile():
        np.random.seed(int(rs.randint(0, 2**31 - 1)))
        np.random.random(3)

    T.prove("C16.native.same_trace_when_the_global_generator_is_reseeded_during_the_run", _trace_run(cfg, hostile=hostile, failing=FAIL) == base)
    other = dict(cfg, gradient=dict(cfg["gradient"], seed=seed + 1), optimizer={"method": "slsqp", "max_functions": 2})
    _trace_run(other, failing="none" if FAIL else None)
    T.prove("C16.native.same_trace_after_an_unrelated_run_in_the_same_process", _trace_run(cfg, failing=FAIL) == base)
    from ropt.config.enopt import EnOptConfig

    validated = EnOptConfig.model_validate(cfg)
    first = _trace_run(validated, failing=FAIL)
    T.prove("C16.native.same_trace_when_one_validated_configuration_object_is_run_twice", first == base and _trace_run(validated, failing=FAIL) == base)
    if not case.get("de") and not FAIL:
        changed = _trace_run(dict(cfg, gradient=dict(cfg["gradient"], seed=seed + 1)), failing=FAIL)
        reqs = lambda t: [e[1] for e in t if e[0] == "request" and e[3] is not None]  # noqa: E731
        T.prove("C16.native.changing_the_seed_changes_the_perturbations", reqs(changed) != reqs(base))


# ------------------------------------------------------------------------------------ a plug-in manager per context (shared contract)
def cases_context(tier):
    from contracts import ctxcontract

    return ctxcontract.cases(tier)


def scn_context(T, case):
    from contracts import ctxcontract

    ctxcontract.scenario(T, case, "C16")


# ------------------------------------------------------------------------------------ BasicOptimizer: a run does not depend on the runs before it
def cases_basic_runs(tier):
    from contracts import C15

    return C15.cases_callbacks(tier)


def scn_basic_runs(T, case):
    """'Independent of other optimizations executed earlier in the same process' for the convenience class: the second and the third
    run of one BasicOptimizer object deliver every event to each callback once, as the first did - also when the first run ended with
    an exception (C15's scenario under this property's prefix)."""
    from contracts import C15
    from contracts.reuse import Renamed

    C15.scn_callbacks(Renamed(T, "C15.basic.", "C16.basic_optimizer."), case)


SCENARIOS = [
    Scenario("generator_construction_and_hand_over", scn_rng, cases_rng, {"quick": 1, "thorough": 1}),
    Scenario("sampler_passes_generator_to_scipy", scn_sampler_frame, cases_sampler_frame, {"quick": 1, "thorough": 3}),
    Scenario("sampler_invocation_order", scn_order, cases_order, {"quick": 1, "thorough": 3}),
    Scenario("backend_options_not_aliased", scn_options, cases_options, {"quick": 1, "thorough": 1}),
    Scenario("package_frame_scan", scn_scan, cases_scan, {"quick": 1, "thorough": 1}),
    Scenario("native_traces_under_hostile_conditions", scn_native, cases_native, {"quick": 1, "thorough": 4}),
    Scenario("plugin_manager_per_context", scn_context, cases_context, {"quick": 1, "thorough": 1}),
    Scenario("basic_optimizer_runs_are_independent", scn_basic_runs, cases_basic_runs, {"quick": 1, "thorough": 2}),
]

MANIFEST = {
    "category": "other",
    "text": "Effect/frame analysis, not a proof of bit-identity: contracts on the real code show that the only source of randomness is one generator built from config.gradient.seed, "
            "handed unchanged to every sampler and on to SciPy, and that sampler order depends on the configuration only; a syntactic scan of every module excludes global random state, "
            "unseeded generators, time/entropy, `global` and stateful plug-in objects; whole-run traces are compared bit-for-bit natively under reseeding/interleaving (bounded).",
    "note": "determinism of NumPy Generator / SciPy assumed; bit-identity and seed-sensitivity only bounded native evidence; syntactic scan limited to the listed constructs (global random state, unseeded generators, time/entropy, global statements, plug-in state, module-level containers mutated by functions, memoisation)",
    "technique": "contract-based frame verification (reads/modifies clauses checked by symbolic execution of the real source with recording stubs) + syntactic frame scan of the package + bounded native trace comparison",
}
