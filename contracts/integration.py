"""Integration scenario shared by C04 and C05 (and used by C01): the built-in realization filters inside the real
EnsembleEvaluator.

The filter contracts of C04/C05 are stated on `get_realization_weights` under the pre-condition that a failed realization
has NaN in *every* column (the NaN-propagation invariant).  That invariant, the creation of the filter objects by
EnsembleEvaluator.__init__ (index by configured position), the option parsing of DefaultRealizationFilter.__init__, and
the absence of state that survives an evaluation or is shared between instances are contracts of the surrounding code.
This scenario closes the assume/guarantee circle: it enters through the real constructors and the real `calculate`, lets
realizations fail in the objective only or in the constraint only, and states the post-condition of the *property* on
the weight rows and function values that the evaluator reports.

Variants:  plain / unused-filter-first (another filter is configured at index 0 and used by nobody) / second-call (the
evaluator has already evaluated another point, with another failure pattern) / prior-instance (another evaluator and
filter, configured differently, was created and used before in the same interpreter) / second-of-a-batch (the point is the second
member of a batch of two vectors evaluated in one call, the first member having other values: each member is filtered on its own values).
"""
from __future__ import annotations

import itertools
import types

import numpy as np

from contracts import harness as H
from contracts.specs import cvar_spec, sort_window_spec

M = "ropt.plugins.realization_filter.default"
R = 3


def _options(method, variant=0):
    if method == "sort-objective":
        return {"sort": [0], "first": 0, "last": 1} if not variant else {"sort": [0], "first": 1, "last": 2}
    if method == "sort-constraint":
        return {"sort": 0, "first": 1, "last": 2} if not variant else {"sort": 0, "first": 0, "last": 0}
    if method == "cvar-objective":
        return {"sort": [0], "percentile": 0.5 if not variant else 0.25}
    return {"sort": 0, "percentile": 0.5 if not variant else 0.25}


def cases_filter_chain(methods, tier):
    # per realization: o = succeeds, O = NaN in the objective only, C = NaN in the first (ranked) constraint only, D = NaN in the second constraint only
    pats = ["ooo", "oCo", "Ooo", "oOC", "CoO", "oDo", "DoC", "OCD", "OOO"] if tier == "quick" else ["".join(p) for p in itertools.product("oOCD", repeat=R)]
    for method in methods:
        bks = ("upper", "lower", "equality") if method == "cvar-constraint" else ("upper",)
        for bk in bks:
            for variant in ("plain", "unused-filter-first", "second-call", "prior-instance", "second-of-a-batch"):
                extra = []
                if method == "cvar-objective" and variant == "plain":
                    # I = a successful realization whose ranked value is -inf (unboundedly good): outside the tail, weight exactly zero,
                    # so it must not show in the reported tail mean (0 * inf would be NaN)
                    extra = ["ooI", "IoC"]
                for pat in pats + extra:
                    if tier == "quick" and variant != "plain" and pat not in ("oCo", "Ooo", "oDo"):
                        continue
                    yield "%s/%s/%s/%s" % (method, bk, variant, pat), {"method": method, "bounds": bk, "variant": variant, "pattern": pat}


def _build(T, ch, case, method, bk, options, tables, unused_first=False, tag=""):
    """-> (evaluator, configured weights, rhs).  One objective, two constraints; the filter is mapped to the objective (objective
    methods) or to the first constraint (constraint methods); the second constraint is never filtered nor ranked."""
    cfgw = T.real("weights" + tag, (R,), lo=0.001)
    rhs = T.real("rhs" + tag, ())
    lower = {"upper": -np.inf, "lower": rhs, "equality": rhs}[bk]
    upper = {"upper": rhs, "lower": np.inf, "equality": rhs}[bk]
    idx = 1 if unused_first else 0
    on_objective = method.endswith("objective") or method.endswith("objectives")
    cfg = H.make_config(T, R, 1, 2, 2, weights=cfgw, ow=T.const(np.array([1.0])), omap_flt=[idx] if on_objective else None,
                        cmap_flt=None if on_objective else [idx, -1], min_success=1, nl_lb=T.np.array([lower, -np.inf]), nl_ub=T.np.array([upper, 5.0]))
    entries = [types.SimpleNamespace(method=method, options=dict(options))]
    if unused_first:
        entries.insert(0, types.SimpleNamespace(method="sort-objective", options={"sort": [0], "first": 0, "last": 0}))
    fcls = ch.get(M, "DefaultRealizationFilter")
    # (in a batch the rows come member by member: k // R is the member)
    pick = lambda name, r, k: tables[name + "_member0"][r] if k // R == 0 and (name + "_member0") in tables else tables[name][r]  # noqa: E731
    sev = H.ScriptedEvaluator(T, ch, lambda v, r, p, k: pick("O", r, k), lambda v, r, p, k: pick("C", r, k))
    ev = H.make_evaluator(T, ch, cfg, sev, filters=entries, configured={"realization_filters": tuple(entries)},
                          factories={"realization_filter": lambda config, index: fcls(config, index)})
    return ev, cfgw, rhs


def scn_filter_chain(T, case, prefix):
    from ropt.exceptions import OptimizationAborted

    method, bk, variant, pat = case["method"], case["bounds"], case["variant"], case["pattern"]
    ch = H.Chain(T)
    if T.symbolic:
        for q in ("DefaultRealizationFilter.__init__", "DefaultRealizationFilter.get_realization_weights", "DefaultRealizationFilter._sort_objectives",
                  "DefaultRealizationFilter._sort_constraint", "DefaultRealizationFilter._cvar_objectives", "DefaultRealizationFilter._cvar_constraint",
                  "DefaultRealizationFilter._check_range", "_sort_and_select", "_get_cvar_weights_from_percentile"):
            T.under_contract(ch.sh, M, q)
        T.under_contract(ch.sh, H.CHAIN[0], "EnsembleEvaluator.__init__")
        T.under_contract(ch.sh, H.CHAIN[0], "EnsembleEvaluator._init_realization_filters")
    failed = [c not in "oI" for c in pat]
    onan = np.array([[c == "O"] for c in pat])
    cnan = np.array([[c == "C", c == "D"] for c in pat])
    okinds = np.array([["-inf" if c == "I" else ("nan" if c == "O" else "fin")] for c in pat], dtype=object)
    rng_ = {"lo": -1e6, "hi": 1e6} if "I" in pat else {}  # finite values stay inside the double range (nan_to_num maps -inf to the double minimum)
    tables = {"O": T.real("O", (R, 1), nan=onan, kinds=okinds, **rng_), "C": T.real("C", (R, 2), nan=cnan)}
    options = _options(method)
    x = T.real("x", (2,))
    try:
        if variant == "prior-instance":
            # another evaluator with the same method, other options and another kind of bound, created and used first
            other = {"upper": "lower", "lower": "equality", "equality": "upper"}[bk]
            t0 = {"O": T.real("O_prior", (R, 1)), "C": T.real("C_prior", (R, 2))}
            ev0, _, _ = _build(T, ch, case, method, other, _options(method, 1), t0, tag="_prior")
            ev0.calculate(T.real("x_prior", (2,)), compute_functions=True, compute_gradients=False)
        live = dict(tables)
        ev, cfgw, rhs = _build(T, ch, case, method, bk, options, live, unused_first=(variant == "unused-filter-first"))
        if variant == "second-call":
            # the same evaluator has already evaluated another point where the last realization failed
            first_nan = np.array([[False], [False], [True]])
            live["O"], live["C"] = T.real("O_first", (R, 1), nan=first_nan), T.real("C_first", (R, 2))
            ev.calculate(T.real("x_first", (2,)), compute_functions=True, compute_gradients=False)
            live["O"], live["C"] = tables["O"], tables["C"]
        if variant == "second-of-a-batch":
            live["O_member0"], live["C_member0"] = T.real("O_member0", (R, 1)), T.real("C_member0", (R, 2))
            _, res = ev.calculate(T.np.stack([T.real("x_member0", (2,)), x]), compute_functions=True, compute_gradients=False)
        else:
            (res,) = ev.calculate(x, compute_functions=True, compute_gradients=False)
    except OptimizationAborted as exc:
        # the filters run before the min-success gate: a filter that finds no successful member to select ends the evaluation with
        # TOO_FEW_REALIZATIONS (sort: the window starts beyond the successes; CVaR: nothing succeeded) - and only then
        from ropt.enums import OptimizerExitCode

        m = R - sum(failed)
        T.prove(prefix + ".chain.abort_code_is_too_few_realizations", exc.exit_code == OptimizerExitCode.TOO_FEW_REALIZATIONS)
        T.prove(prefix + ".chain.abort_only_when_the_filter_can_select_no_successful_member", (options["first"] >= m) if method.startswith("sort") else (m == 0))
        return
    T.prove(prefix + ".chain.failed_flags_cover_failures_in_any_column", [bool(v) for v in res.realizations.failed_realizations] == failed)
    m = R - sum(failed)
    # ... and conversely: when the filter can select no successful member (sort: the window starts beyond the successes; CVaR: nothing
    # succeeded) the evaluation ends with TOO_FEW_REALIZATIONS instead of producing a value - it has not, here
    T.prove(prefix + ".chain.a_filter_that_can_select_no_successful_member_ends_the_evaluation", not ((options["first"] >= m) if method.startswith("sort") else (m == 0)))
    if m == 0:
        T.prove(prefix + ".chain.no_functions_when_every_realization_failed", res.functions is None)
        return
    # the per-realization values reported with the result are the evaluator's rows, a failed realization NaN in every column -
    # whatever a filter did with them on the way
    ev_o, ev_c = res.evaluations.objectives, res.evaluations.constraints
    T.prove(prefix + ".chain.reported_evaluations_are_the_evaluator_rows_failed_realizations_all_nan",
            T.all([(T.same(ev_o[r, :], tables["O"][r, :]) & T.same(ev_c[r, :], tables["C"][r, :])) if not failed[r]
                   else T.all([T.np.isnan(ev_o[r, 0]), T.np.isnan(ev_c[r, 0]), T.np.isnan(ev_c[r, 1])]) for r in range(R)]))
    T.prove(prefix + ".chain.functions_present", res.functions is not None)
    if res.functions is None:
        return
    on_objective = method.endswith("objective")
    rows = res.realizations.objective_weights if on_objective else res.realizations.constraint_weights
    other_rows = res.realizations.constraint_weights if on_objective else res.realizations.objective_weights
    T.prove(prefix + ".chain.filtered_function_reports_its_weight_row", rows is not None and tuple(rows.shape) == ((1 if on_objective else 2), R))
    if rows is None:
        return
    if other_rows is not None:
        T.prove(prefix + ".chain.unfiltered_function_keeps_the_configured_weights", T.all([T.same(other_rows[k, :], cfgw) for k in range(other_rows.shape[0])]))
    if not on_objective:
        T.prove(prefix + ".chain.unfiltered_function_keeps_the_configured_weights", T.same(rows[1, :], cfgw))
    w = rows[0, :]
    vals = tables["O"] if on_objective else tables["C"]
    key = [vals[r, 0] if not failed[r] else 0.0 for r in range(R)]
    if method.startswith("sort"):
        sort_window_spec(T, prefix + ".chain", key, cfgw, failed, options["first"], options["last"], w)
    else:
        if on_objective or bk == "upper":
            bad = key
        elif bk == "lower":
            bad = [-v for v in key]
        else:
            bad = [abs(v - rhs) for v in key]
        cvar_spec(T, prefix + ".chain", bad, failed, options["percentile"], w)
    # the reported value of the filtered function is the mean under the renormalised row (C01's clause, here with a real filter)
    z = [w[r] if not failed[r] else 0.0 * w[r] for r in range(R)]
    tot = T.total(z)
    # (a member with weight exactly zero contributes nothing, whatever its value - also an infinite one)
    want = T.total([T.ite(T.same(z[r], 0.0), 0.0 * tot, (z[r] / tot) * key[r]) if pat[r] == "I" else (z[r] / tot) * key[r] for r in range(R)])
    got = res.functions.objectives[0] if on_objective else res.functions.constraints[0]
    T.prove(prefix + ".chain.value_is_the_mean_under_the_filter_weights", T.implies(tot > 0, T.same(got, want)))
    # ... and of the other function the mean under the configured weights
    ovals = tables["C"] if on_objective else tables["O"]
    zc = [cfgw[r] if not failed[r] else 0.0 * cfgw[r] for r in range(R)]
    totc = T.total(zc)
    wantc = T.total([(zc[r] / totc) * (ovals[r, 0] if not failed[r] else 0.0) for r in range(R)])
    gotc = res.functions.constraints[0] if on_objective else res.functions.objectives[0]
    T.prove(prefix + ".chain.unfiltered_value_is_the_mean_under_the_configured_weights", T.same(gotc, wantc))
    want2 = T.total([(zc[r] / totc) * (tables["C"][r, 1] if not failed[r] else 0.0) for r in range(R)])
    T.prove(prefix + ".chain.unfiltered_value_is_the_mean_under_the_configured_weights", T.same(res.functions.constraints[1], want2))
