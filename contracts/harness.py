"""Shared scenario harness for the ensemble-evaluator chain (C01, C02, C03, C06, C09).

Builds - in symbolic mode from shadow modules (real source, `np` shim), in concrete mode from the real
modules - an EnsembleEvaluator whose configuration is a plain record of arrays (the validated-configuration
invariant of DESIGN 3.4 is the pre-condition: weights normalised and >= 0, arrays of full length, thresholds
clamped), whose evaluator is a scripted function, and whose plug-ins are either the default ones (under
contract) or abstract ones (interface contract).
"""
from __future__ import annotations

import importlib
import types

import numpy as np

CHAIN = [
    "ropt.ensemble_evaluator._ensemble_evaluator",
    "ropt.ensemble_evaluator._evaluator_results",
    "ropt.ensemble_evaluator._function",
    "ropt.ensemble_evaluator._gradient",
    "ropt.ensemble_evaluator._utils",
    "ropt.evaluator._evaluator",
    "ropt.plugins.function_estimator.default",
    "ropt.plugins.realization_filter.default",
    "ropt.results._utils",
    "ropt.results._constraint_info",
    "ropt.results._function_evaluations",
    "ropt.results._gradient_evaluations",
    "ropt.results._functions",
    "ropt.results._gradients",
    "ropt.results._realizations",
    "ropt.results._results",
    "ropt.results._function_results",
    "ropt.results._gradient_results",
]

UNDER_CONTRACT = [
    ("ropt.ensemble_evaluator._ensemble_evaluator", "EnsembleEvaluator.calculate"),
    ("ropt.ensemble_evaluator._ensemble_evaluator", "EnsembleEvaluator._calculate_functions"),
    ("ropt.ensemble_evaluator._ensemble_evaluator", "EnsembleEvaluator._calculate_one_set_of_functions"),
    ("ropt.ensemble_evaluator._ensemble_evaluator", "EnsembleEvaluator._calculate_gradients"),
    ("ropt.ensemble_evaluator._ensemble_evaluator", "EnsembleEvaluator._calculate_both"),
    ("ropt.ensemble_evaluator._ensemble_evaluator", "EnsembleEvaluator._compute_functions"),
    ("ropt.ensemble_evaluator._ensemble_evaluator", "EnsembleEvaluator._compute_gradients"),
    ("ropt.ensemble_evaluator._ensemble_evaluator", "EnsembleEvaluator._expand_gradients"),
    ("ropt.ensemble_evaluator._ensemble_evaluator", "EnsembleEvaluator._calculate_filtered_realization_weights"),
    ("ropt.ensemble_evaluator._evaluator_results", "_get_function_results"),
    ("ropt.ensemble_evaluator._evaluator_results", "_get_gradient_results"),
    ("ropt.ensemble_evaluator._evaluator_results", "_get_function_and_gradient_results"),
    ("ropt.ensemble_evaluator._evaluator_results", "_get_active_realizations"),
    ("ropt.ensemble_evaluator._evaluator_results", "_propagate_nan_values"),
    ("ropt.ensemble_evaluator._evaluator_results", "_FunctionEvaluatorResults.__post_init__"),
    ("ropt.ensemble_evaluator._evaluator_results", "_GradientEvaluatorResults.__post_init__"),
    ("ropt.ensemble_evaluator._function", "_calculate_estimated_functions"),
    ("ropt.ensemble_evaluator._function", "_calculate_estimated_objectives"),
    ("ropt.ensemble_evaluator._function", "_calculate_estimated_constraints"),
    ("ropt.ensemble_evaluator._gradient", "_calculate_estimated_gradients"),
    ("ropt.ensemble_evaluator._gradient", "_calculate_gradient"),
    ("ropt.ensemble_evaluator._gradient", "_estimate_gradients"),
    ("ropt.ensemble_evaluator._gradient", "_estimate_merged_gradient"),
    ("ropt.ensemble_evaluator._gradient", "_perturb_variables"),
    ("ropt.ensemble_evaluator._gradient", "_apply_bounds"),
    ("ropt.ensemble_evaluator._utils", "_get_failed_realizations"),
    ("ropt.evaluator._evaluator", "EvaluatorContext.__post_init__"),
    ("ropt.plugins.function_estimator.default", "DefaultFunctionEstimator.calculate_function"),
    ("ropt.plugins.function_estimator.default", "DefaultFunctionEstimator.calculate_gradient"),
    ("ropt.plugins.function_estimator.default", "DefaultFunctionEstimator._calculate_function_mean"),
    ("ropt.plugins.function_estimator.default", "DefaultFunctionEstimator._calculate_function_stddev"),
    ("ropt.plugins.function_estimator.default", "DefaultFunctionEstimator._calculate_gradient_mean"),
    ("ropt.plugins.function_estimator.default", "DefaultFunctionEstimator._calculate_gradient_stddev"),
    ("ropt.plugins.function_estimator.default", "DefaultFunctionEstimator._mean_stddev"),
    ("ropt.results._utils", "_immutable_copy"),
    ("ropt.results._function_evaluations", "FunctionEvaluations.__post_init__"),
    ("ropt.results._gradient_evaluations", "GradientEvaluations.__post_init__"),
    ("ropt.results._functions", "Functions.__post_init__"),
    ("ropt.results._gradients", "Gradients.__post_init__"),
    ("ropt.results._realizations", "Realizations.__post_init__"),
]


class Chain:
    """Access to the classes/functions of the chain in the current mode."""

    def __init__(self, T, stubs=None, note=True):
        self.T = T
        if T.symbolic:
            self.sh = T.shadow(CHAIN, stubs)
            if note:
                for m, q in UNDER_CONTRACT:
                    T.under_contract(self.sh, m, q, stubs)
        else:
            self.sh = None

    def get(self, mod, name):
        if self.T.symbolic:
            return self.sh.get(mod, name)
        obj = importlib.import_module(mod)
        for part in name.split("."):
            obj = getattr(obj, part)
        return obj


class AbstractFilter:
    """Interface contract of RealizationFilter: returns some (R,) weight vector (here: a given symbolic one)."""

    def __init__(self, w):
        self.w, self.calls = w, 0

    def get_realization_weights(self, objectives, constraints):
        self.calls += 1
        return self.w.copy()


def estimator(chain, method, merge=False):
    """A DefaultFunctionEstimator made by its real constructor (the constructor is part of the code under contract: state that
    it sets up is the state the methods run in)."""
    cls = chain.get("ropt.plugins.function_estimator.default", "DefaultFunctionEstimator")
    cfg = types.SimpleNamespace(function_estimators=(types.SimpleNamespace(method=method, options={}),),
                                gradient=types.SimpleNamespace(merge_realizations=merge))
    return cls(cfg, 0)


class FakePluginManager:
    """Interface contract of PluginManager as EnsembleEvaluator.__init__ uses it (C19 proves the real one): get_plugin(type,
    method) returns a plug-in whose create(config, index, ...) returns the object for that configured index.  The objects are
    supplied by the scenario, indexed by their position in config.realization_filters / function_estimators / samplers, so an
    evaluator that drops, reorders or shares entries ends up with other objects than the configuration names."""

    def __init__(self, filters=(), estimators=(), samplers=(), factories=None):
        self.objects = {"realization_filter": list(filters), "function_estimator": list(estimators), "sampler": list(samplers)}
        self.factories = factories or {}
        self.created = []

    def get_plugin(self, plugin_type, method):
        mgr = self

        class _Plugin:
            def create(self, config, index, *rest):
                mgr.created.append((plugin_type, method, index, rest))
                if plugin_type in mgr.factories:
                    return mgr.factories[plugin_type](config, index, *rest)
                return mgr.objects[plugin_type][index]

        return _Plugin()


def make_config(T, R, J, K, N, *, weights, ow, P=1, omap_est=None, cmap_est=None, omap_flt=None, cmap_flt=None, min_success=None,
                pert_min_success=None, mask=None, lb=None, ub=None, nl_lb=None, nl_ub=None, magnitudes=None, boundary_types=None, merge=False,
                linear=None, samplers=None):
    ia = lambda m: None if m is None else np.array(m, dtype=np.intc)  # noqa: E731
    return types.SimpleNamespace(
        realizations=types.SimpleNamespace(weights=weights, realization_min_success=R if min_success is None else min_success),
        objectives=types.SimpleNamespace(weights=ow, function_estimators=ia(omap_est), realization_filters=ia(omap_flt)),
        nonlinear_constraints=None if not K else types.SimpleNamespace(
            lower_bounds=T.const(np.zeros(K)) if nl_lb is None else nl_lb, upper_bounds=T.const(np.ones(K)) if nl_ub is None else nl_ub,
            function_estimators=ia(cmap_est), realization_filters=ia(cmap_flt)),
        gradient=types.SimpleNamespace(perturbation_min_success=P if pert_min_success is None else pert_min_success, number_of_perturbations=P,
                                       samplers=ia(samplers), perturbation_magnitudes=T.const(np.full(N, 0.1)) if magnitudes is None else magnitudes,
                                       boundary_types=np.full(N, 1, dtype=np.ubyte) if boundary_types is None else np.array(boundary_types, dtype=np.ubyte),
                                       merge_realizations=merge, seed=1),
        variables=types.SimpleNamespace(lower_bounds=T.const(np.full(N, -np.inf)) if lb is None else lb, upper_bounds=T.const(np.full(N, np.inf)) if ub is None else ub,
                                        mask=None if mask is None else np.array(mask, dtype=bool), initial_values=T.const(np.zeros(N))),
        linear_constraints=linear,
    )


def make_evaluator(T, chain, config, evaluator, filters=(), estimators=None, samplers=(), transforms=None, factories=None, configured=None):
    """An EnsembleEvaluator made by its real constructor with the plug-in objects of the scenario behind a FakePluginManager.
    `configured` optionally names the configured entries (method/options records); by default one anonymous entry per object."""
    cls = chain.get("ropt.ensemble_evaluator._ensemble_evaluator", "EnsembleEvaluator")
    estimators = [estimator(chain, "mean")] if estimators is None else list(estimators)
    ent = lambda objs, kind: tuple(types.SimpleNamespace(method="contract/%s%d" % (kind, i), options={}) for i in range(len(objs)))  # noqa: E731
    configured = configured or {}
    if not hasattr(config, "realization_filters") or "realization_filters" in configured:
        config.realization_filters = configured.get("realization_filters", ent(filters, "filter"))
    if not hasattr(config, "function_estimators") or "function_estimators" in configured:
        config.function_estimators = configured.get("function_estimators", ent(estimators, "estimator"))
    if not hasattr(config, "samplers") or "samplers" in configured:
        config.samplers = configured.get("samplers", ent(samplers, "sampler"))
    pm = FakePluginManager(filters, estimators, samplers, factories)
    ev = cls(config, transforms, evaluator, pm)
    ev.__dict__.setdefault("_harness_plugin_manager", pm)
    return ev


class ScriptedEvaluator:
    """User evaluator: returns rows of a prepared table according to the labels it is called with; records every call."""

    def __init__(self, T, chain, fobj, fcon=None, memo=False):
        self.T, self.fobj, self.fcon = T, fobj, fcon
        self.calls = []
        self.returned = []
        self.Result = chain.get("ropt.evaluator._evaluator", "EvaluatorResult")

    def __call__(self, variables, context):
        np_ = self.T.np
        reals = [int(r) for r in context.realizations]
        perts = [None] * len(reals) if context.perturbations is None else [int(p) for p in context.perturbations]
        self.calls.append({"variables": variables, "realizations": reals, "perturbations": perts, "context": context})
        objs = np_.array([self.fobj(variables[k], reals[k], perts[k], k) for k in range(len(reals))])
        cons = None if self.fcon is None else np_.array([self.fcon(variables[k], reals[k], perts[k], k) for k in range(len(reals))])
        res = self.Result(objectives=objs, constraints=cons)
        self.returned.append((res, objs, None if cons is None else cons, objs.copy(), None if cons is None else cons.copy()))
        return res


class FakeSampler:
    """Sampler interface contract (C17 proves it for the built-in sampler): returns an (R, P, N) array that is zero outside its
    mask; the samples themselves are given (symbolic) values."""

    def __init__(self, samples):
        # a replaying sampler (a valid plug-in: deterministic injection of a stored stencil): it hands out the SAME array object on
        # every call - code that modifies what a sampler returned corrupts every later request, and the scenarios see it
        self.samples, self.calls = samples, 0
        self._replay = samples.copy()

    def generate_samples(self):
        self.calls += 1
        return self._replay


class InvertContract:
    """Contract stub of ropt.ensemble_evaluator._gradient:_invert_linear_equations (truncated-SVD least squares).

    requires  COND(M): full column rank and smallest squared singular value >= 1% of the total (hypothesis of C02)
    ensures   result is THE least-squares solution: for every vector x,  M^T M x = M^T v  =>  result = x.
    The universally quantified post-condition is instantiated at the ghost vectors supplied by the scenario.  The stub is a
    function: equal arguments give the same result object (needed by the relational obligations of C03).
    The real body is checked against this contract only at run time on random well-conditioned systems (bounded)."""

    def __init__(self, T, ghosts=()):
        self.T, self.ghosts, self.memo, self.calls = T, list(ghosts), {}, []

    def __call__(self, matrix, vector):
        import z3

        from roptvc import snp, sym

        T = self.T
        M, v = snp._obj(matrix), snp._obj(vector)
        rows, n = M.shape
        c = sym.ctx()
        g = np.empty(n, dtype=object)
        for i in range(n):
            g[i] = sym.XR(z3.Real(c.fresh_name("lsq")))
        g = g.view(snp.SymArray)
        # the solve is a function: equal systems (semantically, not only syntactically) have equal solutions
        for (M0, v0, g0) in self.memo.get((rows, n), []):
            same_args = T.all([T.same(M[k, i], M0[k, i]) for k in range(rows) for i in range(n)] + [T.same(v[k], v0[k]) for k in range(rows)])
            c.assume(T.implies(same_args, T.all([T.same(g[i], g0[i]) for i in range(n)])))
        self.memo.setdefault((rows, n), []).append((M.copy(), v.copy(), g.copy()))
        MtM = [[T.total([M[k, i] * M[k, j] for k in range(rows)]) for j in range(n)] for i in range(n)]
        Mtv = [T.total([M[k, i] * v[k] for k in range(rows)]) for i in range(n)]
        for x in self.ghosts:
            if len(x) != n:
                continue
            normal = T.all([T.same(T.total([MtM[i][j] * x[j] for j in range(n)]), Mtv[i]) for i in range(n)])
            c.assume(T.implies(normal, T.all([T.same(g[i], x[i]) for i in range(n)])))
        self.calls.append((matrix, vector))
        return g.copy()
