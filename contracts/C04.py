"""C04 - CVaR filter weights realise the tail expectation over the worst fraction.

Functions under contract:
  ropt.plugins.realization_filter.default:_get_cvar_weights_from_percentile
  ...:DefaultRealizationFilter._cvar_objectives / _cvar_constraint / get_realization_weights
"""
from __future__ import annotations

import itertools
import types
from fractions import Fraction

import numpy as np

from contracts.C05 import _filter, _masks
from contracts.specs import cvar_spec
from roptvc.driver import Scenario

M = "ropt.plugins.realization_filter.default"
LEVEL = "proof"
EXPLANATION = (
    "Post-condition from the statement: with m successful members and k = floor(p*m), mass 1/m on every member that is certainly among the k worst, "
    "p - k/m on the member of rank k, zero beyond and on failed members, all weights >= 0 and summing to p. Proved by z3 on the real "
    "_get_cvar_weights_from_percentile and on the objective/constraint flavours (ranking key and sign convention per bound kind) for all real "
    "values (ties admitted), every failure mask and ALL percentiles in (0,1] (symbolic p; int(p*m) forks over its feasible values), per ensemble "
    "size n <= 3 (quick) / 6 (thorough). In real arithmetic the one-ulp hazards of the statement do not exist; they are decided by a second, BIT-PRECISE run of the same real "
    "kernel in which the percentile is an IEEE-754 binary64 term (z3 FloatingPoint theory, round-to-nearest-even): for each ensemble size n <= 24 (quick) / 96 (thorough) and for "
    "ALL doubles p in (0,1] every weight is >= 0, positive weights form a prefix of the ranking, at most one member beyond the full shares is active and no weight exceeds a full "
    "share by more than rounding. A bounded native grid (all a/b with b <= 20 and b = 10n, n <= 7, every failure mask) is kept as a cross-check."
)
ASSUMPTIONS = [
    "np.argsort contract: a permutation that sorts ascending with NaN last; ties in any order",
    "inputs satisfy the NaN-propagation invariant (a failed realization has NaN in every column)",
    "machine arithmetic treated as mathematical in the rank/mass obligations; the rounding clause is proved bit-precisely per ensemble size (n <= 24 quick / 96 thorough), not for all n",
    "two-sided (lower and upper finite, different) constraint rows: the statement does not define 'worst', only mass/sign/failed clauses are required",
]


# ---------------------------------------------------------------------------------- kernel
def cases_kernel(tier):
    for n in ((1, 2, 3) if tier == "quick" else (1, 2, 3, 4, 5, 6)):
        for failed in _masks(n):
            yield "n%d/%s" % (n, "".join("F" if f else "o" for f in failed)), {"n": n, "failed": failed}
    # large ensembles: bounded run-time checking of the same specification on the real code only (not a proof; the proof is per
    # enumerated size above) - sizes past any small-ensemble special case, with and without failures
    for n in (8, 17, 24, 40) + ((64, 100) if tier == "thorough" else ()):
        for nf in (0, 3):
            failed = [(i * 7 + 3) % n < nf for i in range(n)]
            yield "large/n%d/failures=%d" % (n, nf), {"n": n, "failed": failed, "__concrete_only__": True}


def scn_kernel(T, case):
    f = T.func(M, "_get_cvar_weights_from_percentile")
    n, failed = case["n"], case["failed"]
    vals = T.real("values", (n,))
    p = T.real("percentile", (), lo=0.0, hi=1.0)
    T.assume(p > 0)
    try:
        w = f(vals, np.array(failed, dtype=bool), p)
    except ZeroDivisionError:
        T.fail("C04.kernel.no_internal_exception", "ZeroDivisionError")
        return
    T.prove("C04.kernel.shape", tuple(w.shape) == (n,))
    cvar_spec(T, "C04.kernel", [-vals[i] for i in range(n)], failed, p, w)


# exact-rational percentile grid, native only (bounded stand-in for the rounding clause)
def cases_grid(tier):
    nmax = 5 if tier == "quick" else 7
    for n in range(1, nmax + 1):
        ps = sorted({Fraction(a, b) for b in list(range(1, 21)) + [10 * n, 100] for a in range(1, b + 1)})
        if tier == "quick":
            ps = [q for q in ps if q.denominator in (1, 2, 3, 4, 5, 7, 10, 20, 10 * n)]
        yield "grid/n%d" % n, {"n": n, "ps": [[q.numerator, q.denominator] for q in ps], "__concrete_only__": True}


def scn_grid(T, case):
    f = T.func(M, "_get_cvar_weights_from_percentile")
    n = case["n"]
    vals = T.real("values", (n,))
    for failed in _masks(n):
        m = n - sum(failed)
        for a, b in case["ps"]:
            p = a / b
            w = f(vals, np.array(failed, dtype=bool), p)
            tag = "p=%d/%d n=%d failed=%s" % (a, b, n, failed)
            T.prove("C04.grid.non_negative_for_every_double_on_the_grid", bool(np.all(w >= 0)), tag)
            T.prove("C04.grid.failed_members_get_zero", bool(np.all(w[np.array(failed, dtype=bool)] == 0)), tag)
            if m:
                # the percentile the code sees is the double nearest to a/b: reason about that number exactly
                pm = Fraction(p) * m
                k = pm.numerator // pm.denominator
                near = round(pm)
                nz = int(np.count_nonzero(w))
                if abs(pm - near) < Fraction(1, 10**9):
                    # p*m within rounding of an integer: the boundary member's share is zero up to rounding, so it may or may
                    # not be listed, but no further member may become active
                    ok_nz = nz in (near, near + 1) and nz <= m
                else:
                    ok_nz = nz == k + 1
                T.prove("C04.grid.active_members_match_the_tail", ok_nz, tag + " nonzero=%d" % nz)
                T.prove("C04.grid.total_mass_is_percentile", abs(float(w.sum()) - p) < 1e-12, tag)
                T.prove("C04.grid.no_weight_exceeds_one_over_m", bool(np.all(w <= 1.0 / m + 1e-15)), tag)


# ---------------------------------------------------------------------------------- bit-precise kernel (IEEE-754 binary64, all doubles)
def cases_fp(tier):
    nmax = 24 if tier == "quick" else 96
    for n in range(1, nmax + 1):
        yield "binary64/n%d" % n, {"n": n}


def scn_fp(T, case):
    """The real kernel with the percentile a bit-precise binary64 value: every double in (0, 1], for one ensemble size.
    int(p*n) forks over its n+1 possible values; the remaining arithmetic is exact IEEE round-to-nearest-even."""
    f = T.func(M, "_get_cvar_weights_from_percentile")
    n = case["n"]
    p = T.fp("percentile", lo=0.0, hi=1.0, lo_open=True)
    vals = np.arange(float(n))  # ranks are irrelevant to the rounding clause: member i has rank i
    w = f(vals, np.zeros(n, dtype=bool), p)
    ws = [w[i] for i in range(n)]
    T.prove("C04.binary64.every_weight_non_negative_for_every_double", T.all([x >= 0 for x in ws]))
    # the weights are the full share 1/n on a prefix of the ranking, at most one further positive weight, zero beyond
    full = 1.0 / n
    nfull = T.count([(x == full) if T.symbolic else bool(x == full) for x in ws])
    npos = T.count([x > 0 for x in ws])
    T.prove("C04.binary64.at_most_one_member_beyond_the_full_shares_is_active", npos <= nfull + 1)
    # (the fractional share may exceed 1/n by a few ulps - p = 0.8333333333333333, n = 18 gives 1/18 + 3e-17 - which the statement
    # does not forbid; what must not happen is a weight that is larger than a full share by more than rounding)
    T.prove("C04.binary64.no_weight_exceeds_the_full_share_by_more_than_rounding", T.all([x <= full * (1.0 + 2.0**-48) for x in ws]))
    T.prove("C04.binary64.positive_weights_form_a_prefix_of_the_ranking", T.all([T.implies(ws[i + 1] > 0, ws[i] > 0) for i in range(n - 1)] or [True]))
    # number of full shares is floor(p*n) up to the rounding of the product: n_full/n <= p (+1 ulp) < (n_full+2)/n
    T.prove("C04.binary64.some_member_is_active", npos >= 1)


# ---------------------------------------------------------------------------------- objective / constraint flavours
def cases_flavours(tier):
    n = 3
    masks = _masks(n) if tier == "thorough" else [[False, False, False], [False, True, False], [True, True, True]]
    for failed in masks:
        tag = "".join("F" if f else "o" for f in failed)
        yield "objective/J2-sort01/" + tag, {"kind": "objective", "J": 2, "sort": [0, 1], "failed": failed}
        yield "objective/J2-sort1/" + tag, {"kind": "objective", "J": 2, "sort": [1], "failed": failed}
        yield "objective/J1/" + tag, {"kind": "objective", "J": 1, "sort": [0], "failed": failed}
        for bk in ("upper", "lower", "equality", "two-sided"):
            yield "constraint/%s/%s" % (bk, tag), {"kind": "constraint", "K": 2, "sort": 1, "bounds": bk, "failed": failed}


def scn_flavours(T, case):
    from ropt.enums import OptimizerExitCode
    from ropt.exceptions import OptimizationAborted

    n, failed = 3, case["failed"]
    nanmask = np.array(failed, dtype=bool)
    p = T.real("percentile", (), lo=0.0, hi=1.0)
    T.assume(p > 0)
    cfgw = T.real("weights", (n,), lo=0.0)
    if case["kind"] == "objective":
        J = case["J"]
        ow = T.real("objective_weights", (J,)) if J > 1 else T.const([1.0])
        obj = T.real("objectives", (n, J), nan=np.repeat(nanmask[:, None], J, axis=1))
        con = None
        cfg = types.SimpleNamespace(objectives=types.SimpleNamespace(weights=ow), realizations=types.SimpleNamespace(weights=cfgw), nonlinear_constraints=None)
        flt = _filter(T, "cvar-objective", {"sort": case["sort"], "percentile": p}, cfg)
        # worst = largest weighted sum of the ranked objectives
        bad = [T.total([ow[j] * obj[i, j] for j in case["sort"]]) if not failed[i] else 0.0 for i in range(n)]
    else:
        K, s = case["K"], case["sort"]
        obj = T.real("objectives", (n, 1), nan=nanmask[:, None])
        con = T.real("constraints", (n, K), nan=np.repeat(nanmask[:, None], K, axis=1))
        bk = case["bounds"]
        rhs = T.real("rhs", ())
        rhs2 = T.real("rhs2", ())
        T.assume(rhs2 > rhs + 1.0)
        lower = {"upper": -np.inf, "lower": rhs, "equality": rhs, "two-sided": rhs}[bk]
        upper = {"upper": rhs, "lower": np.inf, "equality": rhs, "two-sided": rhs2}[bk]
        lb = T.np.array([0.0, lower])
        ub = T.np.array([1.0, upper])
        cfg = types.SimpleNamespace(objectives=types.SimpleNamespace(weights=T.const([1.0])), realizations=types.SimpleNamespace(weights=cfgw),
                                    nonlinear_constraints=types.SimpleNamespace(lower_bounds=lb, upper_bounds=ub))
        flt = _filter(T, "cvar-constraint", {"sort": s, "percentile": p}, cfg)
        c = [con[i, s] if not failed[i] else 0.0 for i in range(n)]
        if bk == "upper":
            bad = c  # largest values are the worst
        elif bk == "lower":
            bad = [-x for x in c]  # smallest values are the worst
        elif bk == "equality":
            bad = [abs(x - rhs) for x in c]  # farthest from the target
        else:
            bad = None
    try:
        w = flt.get_realization_weights(obj, con)
    except OptimizationAborted as exc:
        T.prove("C04.filter.abort_code_is_too_few_realizations", exc.exit_code == OptimizerExitCode.TOO_FEW_REALIZATIONS)
        T.prove("C04.filter.abort_only_when_no_member_succeeded", all(failed))
        return
    except (ZeroDivisionError, AssertionError, IndexError) as exc:
        T.fail("C04.filter.no_internal_exception", type(exc).__name__)
        return
    T.prove("C04.filter.all_failed_ends_with_too_few_realizations", not all(failed))
    if bad is not None:
        cvar_spec(T, "C04.filter", bad, failed, p, w)
    else:
        for i in range(n):
            T.prove("C04.filter.non_negative", w[i] >= 0)
            if failed[i]:
                T.prove("C04.filter.failed_members_get_zero", T.same(w[i], 0.0))
        T.prove("C04.filter.total_mass_is_percentile", T.close(T.total([w[i] for i in range(n)]), p, 1e-9))


# ---------------------------------------------------------------------------------- the filter inside the real evaluator
def cases_chain(tier):
    from contracts import integration

    return integration.cases_filter_chain(('cvar-objective', 'cvar-constraint'), tier)


def scn_chain(T, case):
    from contracts import integration

    integration.scn_filter_chain(T, case, "C04")


# ------------------------------------------------------------------------------------ what the plan steps hand on (shared contract)
def cases_steps(tier):
    from contracts import stepcontract

    return stepcontract.cases(tier)


def scn_steps(T, case):
    from contracts import stepcontract

    stepcontract.scenario(T, case, "C04")


# ------------------------------------------------------------------------------------ filters on some functions + failed realizations, one request or two
def cases_filters_and_failures(tier):
    from contracts import C02

    for cid, c in C02.cases_rows(tier):
        if c.get("fail_real") is not None or c.get("fail_pert") is not None:
            yield cid, c


def scn_filters_and_failures(T, case):
    """'Failed realizations get zero weight' at the place where the evaluator applies a filter's weights: the function result flags exactly the realizations whose function evaluation failed - not those that fail only through their perturbations in a combined request - and a flagged realization contributes nothing (C02's weight-row scenario under this property's prefix; the filter is abstract here, the real CVaR filter inside the evaluator is the scenario above)."""
    from contracts import C02
    from contracts.reuse import Renamed

    C02.scn_rows(Renamed(T, "C02.rows.", "C04.combined."), case)


# ------------------------------------------------------------------------------------ each filter's weights reach exactly the functions mapped to it
def cases_filter_rows(tier):
    from contracts import C05

    return C05.cases_rows(tier)


def scn_filter_rows(T, case):
    """The CVaR weights of a filter are in force for exactly the objectives and constraints mapped to that filter - also when another
    filter is in use next to it, at a lower or a higher index (C05's row-mapping scenario under this property's prefix)."""
    from contracts import C05
    from contracts.reuse import Renamed

    C05.scn_rows(Renamed(T, "C05.rows.", "C04.rows."), case)

# ------------------------------------------------------------------------------------ the plug-in makes a filter for the configuration it is given
def cases_plugin_create(tier):
    for first, second in (("upper", "lower"), ("upper", "equality"), ("lower", "upper"), ("equality", "lower")):
        yield "cvar-constraint/%s-then-%s" % (first, second), {"kinds": [first, second]}
    yield "cvar-objective/other-objective-weights", {"kinds": None}


def scn_plugin_create(T, case):
    """'What counts as worst' is read from the configuration of THIS evaluation: the plug-in object (one per process) is asked for a
    filter twice with the same filter options but another configuration (another kind of bound, other objective weights); the
    second filter behaves as a filter constructed directly for the second configuration."""
    n = 3
    if T.symbolic:
        sh = T.shadow([M])
        pcls = T.under_contract(sh, M, "DefaultRealizationFilterPlugin")
        T.under_contract(sh, M, "DefaultRealizationFilterPlugin.create")
        fcls = T.under_contract(sh, M, "DefaultRealizationFilter")
        for q in ("__init__", "get_realization_weights", "_cvar_objectives", "_cvar_constraint"):
            T.under_contract(sh, M, "DefaultRealizationFilter." + q)
        T.under_contract(sh, M, "_get_cvar_weights_from_percentile")
    else:
        pcls, fcls = T.func(M, "DefaultRealizationFilterPlugin"), T.func(M, "DefaultRealizationFilter")
    rhs = T.real("rhs", ())

    def config(kind, ow):
        lower = {"upper": -np.inf, "lower": rhs, "equality": rhs}[kind]
        upper = {"upper": rhs, "lower": np.inf, "equality": rhs}[kind]
        method = "cvar-constraint" if case["kinds"] else "cvar-objective"
        opts = {"sort": 0, "percentile": 0.5} if case["kinds"] else {"sort": [0, 1], "percentile": 0.5}
        return types.SimpleNamespace(realization_filters=(types.SimpleNamespace(method=method, options=opts),), realizations=types.SimpleNamespace(weights=T.const(np.ones(n) / n)),
                                     objectives=types.SimpleNamespace(weights=ow), nonlinear_constraints=types.SimpleNamespace(lower_bounds=T.np.array([lower]), upper_bounds=T.np.array([upper])))

    if case["kinds"]:
        cfgs = [config(k, T.const(np.array([0.5, 0.5]))) for k in case["kinds"]]
    else:
        cfgs = [config("upper", T.const(np.array([0.9, 0.1]))), config("upper", T.const(np.array([0.1, 0.9])))]
    plugin = pcls()
    objectives, constraints = T.real("objectives", (n, 2)), T.real("constraints", (n, 1))
    made = [plugin.create(c, 0) for c in cfgs]
    T.prove("C04.plugin.every_request_gets_its_own_filter_object", made[0] is not made[1])
    for k, c in enumerate(cfgs):
        got = made[k].get_realization_weights(objectives, constraints)
        # the tail specification of C04, with 'worst' read from configuration k
        if case["kinds"]:
            kind = case["kinds"][k]
            bad = [constraints[r, 0] if kind == "upper" else (-constraints[r, 0] if kind == "lower" else abs(constraints[r, 0] - rhs)) for r in range(n)]
        else:
            bad = [T.total([c.objectives.weights[j] * objectives[r, j] for j in range(2)]) for r in range(n)]
        cvar_spec(T, "C04.plugin.request_%d" % (k + 1), bad, [False] * n, 0.5, got)


SCENARIOS = [
    Scenario("kernel", scn_kernel, cases_kernel, {"quick": 5, "thorough": 40}),
    Scenario("flavours", scn_flavours, cases_flavours, {"quick": 5, "thorough": 30}),
    Scenario("rational_grid_native", scn_grid, cases_grid, {"quick": 6, "thorough": 40}),
    Scenario("kernel_bit_precise_binary64", scn_fp, cases_fp, {"quick": 50, "thorough": 300}),
    Scenario("filter_inside_the_evaluator", scn_chain, cases_chain, {"quick": 3, "thorough": 10}),
    Scenario("plan_steps_hand_over", scn_steps, cases_steps, {"quick": 1, "thorough": 2}),
    Scenario("filters_failures_and_combined_requests", scn_filters_and_failures, cases_filters_and_failures, {"quick": 5, "thorough": 30}),
    Scenario("filter_rows", scn_filter_rows, cases_filter_rows, {"quick": 3, "thorough": 20}),
    Scenario("plugin_creates_a_filter_for_the_given_configuration", scn_plugin_create, cases_plugin_create, {"quick": 5, "thorough": 30}),
]

MANIFEST = {
    "category": "proof",
    "text": "Deductive: the CVaR post-condition (1/m on the worst members until mass p, remainder on the boundary member, zero elsewhere and on failures, "
            "non-negative, sum p; ranking key and sign convention per objective / bound kind; all-failed => TOO_FEW_REALIZATIONS and no internal exception) "
            "discharged by z3 on the real kernel and filter methods for all real values, all percentiles in (0,1] and every failure mask, per n <= 3 (quick) / 6 (thorough). "
            "The floating-point clause (p*n within an ulp of an integer) is proved bit-precisely (QF_FP) for all doubles p per ensemble size n <= 24 / 96.",
    "note": "plus the filter inside the real EnsembleEvaluator (real constructors, failures in one column only, unused filter first, repeated calls, prior instances); np.argsort by contract; rank/mass clauses over the reals for n <= 3/6; rounding clause bit-precise (z3 FloatingPoint) for all doubles per n <= 24/96; bounded in ensemble size",
    "technique": "contract-based deductive verification: symbolic execution of the real source under sidecar contracts, VCs discharged by z3/cvc5; bounded run-time contract checking as stand-in",
}
