"""C20 - external-process runs equal in-process runs; process death is never success.

Only the clauses that are contracts on sequential code are decided deductively (see DESIGN section 8): the request loop of
ExternalOptimizer.start against an abstract process / communicator / OS, and the forwarding fidelity of _handle_request
and _PluginOptimizer._callback.  'Never hangs' (liveness) and real two-process schedules are outside contracts.
"""
from __future__ import annotations

import itertools
import types

import numpy as np

from roptvc.driver import Scenario

LEVEL = "other"
MX = "ropt.plugins.optimizer.external"
EXPLANATION = (
    "The real body of ExternalOptimizer.start is executed against an abstract optimizer process (poll() is None until it exits, then always its status), an abstract "
    "communicator (read() yields the child's scripted requests or None, write() may report 'not ready') and a recording OS, for EVERY script of the bounded environment: the child "
    "asks for the configuration, the initial values and 0..2 evaluations, may report an error, and exits with status 0, 3 or -9 after any number of exchanged messages; the "
    "user's evaluator raises at any evaluation; writes may have to be retried. On every path: start returns normally only if the child exited with status 0 and no exception is "
    "pending (process death is never success); an exception of the evaluator or an error reported by the child is always raised; SIGTERM is sent and wait() is called before start "
    "is left, whatever the exit path. _handle_request forwards exactly the requested variables/flags and answers exactly the callback's results; _PluginOptimizer._callback sends "
    "exactly its arguments and returns exactly the answer. JSON transport of doubles is checked natively (bounded); trace equality with the in-process run is checked natively "
    "on a few configurations in the thorough tier."
)
ASSUMPTIONS = [
    "subprocess.Popen.poll()/wait(), os.kill and the FIFO communicator by library/abstract contract; real OS scheduling of two processes is not modelled",
    "liveness ('never hangs') is decided only as a safety bound with ghost state: the parent performs at most 200 reads after the abstract child's last message (the abstract child is gone after a handful of polls); termination in general is not verified",
    "json: float -> repr -> float is the identity on finite doubles (library contract; bounded native check)",
    "trace equality external vs in-process additionally rests on C18 (re-validation of the dumped configuration) and the determinism of SciPy: bounded native evidence only",
    "environment bounded: <= 2 (thorough: 4) evaluations, one fault per run",
]


class OsStub:
    """Abstract `os`: the primitives a scenario scripts are overridden, everything else (constants, PathLike, fspath, ...) is the
    real module's - so that code which starts using another harmless attribute of `os` does not fall over the stub."""

    def __init__(self, **overrides):
        self.__dict__.update(overrides)

    def __getattr__(self, name):
        import os as real_os

        return getattr(real_os, name)


class UserError(RuntimeError):
    pass


class Process:
    """Abstract child: alive for `alive_polls` polls, then exit status `status` for ever."""

    def __init__(self, log, alive_polls, status):
        self.log, self.left, self.status, self.pid, self.returncode = log, alive_polls, status, 4242, None

    def poll(self):
        if self.left > 0:
            self.left -= 1
            return None
        self.returncode = self.status
        return self.status

    def wait(self, timeout=None):
        self.log.append(("wait", timeout))
        self.returncode = self.status
        return self.status


class Hang(BaseException):
    """Ghost bound on waiting: raised by the abstract communicator when the parent goes on reading long after the child has sent its
    last message (the abstract child is gone after at most a handful of polls; a parent that polls it stops long before the bound)."""


IDLE_READS_BOUND = 200


class Comm:
    """Abstract communicator: read() returns the next scripted request (or None), write() may need a retry."""

    def __init__(self, log, script, write_retry, fail_write_at=None):
        self.log, self.script, self.retry, self.fail_write_at, self.writes = log, list(script), write_retry, fail_write_at, 0
        self.idle_reads = 0

    def __enter__(self):
        return self

    def __exit__(self, *a):
        self.log.append(("comm-closed",))

    def read(self):
        if not self.script:
            self.idle_reads += 1
            if self.idle_reads > IDLE_READS_BOUND:
                raise Hang
        return self.script.pop(0) if self.script else None

    def write(self, data):
        if self.retry > 0:
            self.retry -= 1
            return False
        if self.fail_write_at is not None and self.writes == self.fail_write_at:
            # the message cannot be sent (e.g. something in it is not serialisable): library contract of json.dumps / os.write
            self.writes += 1
            raise TypeError("Object of type PosixPath is not JSON serializable")
        self.writes += 1
        self.log.append(("write", data))
        return True


def _recorded_wire_format(T):
    """The scenarios of the parent's request loop and of the child's forwarding script / expect the messages the two halves exchange
    (`{"evaluation": {"variables", "return_functions", "return_gradients"}}` answered by `{"functions", "gradients"}`) - a format
    private to the module.  If the real child no longer words a standard request that way, those scenarios do not bind (the statement
    itself is then judged by the conversation of the two real halves, which does not look at the messages)."""
    from roptvc.sym import ContractUnbound

    sent = []

    class Probe:
        def write(self, data):
            sent.append(data)
            return True

        def read(self):
            return {"functions": [3.5], "gradients": [[1.0, -2.0]]}

    try:
        import ropt.plugins.optimizer.external as real

        saved = real.os
        real.os = OsStub(kill=lambda *a: None)
        try:
            po = real._PluginOptimizer(99)
            po._comm = Probe()
            po._callback(np.array([0.1, 0.2]), return_functions=True, return_gradients=True)
        finally:
            real.os = saved
    except BaseException:  # noqa: BLE001
        sent = None
    if sent != [{"evaluation": {"variables": [0.1, 0.2], "return_functions": True, "return_gradients": True}}]:
        raise ContractUnbound("the messages the two halves of the external optimizer exchange are not the recorded ones (a standard request is now worded %r): "
                              "the scenarios written against that private format do not bind" % (sent,))


def cases_start(tier):
    for n_eval in (0, 1, 2) + ((3, 4) if tier == "thorough" else ()):
        for fault in ("none", "evaluator-raises", "driver-aborts", "child-reports-error", "child-reports-empty-error", "sending-fails"):
            if fault in ("evaluator-raises", "driver-aborts") and n_eval == 0:
                continue
            yield "evaluations=%d/%s" % (n_eval, fault), {"n_eval": n_eval, "fault": fault}
            if fault == "none" and n_eval == 0:
                # the child is gone before it has asked for the configuration, or for the initial values (it crashed at start-up):
                # nothing more will ever arrive - the parent notices that the process has ended and reports it, it does not wait on
                yield "evaluations=0/child-dies-during-the-handshake", {"n_eval": 0, "fault": "child-dies-early"}
            if fault in ("evaluator-raises", "driver-aborts", "child-reports-error") and n_eval == 1:
                # the same optimizer object is started again after a run that ended that way: the second, healthy, run completes
                yield "evaluations=%d/%s/then-started-again" % (n_eval, fault), {"n_eval": n_eval, "fault": fault, "restart": True}


def scn_start(T, case):
    import signal
    import subprocess

    _recorded_wire_format(T)
    n_eval, fault = case["n_eval"], case["fault"]
    log = []
    script = ["config", "initial_values"] + [{"evaluation": {"variables": [0.5 + k, 1.0], "return_functions": True, "return_gradients": bool(k % 2)}} for k in range(n_eval)]
    errmsg = {"child-reports-error": "bad option", "child-reports-empty-error": ""}.get(fault)  # str(exc) of e.g. a bare assert is empty
    if errmsg is not None:
        script.append({"error": errmsg})
    if fault == "child-dies-early":
        script = script[:T.choose(2)]
    # non-determinism of the environment, all explored: after how many polls the child is gone, with which status; write retries; which evaluation raises
    alive = T.choose(len(script) + 3)
    status = (0, 3, -9, -15)[T.choose(4)]  # normal exit, error exit, killed by SIGKILL, killed by SIGTERM (by someone else)
    retry = T.choose(2)
    raise_at = T.choose(n_eval) if fault in ("evaluator-raises", "driver-aborts") else None
    proc = Process(log, alive, status)
    comm = Comm(log, script, retry, fail_write_at=T.choose(len(script)) if fault == "sending-fails" else None)
    env = {"proc": proc, "comm": comm, "raising": True}
    calls = []

    def callback(variables, *, return_functions, return_gradients):
        calls.append((variables.copy(), return_functions, return_gradients))
        if env["raising"] and raise_at is not None and len(calls) - 1 == raise_at:
            if fault == "driver-aborts":
                # the optimizer driver ends a run this way (max_functions reached, user abort, too few realizations)
                from ropt.enums import OptimizerExitCode
                from ropt.exceptions import OptimizationAborted

                raise OptimizationAborted(exit_code=OptimizerExitCode.MAX_FUNCTIONS_REACHED)
            raise UserError("evaluator failed")
        return np.array([1.5, 2.5]), (np.array([[0.25, 0.5]]) if return_gradients else np.array([]))

    class TmpDir:
        def __enter__(self):
            return "/nonexistent/fifo-dir"

        def __exit__(self, *a):
            log.append(("tmpdir-removed",))

    os_stub = OsStub(kill=lambda pid, sig: log.append(("kill", pid, sig)), getpid=lambda: 1)
    stubs = {
        (MX, "subprocess"): types.SimpleNamespace(Popen=lambda args: (log.append(("spawn", list(args))), env["proc"])[1], TimeoutExpired=subprocess.TimeoutExpired),
        (MX, "_JSONPipeCommunicator"): lambda a, b: env["comm"],
        (MX, "PluginManager"): lambda: types.SimpleNamespace(get_plugin=lambda kind, method: types.SimpleNamespace(create=lambda config, cb: types.SimpleNamespace(allow_nan=False, is_parallel=False))),
        (MX, "os"): os_stub,
        (MX, "time"): types.SimpleNamespace(sleep=lambda s: None),
        (MX, "TemporaryDirectory"): TmpDir,
        (MX, "atexit"): types.SimpleNamespace(register=lambda f: log.append(("atexit",))),
    }
    if T.symbolic:
        sh = T.shadow([MX], stubs)
        cls = T.under_contract(sh, MX, "ExternalOptimizer")
        T.under_contract(sh, MX, "ExternalOptimizer.__init__")
        T.under_contract(sh, MX, "ExternalOptimizer.start")
        T.under_contract(sh, MX, "ExternalOptimizer._handle_request")
        restore = None
    else:
        import ropt.plugins.optimizer.external as real

        restore = (real, {k[1]: getattr(real, k[1]) for k in stubs})
        for k, v in stubs.items():
            setattr(real, k[1], v)
        cls = real.ExternalOptimizer
    dumped = {"dumped": "configuration"}
    try:
        # the object is made by its real constructor (whatever state it sets up is the state start() runs in, every time it runs)
        opt = cls(types.SimpleNamespace(model_dump=lambda round_trip=False: dumped, optimizer=types.SimpleNamespace(method="external/slsqp", parallel=True, speculative=False, split_evaluations=False, options=None, max_iterations=None, max_functions=None, tolerance=None, output_dir=None)), callback)
        x0 = np.array([0.125, 0.75])
        from ropt.exceptions import OptimizationAborted as _Aborted

        try:
            opt.start(x0)
            outcome = "returned"
        except _Aborted:
            outcome = "aborted"
        except Hang:
            outcome = "hang"
        except TypeError:
            outcome = "type-error"
        except UserError:
            outcome = "user-error"
        except RuntimeError as exc:
            outcome = "runtime-error:" + str(exc)
        if case.get("restart"):
            # a second run on the same object in a healthy environment: the child asks for the configuration, the initial values
            # and one evaluation, then exits with status 0; nothing of the first run (a stored exception, a pid) plays a role
            log2 = []
            script2 = ["config", "initial_values", {"evaluation": {"variables": [7.5, 1.0], "return_functions": True, "return_gradients": False}}]
            env.update(proc=Process(log2, len(script2) + 2, 0), comm=Comm(log2, script2, 0), raising=False)
            n_before = len(calls)
            try:
                opt.start(np.array([0.5, 0.25]))
                outcome2 = "returned"
            except BaseException as exc:  # noqa: BLE001
                outcome2 = "%s: %s" % (type(exc).__name__, exc)
            T.prove("C20.start.a_second_run_on_the_same_object_is_not_affected_by_how_the_first_one_ended", outcome2 == "returned" and len(calls) == n_before + 1
                    and bool(np.array_equal(calls[-1][0], np.array([7.5, 1.0]))), outcome2)
            del calls[n_before:]
    finally:
        if restore:
            for k, v in restore[1].items():
                setattr(restore[0], k, v)
    evaluator_raised = raise_at is not None and len(calls) > raise_at and fault == "evaluator-raises"
    if fault == "driver-aborts" and raise_at is not None and len(calls) > raise_at:
        # the abort reaches the caller (the driver turns it into the exit code) - and the child is told to stop and reaped like on
        # every other exit path (checked below)
        T.prove("C20.start.an_abort_of_the_driver_is_passed_on_to_the_caller", outcome == "aborted")
    child_error_seen = errmsg is not None and {"error": errmsg} not in comm.script and len(comm.script) == 0
    if fault == "sending-fails" and comm.writes > (comm.fail_write_at or 0):
        # a message that cannot be sent ends the run with that error - and the child is stopped like on every other exit path
        T.prove("C20.start.a_failure_to_send_is_raised_not_swallowed", outcome in ("type-error",) or outcome.startswith("runtime-error"))
    # ---- the parent does not wait for a child that is gone (ghost bound on the reads after the child's last message)
    T.prove("C20.start.the_parent_stops_reading_once_the_child_is_gone", outcome != "hang")
    if outcome == "hang":
        return
    if fault == "child-dies-early" and status != 0:
        T.prove("C20.start.a_child_that_died_during_the_handshake_is_reported_as_an_error", outcome.startswith("runtime-error"))
    # ---- death is never success
    if outcome == "returned":
        T.prove("C20.start.normal_return_implies_child_exited_with_status_zero", status == 0)
        T.prove("C20.start.normal_return_implies_no_pending_exception", not evaluator_raised and not child_error_seen)
    T.prove("C20.start.abnormal_child_exit_is_never_reported_as_success", not (outcome == "returned" and status != 0))
    # ---- no swallowing
    if evaluator_raised:
        T.prove("C20.start.evaluator_exception_is_always_raised", outcome == "user-error")
    if child_error_seen and not evaluator_raised:
        T.prove("C20.start.error_reported_by_the_child_is_always_raised", outcome.startswith("runtime-error:External optimizer error"))
    # ---- reaping on every exit path
    kills = [e for e in log if e[0] == "kill"]
    waits = [e for e in log if e[0] == "wait"]
    T.prove("C20.start.child_is_signalled_and_waited_for_on_every_exit_path", len(kills) >= 1 and kills[-1][1:] == (4242, signal.SIGTERM) and len(waits) >= 1)
    T.prove("C20.start.pipes_and_directory_released", ("comm-closed",) in log and ("tmpdir-removed",) in log)
    # ---- forwarding fidelity (parent side)
    for k, (v, rf, rg) in enumerate(calls):
        T.prove("C20.forward.callback_gets_exactly_the_requested_variables_and_flags", bool(np.array_equal(v, np.array([0.5 + k, 1.0]))) and rf is True and rg is bool(k % 2))
    writes = [e[1] for e in log if e[0] == "write"]
    answered = [w for w in writes if isinstance(w, dict) and "functions" in w]
    T.prove("C20.forward.answers_are_exactly_the_callback_results", all(w["functions"] == [1.5, 2.5] and w["gradients"] in ([[0.25, 0.5]], []) for w in answered))
    if writes:
        T.prove("C20.forward.configuration_request_is_answered_with_the_dumped_configuration", writes[0] is dumped or writes[0] == dumped)
    if len(writes) > 1:
        T.prove("C20.forward.initial_values_are_sent_unchanged", writes[1] == [0.125, 0.75] or writes[1] == "abort")


# ------------------------------------------------------------------------------------ the two real halves talking to each other
def cases_conversation(tier):
    scripts = {
        "vectors": [((2,), True, True), ((2,), True, False), ((2,), False, True)],
        "population-of-three": [((3, 2), True, False), ((3, 2), True, False)],
        "population-of-one": [((1, 2), True, False), ((2, 2), True, False), ((1, 2), True, False)],
        "no-request": [],
    }
    for name, script in scripts.items():
        for outcome in ("ok", "wrapped-optimizer-fails", "wrapped-optimizer-fails-without-message") if name != "no-request" else ("ok", "wrapped-optimizer-fails"):
            yield "%s/%s" % (name, outcome), {"script": [[list(sh), rf, rg] for sh, rf, rg in script], "outcome": outcome}
        for k in range(len(script)):
            if k in (0, len(script) - 1):
                yield "%s/evaluator-raises-at-request-%d" % (name, k), {"script": [[list(sh), rf, rg] for sh, rf, rg in script], "outcome": "evaluator-raises", "at": k}
        if script:
            yield "%s/driver-aborts-at-request-0" % name, {"script": [[list(sh), rf, rg] for sh, rf, rg in script], "outcome": "driver-aborts", "at": 0}


def scn_conversation(T, case):
    """The statement itself ('an external run gives the same evaluations and results as the in-process run, errors are raised, the
    process never outlives the run') on the two REAL halves of the module talking to each other: the parent's start() and - in a
    thread standing for the process that start() spawns - the child's entry point ropt_plugin_optimizer(), joined by an abstract
    pipe (JSON text both ways).  What the halves say to each other is their own business; observed are the two ends only: the
    optimizer that the child creates and starts (a scripted one: it issues requests and records the answers) and the callback that
    the parent was given."""
    import json
    import os as real_os
    import threading
    import time as real_time
    from collections import deque
    from pathlib import Path

    from ropt.exceptions import OptimizationAborted

    script = [(tuple(sh), rf, rg) for sh, rf, rg in case["script"]]
    outcome, at = case["outcome"], case.get("at")
    lock = threading.Lock()
    to_child, to_parent = deque(), deque()
    state = {"terminated": False, "ends": 0}
    seen = {"requests": [], "answers": [], "parent_calls": [], "validated": [], "started": [], "child_status": None, "child_error": None}

    def default(obj):
        if isinstance(obj, np.ndarray):
            return obj.tolist()
        if isinstance(obj, np.generic):
            return obj.item()
        if isinstance(obj, real_os.PathLike):
            return real_os.fspath(obj)
        raise TypeError("not serialisable: %r" % (obj,))

    class End:
        """One end of the abstract pipe (the text that travels is JSON, as on the real pipe)."""

        def __init__(self, read_pipe, write_pipe, timeout=1.0):
            with lock:
                self.parent = state["ends"] == 0
                state["ends"] += 1
            self.paths = (read_pipe, write_pipe)

        def __enter__(self):
            for pth in self.paths:
                Path(pth).touch()
            return self

        def __exit__(self, *a):
            return False

        def write(self, data):
            if not self.parent and state["terminated"]:
                raise SystemExit(143)
            (to_child if self.parent else to_parent).append(json.dumps(data, default=default))
            return True

        def read(self):
            if not self.parent and state["terminated"]:
                raise SystemExit(143)
            q = to_parent if self.parent else to_child
            with lock:
                text = q.popleft() if q else None
            if text is None:
                real_time.sleep(0.0002)
                return None
            return json.loads(text)

    class Wrapped:
        allow_nan, is_parallel = False, False

        def __init__(self, config, callback):
            self.callback = callback

        def start(self, x):
            seen["started"].append(x.copy())
            for k, (shape, rf, rg) in enumerate(script):
                v = (np.arange(int(np.prod(shape)), dtype=np.float64).reshape(shape) + 1.0) / 8.0 + k
                seen["requests"].append((v.copy(), rf, rg))
                seen["answers"].append(self.callback(v, return_functions=rf, return_gradients=rg))
            if outcome.startswith("wrapped-optimizer-fails"):
                raise UserError("" if outcome.endswith("without-message") else "bad option")

    def parent_callback(variables, *, return_functions, return_gradients):
        k = len(seen["parent_calls"])
        seen["parent_calls"].append((variables.copy(), return_functions, return_gradients))
        if at == k and outcome == "evaluator-raises":
            raise UserError("evaluator failed")
        if at == k and outcome == "driver-aborts":
            from ropt.enums import OptimizerExitCode

            raise OptimizationAborted(exit_code=OptimizerExitCode.MAX_FUNCTIONS_REACHED)
        pts = np.atleast_2d(variables)
        f = np.stack([pts.sum(axis=1), pts[:, 0] * 0.5], axis=-1)
        f = f if np.ndim(variables) > 1 else f[0]
        g = np.array([[1.0, 2.0], [0.5, 0.0]]) if return_gradients else np.array([])
        return (f if return_functions else np.array([])), g

    class Proc:
        def __init__(self, args):
            self.args, self.returncode, self.pid = list(args), None, 4242
            self.thread = threading.Thread(target=self._run, daemon=True)
            self.thread.start()

        def _run(self):
            try:
                seen["child_status"] = entry(self.args)
            except SystemExit as exc:
                seen["child_status"] = exc.code if isinstance(exc.code, int) else 0
            except BaseException as exc:  # noqa: BLE001
                seen["child_status"], seen["child_error"] = 1, exc

        def poll(self):
            if self.thread.is_alive():
                return None
            self.returncode = seen["child_status"] if seen["child_status"] is not None else 1
            return self.returncode

        def wait(self, timeout=None):
            self.thread.join(2.0)
            return self.poll()

    holder = {}

    def popen(args):
        holder["proc"] = Proc(args)
        return holder["proc"]

    def kill(pid, sig):
        if pid == 4242 and sig != 0:
            state["terminated"] = True

    dumped = {"optimizer": {"method": "external/scipy/slsqp"}, "variables": {"initial_values": [0.0, 0.0]}, "marker": [1, 2.5, None]}
    sysstub = types.SimpleNamespace(argv=None, exit=lambda code=0: (_ for _ in ()).throw(SystemExit(code)))
    stubs = {
        (MX, "subprocess"): types.SimpleNamespace(Popen=popen, TimeoutExpired=TimeoutError),
        (MX, "_JSONPipeCommunicator"): End,
        (MX, "PluginManager"): lambda: types.SimpleNamespace(get_plugin=lambda kind, method: types.SimpleNamespace(create=lambda config, cb: Wrapped(config, cb))),
        (MX, "EnOptConfig"): types.SimpleNamespace(model_validate=lambda d, **kw: (seen["validated"].append(d), types.SimpleNamespace(optimizer=types.SimpleNamespace(method=d["optimizer"]["method"])))[1]),
        (MX, "os"): OsStub(kill=kill, getpid=lambda: 1),
        (MX, "time"): types.SimpleNamespace(sleep=lambda s_: real_time.sleep(0.0002)),
        (MX, "atexit"): types.SimpleNamespace(register=lambda f: None),
        (MX, "sys"): sysstub,
    }
    if T.symbolic:
        sh = T.shadow([MX], stubs)
        cls = T.under_contract(sh, MX, "ExternalOptimizer")
        for q in ("__init__", "start"):
            T.under_contract(sh, MX, "ExternalOptimizer." + q)
        entry_fn = T.under_contract(sh, MX, "ropt_plugin_optimizer")
        restore = None
    else:
        import ropt.plugins.optimizer.external as real

        restore = (real, {k[1]: getattr(real, k[1]) for k in stubs})
        for k, v in stubs.items():
            setattr(real, k[1], v)
        cls, entry_fn = real.ExternalOptimizer, real.ropt_plugin_optimizer

    def entry(args):
        sysstub.argv = ["ropt_plugin_optimizer"] + list(args)[1:]
        return entry_fn()

    x0 = np.array([0.125, 0.75])
    try:
        opt = cls(types.SimpleNamespace(model_dump=lambda round_trip=False: dumped, optimizer=types.SimpleNamespace(method="external/scipy/slsqp", parallel=True, speculative=False, split_evaluations=False, options=None, max_iterations=None, max_functions=None, tolerance=None, output_dir=None)), parent_callback)
        try:
            opt.start(x0)
            ended = "returned"
        except OptimizationAborted:
            ended = "aborted"
        except UserError:
            ended = "user-error"
        except RuntimeError as exc:
            ended = "runtime-error:" + str(exc)
        proc = holder.get("proc")
        if proc is not None:
            proc.thread.join(2.0)
    finally:
        state["terminated"] = True
        if restore:
            for k, v in restore[1].items():
                setattr(restore[0], k, v)
    def f64(a):
        # (under the engine arrays are the shim's: their element type is carried in `sdtype`)
        return isinstance(a, np.ndarray) and (a.dtype == np.float64 or getattr(a, "sdtype", None) in (np.float64, float))

    def same(a, b):
        a, b = np.asarray(a, dtype=object), np.asarray(b, dtype=object)
        return a.shape == b.shape and all(float(x) == float(y) for x, y in zip(a.reshape(-1), b.reshape(-1)))

    T.prove("C20.conversation.a_process_is_started_and_does_not_outlive_the_run", proc is not None and not proc.thread.is_alive())
    if proc is None:
        return
    n_served = len(script) if at is None else at + 1
    T.prove("C20.conversation.the_child_validates_the_configuration_the_parent_holds", seen["validated"] == [dumped], "validated: %r; the child ended with %r %r" % (seen["validated"], seen["child_status"], seen["child_error"]))
    T.prove("C20.conversation.the_wrapped_optimizer_is_started_once_at_the_initial_values_of_the_run",
            len(seen["started"]) == 1 and f64(seen["started"][0]) and same(seen["started"][0], x0))
    # the same evaluations as in-process: every request of the wrapped optimizer reaches the callback once, with the same array
    # (same shape - a population of one member is a population - same values, same flags), in order
    T.prove("C20.conversation.every_request_reaches_the_callback_exactly_once_in_order", len(seen["parent_calls"]) == min(n_served, len(seen["requests"])) and len(seen["requests"]) >= min(n_served, len(script)))
    for (v, rf, rg), (pv, prf, prg) in zip(seen["requests"], seen["parent_calls"]):
        T.prove("C20.conversation.the_callback_gets_exactly_the_requested_array_and_flags", f64(pv) and same(pv, v) and prf is rf and prg is rg)
    # the same results: what the wrapped optimizer gets back is what the callback returned (shape, dtype, values)
    for k, (fa, ga) in enumerate(seen["answers"]):
        v, rf, rg = seen["requests"][k]
        pts = np.atleast_2d(v)
        f = np.stack([pts.sum(axis=1), pts[:, 0] * 0.5], axis=-1)
        f = f if v.ndim > 1 else f[0]
        wf, wg = (f if rf else np.array([])), (np.array([[1.0, 2.0], [0.5, 0.0]]) if rg else np.array([]))
        T.prove("C20.conversation.the_wrapped_optimizer_gets_exactly_the_results_of_the_callback", f64(fa) and f64(ga) and same(fa, wf) and same(ga, wg))
    # the same way of ending
    if outcome == "ok":
        T.prove("C20.conversation.a_run_that_completes_returns_normally", ended == "returned" and len(seen["answers"]) == len(script) and seen["child_status"] == 0, ended)
    elif outcome.startswith("wrapped-optimizer-fails"):
        T.prove("C20.conversation.an_error_of_the_wrapped_optimizer_is_raised_by_the_parent", ended.startswith("runtime-error:"), ended)
    elif outcome == "evaluator-raises":
        T.prove("C20.conversation.an_exception_of_the_evaluator_reaches_the_caller_and_ends_the_child", ended == "user-error" and len(seen["answers"]) == at, ended)
    else:
        T.prove("C20.conversation.an_abort_of_the_driver_reaches_the_caller_and_ends_the_child", ended == "aborted" and len(seen["answers"]) == at, ended)


# ------------------------------------------------------------------------------------ the wrapper mirrors the wrapped optimizer's properties
def cases_props(tier):
    for allow_nan, parallel in itertools.product((False, True), repeat=2):
        yield "allow_nan=%s/is_parallel=%s" % (allow_nan, parallel), {"allow_nan": allow_nan, "parallel": parallel}


def scn_props(T, case):
    created = []

    class PM:
        def get_plugin(self, kind, method):
            created.append((kind, method))
            return types.SimpleNamespace(create=lambda config, callback: types.SimpleNamespace(allow_nan=case["allow_nan"], is_parallel=case["parallel"]))

    stubs = {(MX, "PluginManager"): PM}
    if T.symbolic:
        sh = T.shadow([MX], stubs)
        cls = T.under_contract(sh, MX, "ExternalOptimizer")
        T.under_contract(sh, MX, "ExternalOptimizer.__init__")
        restore = None
    else:
        import ropt.plugins.optimizer.external as real

        restore = (real, real.PluginManager)
        real.PluginManager = PM
        cls = real.ExternalOptimizer
    try:
        # (the configured `parallel` flag says what the user allows, not what the wrapped method does: the wrapper mirrors the latter)
        cfg = types.SimpleNamespace(optimizer=types.SimpleNamespace(method="external/scipy/slsqp", parallel=not case["parallel"], speculative=False, split_evaluations=False,
                                                                   options=None, max_iterations=None, max_functions=None, tolerance=None, output_dir=None))
        ext = cls(cfg, lambda *a, **k: None)
    finally:
        if restore:
            restore[0].PluginManager = restore[1]
    T.prove("C20.wrapper.inner_method_is_the_part_after_external", created == [("optimizer", "scipy/slsqp")])
    T.prove("C20.wrapper.nan_tolerance_is_that_of_the_wrapped_optimizer", ext.allow_nan is case["allow_nan"])
    T.prove("C20.wrapper.parallel_flag_is_that_of_the_wrapped_optimizer", ext.is_parallel is case["parallel"])


# ------------------------------------------------------------------------------------ child side: _PluginOptimizer._callback / _request
def cases_child(tier):
    for retry in (0, 2) + ((1, 5) if tier == "thorough" else ()):
        for answer in ("results", "abort"):
            yield "write_retries=%d/%s" % (retry, answer), {"retry": retry, "answer": answer}


def scn_child(T, case):
    from ropt.exceptions import OptimizationAborted

    _recorded_wire_format(T)

    log = []
    answer = "abort" if case["answer"] == "abort" else {"functions": [3.5], "gradients": [[1.0, -2.0]]}

    class ChildComm:
        def __init__(self):
            self.retry, self.pending = case["retry"], [None, answer]

        def write(self, data):
            if self.retry > 0:
                self.retry -= 1
                return False
            log.append(("write", data))
            return True

        def read(self):
            return self.pending.pop(0) if self.pending else None

    stubs = {(MX, "os"): OsStub(kill=lambda pid, sig: log.append(("probe-parent", pid, sig)))}
    if T.symbolic:
        sh = T.shadow([MX], stubs)
        cls = T.under_contract(sh, MX, "_PluginOptimizer")
        T.under_contract(sh, MX, "_PluginOptimizer._callback")
        T.under_contract(sh, MX, "_PluginOptimizer._request")
        restore = None
    else:
        import ropt.plugins.optimizer.external as real

        restore = (real, real.os)
        real.os = stubs[(MX, "os")]
        cls = real._PluginOptimizer
    try:
        po = cls(99)
        po._comm = ChildComm()
        x = np.array([0.1, 0.2])
        try:
            f, g = po._callback(x, return_functions=True, return_gradients=True)
            out = "returned"
        except OptimizationAborted:
            out = "aborted"
    finally:
        if restore:
            restore[0].os = restore[1]
    sent = [e[1] for e in log if e[0] == "write"]
    T.prove("C20.child.request_carries_exactly_the_arguments", sent == [{"evaluation": {"variables": [0.1, 0.2], "return_functions": True, "return_gradients": True}}])
    T.prove("C20.child.parent_liveness_is_probed_while_waiting", any(e[0] == "probe-parent" and e[1] == 99 and e[2] == 0 for e in log))
    if case["answer"] == "abort":
        T.prove("C20.child.abort_answer_stops_the_optimization", out == "aborted")
    else:
        T.prove("C20.child.returns_exactly_the_answer", out == "returned" and f.tolist() == [3.5] and g.tolist() == [[1.0, -2.0]])


# ------------------------------------------------------------------------------------ bounded native: JSON transport and real processes
def cases_native(tier):
    yield "json-transport", {"what": "json", "__concrete_only__": True}
    if tier == "thorough":
        for method in ("slsqp", "nelder-mead"):
            yield "real-process/%s" % method, {"what": "process", "method": method, "__concrete_only__": True}
        yield "real-process/child-killed", {"what": "killed", "__concrete_only__": True}


def scn_native(T, case):
    import json

    if case["what"] == "json":
        a = T.real("values", (6,))
        a = np.concatenate([a, a * 1e-300, a * 1e300, np.array([5e-324, 1.7976931348623157e308, 0.1, 1 / 3])])
        back = np.array(json.loads(json.dumps(a.tolist())), dtype=np.float64)
        T.prove("C20.native.finite_doubles_survive_the_json_transport_bit_for_bit", a.tobytes() == back.tobytes())
        return
    import os

    from ropt.evaluator import EvaluatorResult
    from ropt.plan import BasicOptimizer

    os.environ["PATH"] = "/venv/bin:" + os.environ.get("PATH", "")

    def run(method_name):
        trace = []

        def ev(x, ctx):
            trace.append((x.tobytes(), ctx.realizations.tobytes(), None if ctx.perturbations is None else ctx.perturbations.tobytes()))
            return EvaluatorResult(objectives=((x - 0.5) ** 2).sum(axis=1, keepdims=True))

        cfg = {"variables": {"initial_values": [0.0, 0.2], "lower_bounds": -1.0, "upper_bounds": 1.0}, "optimizer": {"method": method_name, "max_functions": 6, "tolerance": 1e-3},
               "gradient": {"number_of_perturbations": 2, "perturbation_magnitudes": 0.01}}
        opt = BasicOptimizer(cfg, ev).run()
        return trace, opt.exit_code.name, None if opt.variables is None else opt.variables.tobytes()

    if case["what"] == "process":
        T.prove("C20.native.external_run_has_the_same_trace_and_exit_code_as_the_in_process_run", run("external/" + case["method"]) == run(case["method"]))
        return
    # the real child is killed in the middle of a run: the step must not report normal completion
    import signal
    import subprocess

    import ropt.plugins.optimizer.external as ext

    real_popen = subprocess.Popen
    procs = []

    class P(real_popen):
        def __init__(self, *a, **k):
            super().__init__(*a, **k)
            procs.append(self)

    count = [0]

    def ev(x, ctx):
        count[0] += 1
        if count[0] == 2 and procs:
            os.kill(procs[0].pid, signal.SIGKILL)
            procs[0].wait(5)
        return EvaluatorResult(objectives=((x - 0.5) ** 2).sum(axis=1, keepdims=True))

    ext.subprocess.Popen = P
    try:
        try:
            rc = BasicOptimizer({"variables": {"initial_values": [0.0, 0.2]}, "optimizer": {"method": "external/slsqp", "max_functions": 10}}, ev).run().exit_code.name
        except Exception as exc:  # noqa: BLE001
            rc = "raised " + type(exc).__name__
    finally:
        ext.subprocess.Popen = real_popen
    T.prove("C20.native.killed_child_is_not_reported_as_normal_completion", rc != "OPTIMIZER_STEP_FINISHED", rc)
    T.prove("C20.native.no_optimizer_process_left_running", all(p.poll() is not None for p in procs))


# ------------------------------------------------------------------------------------ the pipe communicator against an abstract OS
def cases_comm(tier):
    for fifo_exists in (True, False):
        for script in (("write-ready", "read-message"), ("write-not-ready",), ("read-timeout",), ("write-ready", "write-ready", "read-message", "read-timeout"), ("read-partial",)):
            yield "fifos-exist=%s/%s" % (fifo_exists, ",".join(script)), {"exists": fifo_exists, "script": list(script)}


def scn_comm(T, case):
    """_JSONPipeCommunicator against an abstract OS (os / selectors by library contract).  Safety clauses that 'never hangs' rests
    on: no primitive that can block without bound is ever called - every FIFO is opened with O_NONBLOCK (opening a FIFO for writing
    blocks until a reader exists, i.e. for ever if the peer is dead) and every select carries the finite timeout -, a message is
    written only when the selector reports the pipe writable, exactly once and complete with its delimiter, a read returns exactly
    the message before the delimiter or None, and every descriptor opened is closed on exit."""
    import json
    import os as real_os
    import selectors as real_selectors

    log, opened, closed = [], [], []
    script = list(case["script"])
    # (descriptors numbered beyond 1023, as in a process that has many files open: select() cannot watch those - library contract)
    state = {"next_fd": 1030, "ready": None, "inbox": ""}

    class Path_:
        def __init__(self, name):
            self.name = name

        def exists(self):
            return case["exists"]

    def os_open(path, flags, *a):
        fd = state["next_fd"]
        state["next_fd"] += 1
        opened.append((fd, path.name, flags))
        return fd

    class Selector:
        def __init__(self):
            self.registered, self.closed = {}, False

        def register(self, fd, events):
            self.registered[fd] = events

        def select(self, timeout=None):
            log.append(("select", timeout))
            r = state["ready"]
            return [] if r is None else [(types.SimpleNamespace(fd=r[0]), r[1])]

        def close(self):
            self.closed = True

    class File:
        def __init__(self, text):
            self.lines = text.splitlines(keepends=True)

        def readline(self):
            return self.lines.pop(0) if self.lines else ""

        def __enter__(self):
            return self

        def __exit__(self, *a):
            closed.append("dup")

    class SelectBased(Selector):
        """selectors.SelectSelector by library contract: select() takes descriptors below FD_SETSIZE only"""

        def register(self, fd, events):
            if fd >= 1024:
                raise ValueError("filedescriptor out of range in select()")
            Selector.register(self, fd, events)

    sel = Selector()
    fake_os = OsStub(
        O_RDONLY=real_os.O_RDONLY, O_WRONLY=real_os.O_WRONLY, O_NONBLOCK=real_os.O_NONBLOCK,
        open=os_open, close=lambda fd: closed.append(fd), mkfifo=lambda p, *a: log.append(("mkfifo", p.name)),
        write=lambda fd, data: log.append(("write", fd, data)) or len(data), dup=lambda fd: ("dup", fd),
        fdopen=lambda fd, *a, **k: File(state["inbox"]), kill=lambda *a: None)
    fake_sel = types.SimpleNamespace(DefaultSelector=lambda: sel, SelectSelector=SelectBased, EVENT_READ=real_selectors.EVENT_READ, EVENT_WRITE=real_selectors.EVENT_WRITE, BaseSelector=object)
    stubs = {(MX, "os"): fake_os, (MX, "selectors"): fake_sel}
    if T.symbolic:
        sh = T.shadow([MX], stubs)
        cls = T.under_contract(sh, MX, "_JSONPipeCommunicator", stubs)
        for q in ("__init__", "__enter__", "__exit__", "read", "write"):
            T.under_contract(sh, MX, "_JSONPipeCommunicator." + q, stubs)
        restore = None
    else:
        import ropt.plugins.optimizer.external as real

        restore = (real, real.os, real.selectors)
        real.os, real.selectors = fake_os, fake_sel
        cls = real._JSONPipeCommunicator
    try:
        timeout = 0.25
        comm = cls(Path_("to-parent"), Path_("to-child"), timeout)
        T.prove("C20.comm.missing_fifos_are_created", sorted(e[1] for e in log if e[0] == "mkfifo") == ([] if case["exists"] else ["to-child", "to-parent"]))
        import pathlib

        # what a dumped configuration may contain besides plain JSON types: arrays, NumPy scalars, paths
        msg_sent = {"evaluation": {"variables": np.array([0.5, 1.5]), "return_functions": True}, "output_dir": pathlib.Path("/some/dir"), "count": np.int64(3), "tol": np.float64(0.5)}
        msg = {"evaluation": {"variables": [0.5, 1.5], "return_functions": True}, "output_dir": "/some/dir", "count": 3, "tol": 0.5}
        with comm:
            for step in script:
                n_sel, n_wr = sum(1 for e in log if e[0] == "select"), sum(1 for e in log if e[0] == "write")
                if step.startswith("write"):
                    wfd = next((fd for fd, name, fl in opened if name == "to-child"), state["next_fd"])
                    state["ready"] = (wfd, real_selectors.EVENT_WRITE) if step == "write-ready" else None
                    ok = comm.write(msg_sent)
                    writes = [e for e in log if e[0] == "write"][n_wr:]
                    if step == "write-ready":
                        T.prove("C20.comm.write_sends_the_whole_message_once_when_the_pipe_is_writable", ok is True and len(writes) == 1
                                and writes[0][2].decode().split("\n")[-2] == cls.DELIMITER and json.loads(writes[0][2].decode().rsplit(cls.DELIMITER, 1)[0]) == msg)
                    else:
                        T.prove("C20.comm.nothing_is_written_and_false_returned_when_the_pipe_is_not_writable", ok is False and writes == [])
                else:
                    rfd = next(fd for fd, name, fl in opened if name == "to-parent")
                    state["ready"] = None if step == "read-timeout" else (rfd, real_selectors.EVENT_READ)
                    state["inbox"] = {"read-message": json.dumps({"result": [1, 2]}) + "\n" + cls.DELIMITER + "\n", "read-partial": '{"result": [1,', "read-timeout": ""}[step]
                    got = comm.read()
                    T.prove("C20.comm.read_returns_the_message_before_the_delimiter_or_none", got == ({"result": [1, 2]} if step == "read-message" else None))
                T.prove("C20.comm.every_wait_carries_the_finite_timeout", all(e[1] == timeout for e in log if e[0] == "select") and sum(1 for e in log if e[0] == "select") == n_sel + 1)
        T.prove("C20.comm.no_open_can_block_every_fifo_is_opened_non_blocking", all(fl & real_os.O_NONBLOCK for _, _, fl in opened) and len(opened) >= 1)
        T.prove("C20.comm.read_end_is_the_own_pipe_and_write_end_the_peers", all((name == "to-parent") == ((fl & 3) == real_os.O_RDONLY) for _, name, fl in opened))
        T.prove("C20.comm.every_descriptor_is_closed_on_exit", sorted(fd for fd in closed if isinstance(fd, int)) == sorted(fd for fd, _, _ in opened) and sel.closed)
    finally:
        if restore:
            restore[0].os, restore[0].selectors = restore[1], restore[2]


# ------------------------------------------------------------------------------------ child side: _PluginOptimizer.run
def cases_child_run(tier):
    for outcome in ("finishes", "aborted", "fails"):
        yield "wrapped-optimizer-%s" % outcome, {"outcome": outcome}


def scn_child_run(T, case):
    """The child's main routine against an abstract communicator / plug-in manager: it asks the parent for the configuration and
    then for the starting vector, creates the optimizer named after the first slash of the method with the validated
    configuration and its own forwarding callback, and starts it from EXACTLY the vector the parent answered (which need not be
    the configured initial values); an abort ends it with status 0, any other exception is reported to the parent and gives 1."""
    from ropt.exceptions import OptimizationAborted

    _recorded_wire_format(T)
    log = []
    start_vector = [1.5, 0.75, -1.0]
    answers = {"config": {"optimizer": {"method": "external/scipy/slsqp"}, "variables": {"initial_values": [0.0, 0.0, 0.0]}},
               "initial_values": start_vector}

    class Comm:
        def __init__(self, a, b):
            log.append(("open", a, b))

        def __enter__(self):
            return self

        def __exit__(self, *a):
            log.append(("close",))

        def write(self, data):
            log.append(("write", data))
            self.last = data
            return True

        def read(self):
            if isinstance(self.last, dict) and "error" in self.last:
                return "abort"
            return answers[self.last]

    class Wrapped:
        def __init__(self, config, callback):
            log.append(("create", config, callback))

        def start(self, x):
            log.append(("start", x))
            if case["outcome"] == "aborted":
                raise OptimizationAborted("abort")
            if case["outcome"] == "fails":
                raise UserError("boom")

    class PM:
        def get_plugin(self, kind, method):
            log.append(("get_plugin", kind, method))
            return types.SimpleNamespace(create=lambda config, callback: Wrapped(config, callback))

    validated = types.SimpleNamespace(optimizer=types.SimpleNamespace(method="external/scipy/slsqp", parallel=True, speculative=False, split_evaluations=False, options=None, max_iterations=None, max_functions=None, tolerance=None, output_dir=None), variables=types.SimpleNamespace(initial_values=np.zeros(3)))
    stubs = {(MX, "_JSONPipeCommunicator"): Comm, (MX, "PluginManager"): PM, (MX, "os"): OsStub(kill=lambda pid, sig: None),
             (MX, "EnOptConfig"): types.SimpleNamespace(model_validate=lambda d: log.append(("validate", d)) or validated)}
    restore = None
    if T.symbolic:
        sh = T.shadow([MX], stubs)
        cls = T.under_contract(sh, MX, "_PluginOptimizer", stubs)
        T.under_contract(sh, MX, "_PluginOptimizer.run", stubs)
    else:
        import ropt.plugins.optimizer.external as real

        restore = (real, {k[1]: getattr(real, k[1]) for k in stubs})
        for k, v in stubs.items():
            setattr(real, k[1], v)
        cls = real._PluginOptimizer
    try:
        po = cls(99)
        rc = po.run("fifo-a", "fifo-b")
    finally:
        if restore:
            for k, v in restore[1].items():
                setattr(restore[0], k, v)
    writes = [e[1] for e in log if e[0] == "write"]
    T.prove("C20.child_run.asks_the_parent_for_the_configuration_and_for_the_starting_vector", "config" in writes and "initial_values" in writes)
    T.prove("C20.child_run.validates_the_configuration_the_parent_sent", [e[1] for e in log if e[0] == "validate"] == [answers["config"]])
    T.prove("C20.child_run.wrapped_optimizer_is_the_method_after_the_first_slash", [e[1:] for e in log if e[0] == "get_plugin"] == [("optimizer", "scipy/slsqp")])
    created = [e for e in log if e[0] == "create"]
    T.prove("C20.child_run.wrapped_optimizer_gets_the_validated_configuration_and_the_forwarding_callback", len(created) == 1 and created[0][1] is validated and created[0][2] == po._callback)
    started = [e[1] for e in log if e[0] == "start"]
    T.prove("C20.child_run.starts_from_exactly_the_vector_the_parent_answered", len(started) == 1 and np.asarray(started[0]).tolist() == start_vector)
    if case["outcome"] == "fails":
        T.prove("C20.child_run.failure_is_reported_to_the_parent_and_ends_with_status_one", rc == 1 and [w for w in writes if isinstance(w, dict)] == [{"error": "boom"}])
    else:
        T.prove("C20.child_run.normal_end_and_abort_give_status_zero_without_an_error_message", rc == 0 and [w for w in writes if isinstance(w, dict)] == [])
    T.prove("C20.child_run.communicator_is_closed", log[-1] == ("close",))


# ------------------------------------------------------------------------------------ the success threshold of a validated configuration
def cases_threshold(tier):
    for ms in (None, 0, 2, 5):
        for zero in (False, True):
            yield "min_success=%s%s" % (ms, "/one-zero-weight" if zero else ""), {"v": "realizations", "ms": ms, "zero": zero}


def scn_threshold(T, case):
    """realization_min_success as this property reads it is the VALIDATED value: default and clamp are the ensemble size (a
    zero-weight realization counts), a plain Python integer (C18's validator scenario under this property's prefix)."""
    from contracts import C18
    from contracts.reuse import Renamed

    C18.scn_validators(Renamed(T, "C18.", "C20.config."), case)


# ------------------------------------------------------------------------------------ child side: the entry point of the process
def cases_entry(tier):
    for rc in (0, 1):
        yield "optimizer-run-returns-%d" % rc, {"rc": rc}


def scn_entry(T, case):
    """'Process death is never success' rests on the exit status the parent inspects: the child's entry point runs the optimizer on
    the two pipes it was given, returns ITS status, and leaves the disposition of the termination signals alone - a process that
    turns SIGTERM into a clean exit(0) makes a kill look like a normal completion."""
    import signal as real_signal

    log = []

    class FakeOptimizer:
        def __init__(self, parent_pid):
            log.append(("create", parent_pid))

        def run(self, fifo1, fifo2):
            log.append(("run", str(fifo1), str(fifo2)))
            return case["rc"]

    class FakePath:
        def __init__(self, p):
            self.p = p

        def exists(self):
            return True

        def __str__(self):
            return self.p

    handlers = []
    sig_stub = types.SimpleNamespace(signal=lambda num, handler: handlers.append((num, handler)), SIGTERM=real_signal.SIGTERM, SIGINT=real_signal.SIGINT,
                                     SIGKILL=real_signal.SIGKILL, SIG_DFL=real_signal.SIG_DFL, SIG_IGN=real_signal.SIG_IGN)
    sys_stub = types.SimpleNamespace(argv=["ropt_plugin_optimizer", "/tmp/fifo-a", "/tmp/fifo-b", "4711"], exit=lambda code=0: log.append(("sys.exit", code)))
    stubs = {(MX, "_PluginOptimizer"): FakeOptimizer, (MX, "Path"): FakePath, (MX, "signal"): sig_stub, (MX, "sys"): sys_stub,
             (MX, "atexit"): types.SimpleNamespace(register=lambda f: log.append(("atexit", f)))}
    restore = None
    if T.symbolic:
        sh = T.shadow([MX], stubs)
        entry = T.under_contract(sh, MX, "ropt_plugin_optimizer", stubs)
    else:
        import ropt.plugins.optimizer.external as real

        restore = (real, {k[1]: getattr(real, k[1]) for k in stubs})
        for k, v in stubs.items():
            setattr(real, k[1], v)
        entry = real.ropt_plugin_optimizer
    try:
        rc = entry()
    finally:
        if restore:
            for k, v in restore[1].items():
                setattr(restore[0], k, v)
    T.prove("C20.entry.runs_the_optimizer_for_the_given_parent_on_the_given_pipes", [e for e in log if e[0] in ("create", "run")] == [("create", 4711), ("run", "/tmp/fifo-a", "/tmp/fifo-b")])
    T.prove("C20.entry.exit_status_is_the_status_of_the_optimizer_run", rc == case["rc"] and not any(e[0] == "sys.exit" for e in log))
    T.prove("C20.entry.termination_signals_keep_their_default_disposition", handlers == [], repr([(int(n), getattr(h, "__name__", h)) for n, h in handlers]))


SCENARIOS = [
    Scenario("start_request_loop", scn_start, cases_start, {"quick": 30, "thorough": 200}),
    Scenario("child_side_forwarding", scn_child, cases_child, {"quick": 2, "thorough": 10}),
    Scenario("wrapper_properties", scn_props, cases_props, {"quick": 1, "thorough": 1}),
    Scenario("native_transport_and_processes", scn_native, cases_native, {"quick": 5, "thorough": 1}),
    Scenario("pipe_communicator_against_abstract_os", scn_comm, cases_comm, {"quick": 1, "thorough": 1}),
    Scenario("child_side_run", scn_child_run, cases_child_run, {"quick": 1, "thorough": 1}),
    Scenario("validated_success_threshold", scn_threshold, cases_threshold, {"quick": 2, "thorough": 10}),
    Scenario("child_process_entry_point", scn_entry, cases_entry, {"quick": 1, "thorough": 1}),
    Scenario("conversation_of_the_two_real_halves", scn_conversation, cases_conversation, {"quick": 2, "thorough": 5}),
]

MANIFEST = {
    "category": "other",
    "text": "Partial by nature: the sequential contract of ExternalOptimizer.start (death is never success, exceptions never swallowed, child always signalled and waited for, resources "
            "released) and the forwarding fidelity of both sides are checked on every path of the real code against an exhaustively explored abstract process/communicator/OS "
            "environment (bounded to 2 evaluations, one fault per run). The statement itself (same evaluations, same results, same way of ending) is observed on the two REAL halves of the module talking to each "
            "other over an abstract JSON pipe (the parent's start() and, in a thread standing for the process, the child's entry point) - request scripts with vectors, populations and a "
            "population of one. 'Never hangs' is decided only as a ghost bound on the parent's waiting (at most 200 reads after the abstract child's last message); real two-process "
            "schedules are NOT decided by contracts; trace equality with a real process is exercised natively in the thorough tier only.",
    "note": "_JSONPipeCommunicator is under contract against an abstract os/selectors (no unbounded blocking primitive, finite timeouts, whole messages, descriptors closed) and _PluginOptimizer.run against an abstract communicator; Popen/FIFO/os.kill abstract; liveness and OS scheduling outside the technique (DESIGN section 8); trace equality only bounded native evidence (thorough tier), resting on C18 idempotence and SciPy determinism",
    "technique": "contract-based verification of the sequential request loop: symbolic-execution engine enumerating all environment choices over the real source with abstract process/communicator contracts; bounded native runs as stand-in",
}
