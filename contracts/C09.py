"""C09 - fixed (masked-out) variables never move and never receive a gradient.

Functions under contract:
  ropt.optimization._optimizer:EnsembleOptimizer._get_completed_variables / _optimizer_callback / _gradients_from_results
  ropt.ensemble_evaluator._ensemble_evaluator:_get_mask / EnsembleEvaluator._init_samplers / _expand_gradients / calculate (gradient path)
  ropt.ensemble_evaluator._gradient:_perturb_variables / _apply_bounds
  ropt.plugins.optimizer.scipy:SciPyOptimizer.start / _initialize_bounds
"""
from __future__ import annotations

import itertools
import types

import numpy as np

from contracts import harness as H
from roptvc.driver import Scenario

LEVEL = "proof"
MO = "ropt.optimization._optimizer"
ME = "ropt.ensemble_evaluator._ensemble_evaluator"
MS = "ropt.plugins.optimizer.scipy"
EXPLANATION = (
    "Element-wise clauses at every fixed index i (mask[i] false), proved by z3 on the real bodies for all real values: the completed vector carries the stored value at i "
    "(1-d and batch); after a nested optimization the stored vector and the evaluated vector are the inner result; every sampler's variable mask is a subset of the variable "
    "mask; every row sent to the evaluator in a gradient evaluation carries x_i at i (for every boundary type, given the sampler contract 'zero outside its mask'); expanded "
    "gradients are exactly 0 at i; the optimizer receives only the free columns of gradients, initial values and bounds. All masks for N <= 3 (4 in the thorough tier) are enumerated."
)
ASSUMPTIONS = [
    "sampler contract: generate_samples is zero outside the sampler's mask (C17 for the built-in sampler)",
    "initial values lie inside the bounds (quantifier of C09); floats as reals",
    "scipy.optimize.minimize / differential_evolution call only the callables they are given with vectors of the length of x0 (library contract)",
    "all masks enumerated for N <= 3 / 4 (bounded in N only; the code is element-wise in the variable index)",
]


def masks(N, allow_all=True):
    for m in itertools.product((False, True), repeat=N):
        if any(m):
            yield list(m)


# ------------------------------------------------------------------------------------ _get_mask / _init_samplers
def cases_get_mask(tier):
    for N in (1, 2, 3):
        for m in [None] + list(masks(N)) + [[False] * N]:
            for gi in [None] + [list(g) for g in itertools.product((-1, 0, 1), repeat=N)]:
                yield "N%d/mask=%s/samplers=%s" % (N, m, gi), {"N": N, "mask": m, "gi": gi}


class _SamplerPlugin:
    def __init__(self, log):
        self.log = log

    def create(self, config, idx, variable_indices, rng):
        self.log.append((idx, None if variable_indices is None else [bool(b) for b in variable_indices], rng))
        return ("sampler", idx)


def scn_get_mask(T, case):
    PFX = case.get("prefix", "C09")
    f = T.func(ME, "_get_mask")
    N, mask, gi = case["N"], case["mask"], case["gi"]
    marr = None if mask is None else np.array(mask, dtype=bool)
    garr = None if gi is None else np.array(gi, dtype=np.intc)
    seen = np.zeros(N, dtype=int)
    for idx in (0, 1):
        got = f(idx, garr, marr)
        want = [(mask is None or mask[i]) and (gi is None or gi[i] == idx) for i in range(N)]
        if got is None:
            T.prove(PFX + ".get_mask.none_means_all_variables", mask is None and gi is None)
            continue
        T.prove(PFX + ".get_mask.is_variable_mask_and_sampler_assignment", [bool(b) for b in got] == want)
        T.prove(PFX + ".get_mask.never_selects_a_fixed_variable", all((mask is None or mask[i]) for i in range(N) if bool(got[i])))
        seen += np.array([bool(b) for b in got], dtype=int)
    if gi is not None:
        T.prove(PFX + ".get_mask.samplers_are_disjoint", bool(np.all(seen <= 1)))
    # _init_samplers hands exactly these masks, and the one generator, to the sampler plug-ins
    if T.symbolic:
        sh = T._sh
        cls = T.under_contract(sh, ME, "EnsembleEvaluator")
        T.under_contract(sh, ME, "EnsembleEvaluator.__init__")
        T.under_contract(sh, ME, "EnsembleEvaluator._init_samplers")
    else:
        cls = T.func(ME, "EnsembleEvaluator")
    # entered through the constructor (the way every caller does), so that private re-arrangements between __init__ and
    # _init_samplers do not matter: the generator is whatever object reaches the sampler plug-ins
    cfg = types.SimpleNamespace(samplers=(types.SimpleNamespace(method="a"), types.SimpleNamespace(method="b")), realization_filters=(), function_estimators=(),
                                gradient=types.SimpleNamespace(samplers=garr, seed=1), variables=types.SimpleNamespace(mask=marr))
    log = []
    pm = types.SimpleNamespace(get_plugin=lambda kind, method: _SamplerPlugin(log))
    cls(cfg, None, None, pm)
    rng = log[0][2] if log else None
    # one sampler per configured sampler, in configuration order - also one whose selection is empty (the perturbation code looks a
    # sampler up by its configured index)
    T.prove(PFX + ".init_samplers.every_configured_sampler_is_created_in_configuration_order", [idx for idx, _, _ in log] == [0, 1], repr([idx for idx, _, _ in log]))
    for idx, m, r in log:
        T.prove(PFX + ".init_samplers.sampler_mask_inside_variable_mask", m is None and mask is None or (m is not None and all((mask is None or mask[i]) for i in range(N) if m[i])))
        T.prove(PFX + ".init_samplers.same_generator_for_every_sampler", r is rng and r is not None)


# ------------------------------------------------------------------------------------ completed variables / nested update
def _optimizer(T, mask, N, nested=None, run=None):
    if T.symbolic:
        sh = T.shadow([MO])
        cls = T.under_contract(sh, MO, "EnsembleOptimizer")
        for q in ("_get_completed_variables", "_optimizer_callback", "_gradients_from_results", "_functions_from_results", "_check_stopping_criteria"):
            T.under_contract(sh, MO, "EnsembleOptimizer." + q)
    else:
        cls = T.func(MO, "EnsembleOptimizer")
    opt = object.__new__(cls)
    opt._enopt_config = types.SimpleNamespace(variables=types.SimpleNamespace(mask=None if mask is None else np.array(mask, dtype=bool),
                                                                                initial_values=T.real("configured_initial_values", (N,)),
                                                                                lower_bounds=T.const(np.full(N, -np.inf)), upper_bounds=T.const(np.full(N, np.inf)), types=None),
                                              optimizer=types.SimpleNamespace(max_functions=None, method="x", parallel=False),
                                              realizations=types.SimpleNamespace(realization_min_success=1))
    opt._completed_functions = 0
    opt._nested_optimizer = nested
    opt._signal_evaluation = None
    if run is not None:
        # the scenario replaces the private _run_evaluations by a stand-in written against its interface: if that interface is not the
        # recorded one any more, the stand-in (and with it the scenario) does not bind
        T.func(MO, "EnsembleOptimizer._run_evaluations").__name__  # noqa: B018  (raises ContractUnbound on a changed interface)
        opt._run_evaluations = run
    return opt


def cases_completed(tier):
    for N in (1, 2, 3) + ((4,) if tier == "thorough" else ()):
        for m in [None] + list(masks(N)):
            for batch in (None, 2):
                yield "N%d/mask=%s/batch=%s" % (N, m, batch), {"N": N, "mask": m, "batch": batch}
    # long vectors with fixed variables scattered among the free ones (values still symbolic: the code only moves them)
    for N in (17, 20, 33) + ((64, 130) if tier == "thorough" else ()):
        m = [(i * 5 + 2) % 3 != 0 for i in range(N)]
        for batch in (None, 3):
            yield "N%d/every-third-variable-fixed/batch=%s" % (N, batch), {"N": N, "mask": m, "batch": batch}


def scn_completed(T, case):
    N, mask, B = case["N"], case["mask"], case["batch"]
    opt = _optimizer(T, mask, N)
    fixed = T.real("fixed", (N,))
    opt._fixed_variables = fixed
    fixed0 = fixed.copy()
    nfree = N if mask is None else sum(mask)
    v = T.real("free", (nfree,) if B is None else (B, nfree))
    out = opt._get_completed_variables(v)
    T.prove("C09.completed.shape", tuple(out.shape) == ((N,) if B is None else (B, N)))
    T.prove("C09.completed.stored_vector_not_modified", T.same(fixed, fixed0))
    T.prove("C09.completed.result_is_a_fresh_array", out is not v and out is not fixed)
    rows = [out] if B is None else [out[b] for b in range(B)]
    vrows = [v] if B is None else [v[b] for b in range(B)]
    for row, vr in zip(rows, vrows):
        k = 0
        for i in range(N):
            if mask is None or mask[i]:
                T.prove("C09.completed.free_entries_come_from_the_optimizer", T.same(row[i], vr[k]))
                k += 1
            else:
                T.prove("C09.completed.fixed_entries_keep_the_stored_value", T.same(row[i], fixed0[i]))


def cases_nested(tier):
    for N in (2, 3) + ((4,) if tier == "thorough" else ()):
        for m in masks(N):
            if all(m):
                continue
            yield "N%d/mask=%s" % (N, m), {"N": N, "mask": m}


def scn_nested(T, case):
    from ropt.results import FunctionResults

    N, mask = case["N"], case["mask"]
    evaluated = []
    K = 0

    def run(variables, *, compute_functions=False, compute_gradients=False):
        evaluated.append(variables.copy())
        fr = FunctionResults(batch_id=None, metadata={}, evaluations=types.SimpleNamespace(variables=variables), realizations=None,
                             functions=types.SimpleNamespace(weighted_objective=T.np.array(1.0), constraints=None))
        return (fr,)

    inner = [T.real("inner%d" % s, (N,)) for s in range(2)]
    step = [0]

    def nested(variables):
        # the inner optimization owns the complementary variables: it returns a full vector
        handed.append(variables.copy())
        res = types.SimpleNamespace(evaluations=types.SimpleNamespace(variables=inner[step[0]]))
        step[0] += 1
        return res, False

    handed = []
    opt = _optimizer(T, mask, N, nested=nested, run=run)
    start = T.real("start", (N,))
    opt._fixed_variables = start.copy()
    nfree = sum(mask)
    for s in range(2):
        v = T.real("free%d" % s, (nfree,))
        opt._optimizer_callback(v, return_functions=True, return_gradients=False)
        prev = start if s == 0 else inner[s - 1]
        for i in range(N):
            if not mask[i]:
                T.prove("C09.nested.inner_optimization_starts_from_the_last_delivered_fixed_values", T.same(handed[s][i], prev[i]))
        # the vector sent on to the evaluator, and the stored vector, are what the inner optimization delivered
        T.prove("C09.nested.evaluated_vector_is_the_inner_result", T.same(evaluated[s], inner[s]))
        T.prove("C09.nested.stored_vector_is_the_inner_result", T.same(opt._fixed_variables, inner[s]))
        T.prove("C09.nested.stored_vector_is_a_copy", opt._fixed_variables is not inner[s])


# ------------------------------------------------------------------------------------ gradients
def cases_gradients(tier):
    for N in (1, 2, 3) + ((4,) if tier == "thorough" else ()):
        for m in [None] + list(masks(N)):
            for K in (0, 1):
                yield "N%d/mask=%s/K%d" % (N, m, K), {"N": N, "mask": m, "K": K}
    for N in (17, 20) + ((33, 64) if tier == "thorough" else ()):
        yield "N%d/every-third-variable-fixed/K2" % N, {"N": N, "mask": [(i * 5 + 2) % 3 != 0 for i in range(N)], "K": 2}


def scn_gradients(T, case):
    N, mask, K = case["N"], case["mask"], case["K"]
    marr = None if mask is None else np.array(mask, dtype=bool)
    free = [i for i in range(N) if mask is None or mask[i]]
    # (a) EnsembleEvaluator._expand_gradients
    if T.symbolic:
        sh = T.shadow([ME, MO])
        exp = T.under_contract(sh, ME, "EnsembleEvaluator._expand_gradients")
        gfr = T.under_contract(sh, MO, "EnsembleOptimizer._gradients_from_results")
    else:
        exp = T.func(ME, "EnsembleEvaluator._expand_gradients")
        gfr = T.func(MO, "EnsembleOptimizer._gradients_from_results")
    g1 = T.real("g1", (len(free),))
    g2 = T.real("g2", (2, len(free)))
    for g in (g1, g2):
        out = exp(g, marr)
        T.prove("C09.expand.shape", tuple(out.shape) == tuple(g.shape[:-1]) + (N,))
        flat_o = out.reshape(-1, N)
        flat_g = g.reshape(-1, len(free))
        for r in range(flat_o.shape[0]):
            for i in range(N):
                if i in free:
                    T.prove("C09.expand.free_entries_are_the_computed_gradient", T.same(flat_o[r, i], flat_g[r, free.index(i)]))
                else:
                    T.prove("C09.expand.fixed_entries_are_exactly_zero", T.same(flat_o[r, i], 0.0) if T.symbolic else float(flat_o[r, i]) == 0.0)
    # (b) what the optimizer gets: only the free columns
    wo = T.real("wo", (N,))
    cg = T.real("cg", (K, N)) if K else None
    got = gfr(types.SimpleNamespace(weighted_objective=wo, constraints=cg), marr)
    T.prove("C09.optimizer_gradient.shape_is_rows_by_free_variables", tuple(got.shape) == (1 + K, len(free)))
    for k, i in enumerate(free):
        T.prove("C09.optimizer_gradient.columns_are_the_free_variables", T.same(got[0, k], wo[i]) & (T.all([T.same(got[1 + c, k], cg[c, i]) for c in range(K)]) if K else True))


# ------------------------------------------------------------------------------------ rows sent to the evaluator
def cases_requests(tier):
    for N, m in ((2, [True, False]), (2, [False, True]), (3, [True, False, True])) + (((3, [False, False, True]),) if tier == "thorough" else ()):
        for bt in (1, 2, 3):
            for both in (True, False):
                yield "N%d/mask=%s/boundary=%d/%s" % (N, m, bt, "functions+gradients" if both else "gradients-after-functions"), {"N": N, "mask": m, "bt": bt, "both": both}
            # the fixed variables moved between the function request and the gradient request (a nested optimization does that):
            # every row of the gradient request carries the fixed values of THAT request
            yield "N%d/mask=%s/boundary=%d/gradients-after-functions-at-other-fixed-values" % (N, m, bt), {"N": N, "mask": m, "bt": bt, "both": False, "moved": True}
            for both in (True, False):
                yield "N%d/mask=%s/boundary=%d/%s/every-perturbed-evaluation-fails" % (N, m, bt, "functions+gradients" if both else "gradients-after-functions"), {
                    "N": N, "mask": m, "bt": bt, "both": both, "all_fail": True}
            # ... and the same evaluator has already computed a gradient at other fixed values (an earlier outer iteration of a nested
            # optimization): the rows of THIS request carry the fixed values of this request
            for both in (True, False):
                yield "N%d/mask=%s/boundary=%d/%s/after-an-earlier-gradient-at-other-fixed-values" % (N, m, bt, "functions+gradients" if both else "gradients-after-functions"), {
                    "N": N, "mask": m, "bt": bt, "both": both, "earlier": True}


def scn_requests(T, case):
    N, mask, R, P = case["N"], case["mask"], 2, 2
    ch = H.Chain(T, stubs={("ropt.ensemble_evaluator._gradient", "_invert_linear_equations"): H.InvertContract(T)} if T.symbolic else None)
    x = T.real("x", (N,))
    lb, ub = T.real("lb", (N,), le=x), T.real("ub", (N,), ge=x)  # pre-condition: the point lies inside the bounds
    mag = T.real("magnitudes", (N,))
    S = T.real("samples", (R, P, N))
    samples = T.np.zeros((R, P, N)) + 0.0
    for i in range(N):
        if mask[i]:
            samples[:, :, i] = S[:, :, i]
    cfgw = T.const(np.array([0.5, 0.5]))
    cfg = H.make_config(T, R, 1, 0, N, weights=cfgw, ow=T.const(np.array([1.0])), P=P, mask=mask, lb=lb, ub=ub, magnitudes=mag,
                        boundary_types=[case["bt"]] * N, min_success=0 if case.get("all_fail") else 1, pert_min_success=1)
    vals = T.real("values", (R * (P + 1),))
    if case.get("all_fail"):
        # every perturbed evaluation fails, with realization_min_success = 0: a gradient is still reported (NaN where it is undefined)
        sev = H.ScriptedEvaluator(T, ch, lambda v, r, p, k: T.np.array([np.nan]) if (p is not None and p >= 0) else T.np.array([vals[k % (R * (P + 1))]]))
    else:
        sev = H.ScriptedEvaluator(T, ch, lambda v, r, p, k: T.np.array([vals[k % (R * (P + 1))]]))
    ev = H.make_evaluator(T, ch, cfg, sev, samplers=[H.FakeSampler(samples)])
    if case.get("earlier"):
        other0 = T.real("fixed_values_of_the_earlier_request", (N,), ge=lb, le=ub)
        T.assume(T.any([(other0[i] - x[i] > 0.5) | (x[i] - other0[i] > 0.5) for i in range(N) if not mask[i]]))
        x_earlier = T.np.array([x[i] if mask[i] else other0[i] for i in range(N)])
        ev.calculate(x_earlier, compute_functions=True, compute_gradients=True)
        ev.calculate(x_earlier, compute_functions=False, compute_gradients=True)
        del sev.calls[:]
    if case["both"]:
        res = ev.calculate(x, compute_functions=True, compute_gradients=True)
    else:
        xf = x
        if case.get("moved"):
            other = T.real("fixed_values_of_the_function_request", (N,), ge=lb, le=ub)
            T.assume(T.any([(other[i] - x[i] > 0.5) | (x[i] - other[i] > 0.5) for i in range(N) if not mask[i]]))
            xf = T.np.array([x[i] if mask[i] else other[i] for i in range(N)])
        ev.calculate(xf, compute_functions=True, compute_gradients=False)
        del sev.calls[:]
        res = ev.calculate(x, compute_functions=False, compute_gradients=True)
    for call in sev.calls:
        V = call["variables"]
        for k in range(V.shape[0]):
            for i in range(N):
                if not mask[i]:
                    T.prove("C09.requests.fixed_entries_of_every_row_sent_to_the_evaluator_are_unchanged", T.same(V[k, i], x[i]))
    for r_ in res:
        ev_ = r_.evaluations
        for i in range(N):
            if not mask[i]:
                T.prove("C09.results.reported_variables_keep_fixed_entries", T.same(ev_.variables[i], x[i]))
                if hasattr(ev_, "perturbed_variables"):
                    T.prove("C09.results.reported_perturbed_variables_keep_fixed_entries", T.all([T.same(ev_.perturbed_variables[r, p, i], x[i]) for r in range(R) for p in range(P)]))
        if hasattr(r_, "gradients") and r_.gradients is not None:
            for i in range(N):
                if not mask[i]:
                    z = (lambda g: T.same(g, 0.0)) if T.symbolic else (lambda g: float(g) == 0.0)
                    T.prove("C09.results.reported_gradients_are_exactly_zero_at_fixed_variables", z(r_.gradients.weighted_objective[i]) & z(r_.gradients.objectives[0, i]))


# ------------------------------------------------------------------------------------ what SciPy is given
def cases_scipy(tier):
    for N in (2, 3) + ((4,) if tier == "thorough" else ()):
        for m in [None] + [mm for mm in masks(N)]:
            for method in ("slsqp", "differential_evolution"):
                yield "N%d/mask=%s/%s" % (N, m, method), {"N": N, "mask": m, "method": method}


def scn_scipy(T, case):
    N, mask, method = case["N"], case["mask"], case["method"]
    marr = None if mask is None else np.array(mask, dtype=bool)
    free = [i for i in range(N) if mask is None or mask[i]]
    calls = []

    def minimize(**kw):
        calls.append(("minimize", kw))

    def differential_evolution(**kw):
        calls.append(("de", kw))

    if T.symbolic:
        sh = T.shadow([MS], stubs={(MS, "minimize"): minimize, (MS, "differential_evolution"): differential_evolution})
        cls = T.under_contract(sh, MS, "SciPyOptimizer")
        T.under_contract(sh, MS, "SciPyOptimizer.start")
        T.under_contract(sh, MS, "SciPyOptimizer._initialize_bounds")
    else:
        import ropt.plugins.optimizer.scipy as real

        cls = real.SciPyOptimizer
        real_min, real_de = real.minimize, real.differential_evolution
        real.minimize, real.differential_evolution = minimize, differential_evolution
    try:
        lb, ub = T.real("lb", (N,)), T.real("ub", (N,))
        T.assume(T.all(lb <= ub))
        opt = object.__new__(cls)
        opt._config = types.SimpleNamespace(variables=types.SimpleNamespace(mask=marr, lower_bounds=lb, upper_bounds=ub),
                                            optimizer=types.SimpleNamespace(tolerance=None))
        opt._method = method
        opt._parallel = False
        opt._options = {}
        opt._constraints = []
        opt._bounds = opt._initialize_bounds()
        x0 = T.real("x0", (N,))
        opt.start(x0)
    finally:
        if not T.symbolic:
            real.minimize, real.differential_evolution = real_min, real_de
    T.prove("C09.scipy.backend_called_once", len(calls) == 1)
    kw = calls[0][1]
    T.prove("C09.scipy.initial_values_are_the_free_variables", T.same(kw["x0"], T.np.array([x0[i] for i in free])))
    b = kw["bounds"]
    T.prove("C09.scipy.bounds_are_those_of_the_free_variables", T.same(b.lb, T.np.array([lb[i] for i in free])) & T.same(b.ub, T.np.array([ub[i] for i in free])))


def cases_fix_fixed(tier):
    from contracts.C10 import ABSOLUTE, RELATIVE

    for ptypes in ([ABSOLUTE, RELATIVE], [RELATIVE, RELATIVE]):
        yield "N2/%s/infinite-bound-on-fixed-variable" % "".join(map(str, ptypes)), {"N": 2, "ptypes": ptypes, "transform": False, "bcast": False,
                                                                                  "infinite": [False, True], "mask": [True, False], "prefix": "C09"}
        yield "N2/%s/finite-bounds" % "".join(map(str, ptypes)), {"N": 2, "ptypes": ptypes, "transform": False, "bcast": False,
                                                                  "infinite": False, "mask": [True, False], "prefix": "C09"}


def _scn_fix(T, case):
    from contracts.C10 import scn_fix

    scn_fix(T, case)


# ------------------------------------------------------------------------------------ the configured mask is a boolean array
def cases_mask_canonical(tier):
    yield "mask-converter", {}


def scn_mask_canonical(T, case):
    """Everything above indexes with `mask` as a BOOLEAN mask (variables[..., mask], _get_mask's `&`).  That is the canonical form
    established when the configuration is validated (C18): whatever array-like of 0/1 or booleans the user gives - including an
    integer ndarray - is stored as a read-only bool array of the same truth values."""
    from contracts import C18

    MU = "ropt.config.utils"
    if T.symbolic:
        sh = T.shadow([MU])
        get = lambda q: T.under_contract(sh, MU, q)  # noqa: E731
    else:
        get = lambda q: T.func(MU, q)  # noqa: E731
    C18.check_converters(T, get, "C09.mask", only=("_convert_1d_array_bool",))
    # ... and the field of the real VariablesConfig is declared with that converter
    from ropt.config.enopt import VariablesConfig

    for given in ([1, 0, 1], np.array([1, 0, 1]), np.array([True, False, True]), (True, False, True)):
        cfg = VariablesConfig.model_validate({"initial_values": [0.0, 1.0, 2.0], "mask": given})
        T.prove("C09.mask.validated_mask_is_a_boolean_array_of_the_given_truth_values", cfg.mask.dtype == np.bool_ and cfg.mask.tolist() == [True, False, True], repr(given))


# ------------------------------------------------------------------------------------ the starting vector of an optimizer step
def cases_step_start(tier):
    for tr in (False, True):
        yield "default-start/transform=%s" % tr, {"tr": tr}


def scn_step_start(T, case):
    """'Their starting value': without explicit variables an optimizer step starts from the configured initial values AS VALIDATED
    (the validation has already mapped them to the optimizer domain), so the fixed entries that EnsembleOptimizer keeps are
    exactly those - also when a variable transform is configured."""
    MOPT = "ropt.plugins.plan.optimizer"
    started = []

    class FakeEnsembleEvaluator:
        def __init__(self, config, transforms, evaluator, plugin_manager):
            self.args = (config, transforms)

    class FakeEnsembleOptimizer:
        is_parallel = False

        def __init__(self, **kw):
            self.kw = kw

        def start(self, variables):
            started.append((variables, self.kw))
            return "finished"

    stubs = {(MOPT, "EnsembleEvaluator"): FakeEnsembleEvaluator, (MOPT, "EnsembleOptimizer"): FakeEnsembleOptimizer}
    restore = None
    if T.symbolic:
        sh = T.shadow([MOPT], stubs)
        cls = T.under_contract(sh, MOPT, "DefaultOptimizerStep", stubs)
        T.under_contract(sh, MOPT, "DefaultOptimizerStep._run_optimizer", stubs)
    else:
        import importlib

        real = importlib.import_module(MOPT)
        restore = (real, {k[1]: getattr(real, k[1]) for k in stubs})
        for k, v in stubs.items():
            setattr(real, k[1], v)
        cls = real.DefaultOptimizerStep
    try:
        N = 3
        x0 = T.real("validated_initial_values", (N,))
        scale = T.real("scale", (), lo=1.5, hi=4.0)
        transforms = types.SimpleNamespace(variables=types.SimpleNamespace(to_optimizer=lambda v: v / scale, from_optimizer=lambda v: v * scale)) if case["tr"] else None
        events = []
        plan = types.SimpleNamespace(emit_event=events.append, optimizer_context=types.SimpleNamespace(evaluator=None, plugin_manager=None), aborted=False, abort=lambda: None)
        step = cls(plan)
        step._config = types.SimpleNamespace(variables=types.SimpleNamespace(initial_values=x0, mask=np.array([True, False, True])))
        step._transforms = transforms
        step._nested_optimization = None
        step._metadata = None
        step._run_optimizer(None)
    finally:
        if restore:
            for k, v in restore[1].items():
                setattr(restore[0], k, v)
    T.prove("C09.step.optimizer_started_once", len(started) == 1)
    if started:
        T.prove("C09.step.default_start_is_the_validated_initial_vector", T.same(started[0][0], x0))


# ------------------------------------------------------------------------------------ user-domain results (shared contract)
def cases_user_results(tier):
    from contracts import backtransform

    return backtransform.cases(tier)


def scn_user_results(T, case):
    from contracts import backtransform

    backtransform.scenario(T, case, "C09")


# ------------------------------------------------------------------------------------ what the plan steps hand on (shared contract)
def cases_steps(tier):
    from contracts import stepcontract

    return stepcontract.cases(tier)


def scn_steps(T, case):
    from contracts import stepcontract

    stepcontract.scenario(T, case, "C09")


SCENARIOS = [
    Scenario("magnitudes_of_fixed_variables_are_finite", _scn_fix, cases_fix_fixed, {"quick": 5, "thorough": 30}),
    Scenario("get_mask_init_samplers", scn_get_mask, cases_get_mask, {"quick": 1, "thorough": 1}),
    Scenario("completed_variables", scn_completed, cases_completed, {"quick": 5, "thorough": 50}),
    Scenario("nested_update", scn_nested, cases_nested, {"quick": 5, "thorough": 50}),
    Scenario("gradients", scn_gradients, cases_gradients, {"quick": 5, "thorough": 50}),
    Scenario("evaluator_requests", scn_requests, cases_requests, {"quick": 5, "thorough": 40}),
    Scenario("scipy_arguments", scn_scipy, cases_scipy, {"quick": 3, "thorough": 20}),
    Scenario("mask_is_canonical", scn_mask_canonical, cases_mask_canonical, {"quick": 1, "thorough": 1}),
    Scenario("optimizer_step_default_start", scn_step_start, cases_step_start, {"quick": 2, "thorough": 5}),
    Scenario("user_domain_results", scn_user_results, cases_user_results, {"quick": 3, "thorough": 20}),
    Scenario("plan_steps_hand_over", scn_steps, cases_steps, {"quick": 1, "thorough": 2}),
]

MANIFEST = {
    "category": "proof",
    "text": "Deductive: for every mask over N <= 3 (thorough: 4) variables the element-wise clauses of C09 (completed vectors, nested update, sampler masks, rows sent to the evaluator, "
            "reported variables/perturbed variables/gradients, expanded gradients exactly zero, arguments handed to SciPy) are discharged by z3 on the real bodies for all real values.",
    "note": "sampler 'zero outside its mask' assumed here (C17); SciPy assumed to call only what it is given; floats as reals; masks enumerated for N <= 3 (4 thorough); completed vectors and gradient expansion also for 17-33 (130) variables with every third one fixed",
    "technique": "contract-based deductive verification: symbolic execution of the real source under sidecar contracts, VCs discharged by z3/cvc5; bounded run-time contract checking as stand-in",
}
