"""C14 - every run ends with the documented exit code under any failure pattern.

Functions under contract: see contracts/stepflow.py (UNDER): both step kinds, EnsembleOptimizer.start/_optimizer_callback/
_check_stopping_criteria/_run_evaluations, Plan.run_step/emit_event; plus the raises-clauses of the default filter,
estimator and ConstraintInfo back-transform (C04, C01/C02, C13 own those obligations).
"""
from __future__ import annotations

from contracts import stepflow
from roptvc.driver import Scenario

LEVEL = "other"
EXPLANATION = (
    "Exception-flow contract of the real step code (DefaultOptimizerStep, DefaultEvaluatorStep, EnsembleOptimizer.start/_optimizer_callback/_run_evaluations/"
    "_check_stopping_criteria, Plan) against a non-deterministic environment whose every behaviour is explored: the algorithm issues 0..2 (thorough tier: 3) requests (optionally asking for "
    "gradients), every ensemble evaluation returns results, returns results without functions, aborts with TOO_FEW_REALIZATIONS (as filters/estimators do) or with a user abort, or "
    "raises a user exception; a handler or observer raises a user abort at any emitted event; max_functions is absent or 1. On every path the step is shown to return the exit code "
    "given by an executable reading of the documentation (contracts/stepflow.expected), never to let an internal exception or an abort escape, never to swallow the evaluator's "
    "exception, to respect max_functions and to deliver the results of the failing evaluation. Path enumeration is exhaustive for this environment; no solver reasoning is needed "
    "(all branches are concrete), so the obligations are discharged by evaluation on each explored path. The callee raises-clauses (no ZeroDivisionError/AssertionError/"
    "UnboundLocalError from filters, estimators, ConstraintInfo) are obligations of C04, C01/C02 and C13."
)
ASSUMPTIONS = [
    "environment bounded: at most 2 (thorough tier: 3) requests per run, one aborting receiver per run; the optimization algorithm propagates callback exceptions unchanged (SciPy library contract)",
    "EnsembleEvaluator.calculate replaced by its raises-contract (results / results without functions / OptimizationAborted / user exception)",
    "single-threaded",
]


def scn(T, case):
    stepflow.run_case(T, case, ("exit",))


def cases_estimator(tier):
    for R in (1, 2, 3):
        for method in ("mean", "stddev"):
            for what in ("function", "gradient"):
                for merge in ((False, True) if method == "mean" and what == "gradient" else (False,)):
                    yield "%s/%s/R%d/%s" % (method, what, R, "merged" if merge else "per-realization"), {"R": R, "method": method, "what": what, "merge": merge}


def scn_estimator(T, case):
    """raises-clause of the default estimator: only OptimizationAborted(TOO_FEW_REALIZATIONS), exactly when the stddev
    estimator has fewer than two realizations with non-zero weight; never ZeroDivisionError & co."""
    import numpy as np

    from contracts import harness as H
    from ropt.enums import OptimizerExitCode
    from ropt.exceptions import OptimizationAborted

    R, N = case["R"], 2
    ch = H.Chain(T, note=False)
    if T.symbolic:
        for q in ("calculate_function", "calculate_gradient", "_calculate_function_stddev", "_calculate_gradient_stddev", "_mean_stddev"):
            T.under_contract(ch.sh, "ropt.plugins.function_estimator.default", "DefaultFunctionEstimator." + q)
    est = H.estimator(ch, case["method"], merge=case["merge"])
    w = T.real("weights", (R,), lo=0.0)
    f = T.real("functions", (R,))
    nz = T.count([w[r] > 0 for r in range(R)])
    try:
        if case["what"] == "function":
            est.calculate_function(f, w)
        else:
            g = T.real("gradients", (N,) if case["merge"] else (N, R))
            est.calculate_gradient(f, g, w)
    except OptimizationAborted as exc:
        T.prove("C14.estimator.abort_code_is_too_few_realizations", exc.exit_code == OptimizerExitCode.TOO_FEW_REALIZATIONS)
        T.prove("C14.estimator.aborts_only_with_fewer_than_two_weighted_realizations_for_stddev", (nz < 2) if case["method"] == "stddev" else False)
        return
    except (ZeroDivisionError, AssertionError, IndexError, ValueError) as exc:
        T.fail("C14.estimator.no_internal_exception", type(exc).__name__)
        return
    T.prove("C14.estimator.too_few_weighted_realizations_always_abort", (nz >= 2) if case["method"] == "stddev" else True)


def cases_constraint_info(tier):
    from contracts.C13 import cases_transform

    for cid, c in cases_transform(tier):
        yield cid, dict(c, prefix="C14.constraint_info")


def scn_constraint_info(T, case):
    """raises-clause of ConstraintInfo.transform_from_optimizer (called while results are delivered): no AssertionError for any
    combination of configured transforms and present difference groups (the scenario of C13, stated here as a clause of C14)."""
    from contracts.C13 import scn_transform

    scn_transform(T, case)


def cases_native_patterns(tier):
    import itertools

    pats = [()] + [((r, c),) for r in range(2) for c in ("objective", "constraint")] + [((0, "objective"), (1, "constraint")), ((0, "constraint"), (1, "constraint"))]
    for step in ("evaluator", "optimizer"):
        for nan in pats:
            for ms in (0, 1, 2):
                yield "%s/nan=%s/min_success=%d" % (step, "+".join("%d%s" % (r, c[0]) for r, c in nan) or "none", ms), {"step": step, "nan": [list(x) for x in nan], "ms": ms, "__concrete_only__": True}


def scn_native_patterns(T, case):
    """Bounded, native, through the whole real stack (real configuration, real EnsembleEvaluator, real SciPy): which exit code does a
    step give when given (realization, column) entries of the very first evaluation are NaN?"""
    import numpy as np

    from ropt.enums import OptimizerExitCode
    from ropt.evaluator import EvaluatorResult
    from ropt.plan import OptimizerContext, Plan

    R = 2
    nan = {(r, c) for r, c in case["nan"]}
    calls = [0]

    def ev(x, ctx):
        o = np.array([[float(((x[k] - 0.2) ** 2).sum())] for k in range(x.shape[0])])
        c = np.array([[float(x[k].sum())] for k in range(x.shape[0])])
        if calls[0] == 0:
            for k in range(x.shape[0]):
                r = int(ctx.realizations[k])
                if (ctx.perturbations is None or ctx.perturbations[k] < 0):
                    if (r, "objective") in nan:
                        o[k, 0] = np.nan
                    if (r, "constraint") in nan:
                        c[k, 0] = np.nan
        calls[0] += 1
        return EvaluatorResult(objectives=o, constraints=c)

    cfg = {"variables": {"initial_values": [0.0, 0.1]}, "realizations": {"weights": [1.0, 1.0], "realization_min_success": case["ms"]},
           "nonlinear_constraints": {"lower_bounds": [-10.0], "upper_bounds": [10.0]}, "optimizer": {"method": "slsqp", "max_functions": 2}, "gradient": {"number_of_perturbations": 2}}
    plan = Plan(OptimizerContext(evaluator=ev))
    step = plan.add_step(case["step"])
    rc = plan.run_step(step, config=cfg)
    failed = {r for r, _ in nan}
    ok = R - len(failed)
    if case["step"] == "evaluator":
        want = OptimizerExitCode.TOO_FEW_REALIZATIONS if ok < case["ms"] else OptimizerExitCode.EVALUATION_STEP_FINISHED
        T.prove("C14.native.evaluator_step_reports_too_few_realizations_exactly_when_too_few_succeed", rc == want, "got %s" % rc.name)
    else:
        too_few = ok < case["ms"] or (case["ms"] < 1 and ok == 0)
        T.prove("C14.native.optimizer_step_reports_too_few_realizations_exactly_when_too_few_succeed", (rc == OptimizerExitCode.TOO_FEW_REALIZATIONS) == too_few, "got %s" % rc.name)
        T.prove("C14.native.optimizer_step_ends_with_a_documented_code", rc in (OptimizerExitCode.TOO_FEW_REALIZATIONS, OptimizerExitCode.MAX_FUNCTIONS_REACHED, OptimizerExitCode.OPTIMIZER_STEP_FINISHED))


# ------------------------------------------------------------------------------------ raises-clause of EnsembleEvaluator.calculate
def cases_calculate(tier):
    import itertools

    for R in (2, 3):
        for est in ("mean", "stddev"):
            for mask in itertools.product((False, True), repeat=R):
                for ms in (0, 1, R):
                    if tier == "quick" and R == 3 and (ms == 1 or sum(mask) == 1) and est == "mean":
                        continue
                    yield "R%d/%s/%s/min_success=%d" % (R, est, "".join("F" if f else "o" for f in mask), ms), {"R": R, "est": est, "failed": list(mask), "ms": ms}


def scn_calculate(T, case):
    """The step-level exploration (stepflow) uses EnsembleEvaluator.calculate by contract.  This is that contract, discharged on
    the real chain: for every failure mask, threshold (0 included) and estimator, a function evaluation either returns one well-shaped
    result per vector - functions None exactly when fewer than min_success realizations succeeded, all-NaN vectors of the configured
    lengths when nothing succeeded - or raises OptimizationAborted(TOO_FEW_REALIZATIONS), and that exactly when the stddev estimator is
    left with fewer than two successful realizations of non-zero weight.  Never another exception."""
    import numpy as np

    from contracts import harness as H
    from ropt.enums import OptimizerExitCode
    from ropt.exceptions import OptimizationAborted

    R, J, K, N = case["R"], 1, 1, 2
    failed = case["failed"]
    ch = H.Chain(T)
    w = T.const(np.array([0.5, 0.5, 0.0][:R] if R == 3 else [0.25, 0.75]))
    nanrow = np.array(failed, dtype=bool)
    O = T.real("O", (R, J), nan=np.repeat(nanrow[:, None], J, axis=1))
    C = T.real("C", (R, K))
    cfg = H.make_config(T, R, J, K, N, weights=w, ow=T.const(np.array([1.0])), min_success=case["ms"])
    sev = H.ScriptedEvaluator(T, ch, lambda v, r, p, k: O[r], lambda v, r, p, k: C[r])
    ev = H.make_evaluator(T, ch, cfg, sev, estimators=[H.estimator(ch, case["est"])])
    nok = R - sum(failed)
    weighted_ok = sum(1 for r in range(R) if not failed[r] and float(np.asarray(w)[r]) > 0)
    try:
        (res,) = ev.calculate(T.real("x", (N,)), compute_functions=True, compute_gradients=False)
    except OptimizationAborted as exc:
        T.prove("C14.calculate.abort_code_is_too_few_realizations", exc.exit_code == OptimizerExitCode.TOO_FEW_REALIZATIONS)
        T.prove("C14.calculate.aborts_only_when_the_stddev_estimator_has_fewer_than_two_weighted_successes",
                case["est"] == "stddev" and weighted_ok < 2 and nok >= case["ms"] and nok > 0)
        return
    except (ZeroDivisionError, AssertionError, IndexError, ValueError, TypeError) as exc:
        T.fail("C14.calculate.no_internal_exception", "%s: %s" % (type(exc).__name__, exc))
        return
    if nok < case["ms"]:
        T.prove("C14.calculate.too_few_successes_are_reported_as_missing_functions", res.functions is None)
        return
    T.prove("C14.calculate.functions_present_when_enough_realizations_succeed", res.functions is not None)
    if res.functions is None:
        return
    # (no success of non-zero weight at all leaves the renormalisation 0/0: outside the quantifiers of C01/C03, not required here)
    T.prove("C14.calculate.too_few_weighted_successes_for_the_estimator_always_abort", not (case["est"] == "stddev" and weighted_ok == 1))
    T.prove("C14.calculate.function_vectors_have_the_configured_lengths", tuple(res.functions.objectives.shape) == (J,) and tuple(res.functions.constraints.shape) == (K,)
            and tuple(np.shape(res.functions.weighted_objective)) == ())
    if nok == 0:
        T.prove("C14.calculate.nothing_succeeded_gives_nan_functions", bool(T.np.isnan(res.functions.objectives[0])) and bool(T.np.isnan(res.functions.constraints[0])))


# ------------------------------------------------------------------------------------ the success threshold of a validated configuration
def cases_threshold(tier):
    for ms in (None, 0, 2, 5):
        for zero in (False, True):
            yield "min_success=%s%s" % (ms, "/one-zero-weight" if zero else ""), {"v": "realizations", "ms": ms, "zero": zero}


def scn_threshold(T, case):
    """realization_min_success as this property reads it is the VALIDATED value: default and clamp are the ensemble size (a
    zero-weight realization counts), a plain Python integer (C18's validator scenario under this property's prefix)."""
    from contracts import C18
    from contracts.reuse import Renamed

    C18.scn_validators(Renamed(T, "C18.", "C14.config."), case)


# ------------------------------------------------------------------------------------ the function budget stays with the driver
def cases_budget(tier):
    from contracts import C08

    for cid, c in C08.cases_options(tier):
        if c["options"] in ("empty", "dict") and c["mi"] is None:
            yield cid, c


def scn_budget(T, case):
    """'MAX_FUNCTIONS_REACHED exactly when the function budget stopped it': the budget is enforced by the optimizer driver, which
    raises that code; the SciPy plug-in does not hand the back-end a function budget of its own (the back-end would stop by itself
    and the step would report a normal finish).  C08's options scenario under this property's prefix."""
    from contracts import C08
    from contracts.reuse import Renamed

    C08.scn_options(Renamed(T, "C08.", "C14.backend."), case)


# ------------------------------------------------------------------------------------ the gradient solve never raises
def cases_solve(tier):
    from contracts import C02

    return C02.cases_svd_under(tier)


def scn_solve(T, case):
    """'never an unrelated internal exception': with failed perturbations a realization can be left with fewer perturbations than
    variables (perturbation_min_success allows it); the least-squares solve must still return (C02's bounded scenario, under this
    property's prefix)."""
    from contracts import C02
    from contracts.reuse import Renamed

    C02.scn_svd_under(Renamed(T, "C02.", "C14.gradient_solve."), case)


# ------------------------------------------------------------------------------------ what the plan steps hand on (shared contract)
def cases_steps(tier):
    from contracts import stepcontract

    return stepcontract.cases(tier)


def scn_steps(T, case):
    from contracts import stepcontract

    stepcontract.scenario(T, case, "C14")


# ------------------------------------------------------------------------------------ a variable scaler that has served another configuration before
def cases_scaler_reuse(tier):
    from contracts import C11

    for cid, c in C11.cases_linear(tier):
        if c.get("prior"):
            yield cid, c


def scn_scaler_reuse(T, case):
    """'never an unrelated internal exception' for every kind of transform: a scaler object that has served a configuration with another number of linear constraints still transforms this one (C11's linear-constraint scenario with a used scaler, under this property's prefix)."""
    from contracts import C11
    from contracts.reuse import Renamed

    C11.scn_linear(Renamed(T, "C11.linear.", "C14.scaler_reuse."), case)


# ------------------------------------------------------------------------------------ TOO_FEW_REALIZATIONS exactly when too few realizations succeeded
def cases_driver_and_flags(tier):
    from contracts import C03

    for cid, c in C03.cases_run(tier):
        yield "driver/" + cid, dict(c, __which__="run")
    for cid, c in C03.cases_flags(tier):
        if c["what"] == "propagate":
            yield "flags/" + cid, dict(c, __which__="flags")
    # the realizations that count for an estimator are those left after the perturbation failures, in a combined request too
    for cid, c in C03.cases_pertfail(tier):
        if c.get("est") == "stddev" or (tier == "quick" and c["pms"] == 2 and not c["merge"]) or tier == "thorough":
            yield "perturbation-failures/" + cid, dict(c, __which__="pertfail")


def scn_driver_and_flags(T, case):
    """'TOO_FEW_REALIZATIONS exactly when some evaluation had too few successful realizations': the driver inspects EVERY result of an
    evaluation (a function result and a gradient result, or a batch) on its own, and a realization counts as failed exactly when one
    of its values is NaN - infinite values are values (C03's scenarios of _run_evaluations and of the failure flags under this
    property's prefix)."""
    from contracts import C03
    from contracts.reuse import Renamed

    if case["__which__"] == "pertfail":
        C03.scn_pertfail(Renamed(T, "C03.", "C14.too_few."), case)
    elif case["__which__"] == "run":
        C03.scn_run(Renamed(T, "C03.", "C14.too_few."), case)
    else:
        C03.scn_flags(Renamed(T, "C03.", "C14.too_few."), case)


SCENARIOS = [
    Scenario("constraint_info_raises_clause", scn_constraint_info, cases_constraint_info, {"quick": 3, "thorough": 20}),
    Scenario("native_failure_patterns", scn_native_patterns, cases_native_patterns, {"quick": 1, "thorough": 1}),
    Scenario("step_exception_flow", scn, stepflow.cases, {"quick": 10, "thorough": 100}),
    Scenario("estimator_raises_clause", scn_estimator, cases_estimator, {"quick": 10, "thorough": 100}),
    Scenario("calculate_raises_clause", scn_calculate, cases_calculate, {"quick": 3, "thorough": 20}),
    Scenario("validated_success_threshold", scn_threshold, cases_threshold, {"quick": 2, "thorough": 10}),
    Scenario("function_budget_stays_with_the_driver", scn_budget, cases_budget, {"quick": 1, "thorough": 2}),
    Scenario("gradient_solve_with_fewer_perturbations_than_variables_bounded", scn_solve, cases_solve, {"quick": 10, "thorough": 100}),
    Scenario("plan_steps_hand_over", scn_steps, cases_steps, {"quick": 1, "thorough": 2}),
    Scenario("scaler_object_reused_for_another_configuration", scn_scaler_reuse, cases_scaler_reuse, {"quick": 5, "thorough": 30}),
    Scenario("too_few_realizations_exactly_when_too_few_succeeded", scn_driver_and_flags, cases_driver_and_flags, {"quick": 1, "thorough": 5}),
]

MANIFEST = {
    "category": "other",
    "text": "Exhaustive path exploration of the real step/optimizer/plan code against a bounded non-deterministic environment (every failure kind at every evaluation, every abort point, "
            "max_functions), each path checked against an executable reading of the documented exit-code semantics; modular (EnsembleEvaluator.calculate and the algorithm by contract). "
            "It is a contract check over all paths of the real code for that environment, not an unbounded proof: runs are bounded to 2 requests (3 in the thorough tier).",
    "note": "bounded environment (<= 2 requests, 3 in the thorough tier; one abort per run); SciPy assumed to propagate callback exceptions; callee raises-clauses owned by C01/C02/C04/C13",
    "technique": "contract-based verification of exception flow: symbolic-execution engine enumerating all environment choices over the real source, obligations per path; bounded run-time checking as stand-in",
}
