"""Specification functions shared by several properties, transcribed from the property statements
(not from the code).  They are written against the scenario facade T and therefore have two
interpretations: symbolic (z3 terms) and concrete (NumPy / exact rationals)."""
from __future__ import annotations

import numpy as np


def rank_bounds(T, key, ok):
    """For every successful member i: (less_i, leq_i) = number of *other* successful members with a strictly
    smaller / smaller-or-equal key.  Any ranking consistent with the keys gives member i a rank in
    [less_i, leq_i]; without ties less_i == leq_i is its rank."""
    n = len(ok)
    less, leq = [None] * n, [None] * n
    for i in range(n):
        if not ok[i]:
            continue
        less[i] = T.count([key[j] < key[i] for j in range(n) if ok[j] and j != i])
        leq[i] = T.count([key[j] <= key[i] for j in range(n) if ok[j] and j != i])
    return less, leq


def sort_window_spec(T, name, key, cfg_w, failed, first, last, w):
    """C05: weights equal the configured weights exactly at the successful members whose ascending rank lies in
    [first, last]; zero elsewhere; failed members are never ranked."""
    n = len(failed)
    ok = [not f for f in failed]
    less, leq = rank_bounds(T, key, ok)
    zero = 0.0
    for i in range(n):
        if failed[i]:
            T.prove(name + ".failed_members_get_zero", T.same(w[i], zero))
            continue
        surely_in = (less[i] >= first) & (leq[i] <= last)
        surely_out = (leq[i] < first) | (less[i] > last)
        T.prove(name + ".inside_window_gets_configured_weight", T.implies(surely_in, T.same(w[i], cfg_w[i])))
        T.prove(name + ".outside_window_gets_zero", T.implies(surely_out, T.same(w[i], zero)))
        T.prove(name + ".weight_is_zero_or_configured", T.same(w[i], zero) | T.same(w[i], cfg_w[i]))
    # exactly the window is selected (count), observable where the configured weights are non-zero
    m = sum(ok)
    expected = max(0, min(last, m - 1) - first + 1)
    allpos = T.all([cfg_w[i] > 0 for i in range(n)])
    T.prove(name + ".window_size", T.implies(allpos, T.count([w[i] > 0 for i in range(n)]) == expected))


def cvar_spec(T, name, bad, failed, p, w):
    """C04: mass 1/m on the worst successful members in order of badness (larger `bad` = worse) until total mass p is
    reached, the last one fractionally; zero elsewhere and on failed members; non-negative; sum p."""
    n = len(failed)
    ok = [not f for f in failed]
    m = sum(ok)
    zero = 0.0
    if m == 0:
        for i in range(n):
            T.prove(name + ".failed_members_get_zero", T.same(w[i], zero))
        return
    # rank by badness, worst first: use key = -bad
    key = [-b for b in bad]
    less, leq = rank_bounds(T, key, ok)
    k = T.floor_mul(p, m)
    full = 1.0 / m  # the double nearest to 1/m: the only rounded constant of the clause
    rest = p - k * full
    frac = T.ite(rest > 0, rest, 0.0 * p)  # "non-negative": a remainder that rounds below zero is zero
    for i in range(n):
        if failed[i]:
            T.prove(name + ".failed_members_get_zero", T.same(w[i], zero))
            continue
        T.prove(name + ".worst_members_get_full_mass", T.implies(leq[i] < k, T.same(w[i], full)))
        T.prove(name + ".boundary_member_gets_remainder", T.implies((less[i] == k) & (leq[i] == k), T.same(w[i], frac)))
        T.prove(name + ".members_beyond_the_tail_get_zero", T.implies(less[i] > k, T.same(w[i], zero)))
        T.prove(name + ".non_negative", w[i] >= 0)
        T.prove(name + ".weight_is_zero_full_or_remainder", T.same(w[i], zero) | T.same(w[i], full) | T.same(w[i], frac))
    T.prove(name + ".total_mass_is_percentile", T.close(T.total([w[i] for i in range(n)]), p, 1e-9))
