"""Shared scenario: what the built-in plan steps do with the configuration, the transforms, the starting variables and the results.

The function-level contracts of the properties take a VALIDATED configuration (validated with the transforms as context, so that
bounds, magnitudes, linear constraints and non-linear bounds are in the optimizer domain), user-domain results under the key
'results' and optimizer-domain ones under 'transformed_results', and a float64 starting vector.  Those are post-conditions of
DefaultOptimizerStep.run/_run_optimizer/_signal_evaluation and DefaultEvaluatorStep.run/_run_evaluator, discharged here on the real
step code against abstract collaborators (EnOptConfig.model_validate, EnsembleEvaluator, EnsembleOptimizer by interface contract).
"""
from __future__ import annotations

import types

import numpy as np

MOPT = "ropt.plugins.plan.optimizer"
MEVS = "ropt.plugins.plan.evaluator"


def cases(tier):
    for kind in ("evaluator", "optimizer"):
        for tr in (False, True):
            for start in ("default", "integers", "floats"):
                yield "%s/transforms=%s/start=%s" % (kind, tr, start), {"kind": kind, "tr": tr, "start": start, "outcome": "ok"}
        yield "%s/transforms=True/start=default/evaluation-aborts-with-too-few-realizations" % kind, {"kind": kind, "tr": True, "start": "default", "outcome": "too-few-abort"}
        # the SAME step object run a second time: with the same configuration dictionary (which the user may have edited in
        # between), without the transforms, nested plan and metadata of the first run, from another start vector - nothing of the
        # first run is kept
        yield "%s/second-run-of-the-same-step-object" % kind, {"kind": kind, "tr": True, "start": "floats", "outcome": "ok", "second_run": "without-transforms"}
        yield "%s/second-run-of-the-same-step-object-with-the-same-dictionary-and-transforms-objects" % kind, {"kind": kind, "tr": True, "start": "floats", "outcome": "ok", "second_run": "same-objects"}


def scenario(T, case, prefix):
    from ropt.enums import EventType, OptimizerExitCode
    from ropt.exceptions import OptimizationAborted

    kind = case["kind"]
    log = {"validate": [], "evaluator": [], "calculate": [], "optimizer": [], "start": [], "events": []}

    class FakeFunctionResults:
        def __init__(self, tag):
            self.tag, self.functions, self.metadata = tag, object(), {}

        def transform_from_optimizer(self, transforms):
            return ("user-domain", self.tag, transforms)

    opt_results = (FakeFunctionResults("r0"), FakeFunctionResults("r1"))
    x0 = T.real("validated_initial_values", (3,))
    validated = types.SimpleNamespace(variables=types.SimpleNamespace(initial_values=x0, mask=None))
    x0_second = T.real("validated_initial_values_of_the_second_run", (3,))
    validated_second = types.SimpleNamespace(variables=types.SimpleNamespace(initial_values=x0_second, mask=None))

    class FakeEvaluator:
        def __init__(self, config, transforms, evaluator, plugin_manager):
            log["evaluator"].append((config, transforms, evaluator, plugin_manager))

        def calculate(self, variables, *, compute_functions, compute_gradients):
            log["calculate"].append((variables, compute_functions, compute_gradients))
            if case["outcome"] == "too-few-abort":
                raise OptimizationAborted(exit_code=OptimizerExitCode.TOO_FEW_REALIZATIONS)
            return opt_results

    class FakeOptimizer:
        is_parallel = False

        def __init__(self, **kw):
            log["optimizer"].append(kw)

        def start(self, variables):
            log["start"].append(variables)
            signal = log["optimizer"][0]["signal_evaluation"]
            signal()
            if case["outcome"] == "too-few-abort":
                raise OptimizationAborted(exit_code=OptimizerExitCode.TOO_FEW_REALIZATIONS)
            signal(opt_results)
            return OptimizerExitCode.OPTIMIZER_STEP_FINISHED

    calls = [0]

    def model_validate(config, context=None, **kw):
        log["validate"].append((config, context, kw))
        calls[0] += 1
        return validated if calls[0] == 1 else validated_second

    mod = MOPT if kind == "optimizer" else MEVS
    stubs = {(mod, "EnOptConfig"): types.SimpleNamespace(model_validate=model_validate), (mod, "EnsembleEvaluator"): FakeEvaluator}
    if kind == "optimizer":
        stubs[(mod, "EnsembleOptimizer")] = FakeOptimizer
    else:
        stubs[(mod, "FunctionResults")] = FakeFunctionResults
    restore = None
    clsname = "DefaultOptimizerStep" if kind == "optimizer" else "DefaultEvaluatorStep"
    if T.symbolic:
        sh = T.shadow([mod], stubs)
        cls = T.under_contract(sh, mod, clsname, stubs)
        for q in (("run", "_run_optimizer", "_signal_evaluation") if kind == "optimizer" else ("run", "_run_evaluator")):
            T.under_contract(sh, mod, clsname + "." + q, stubs)
    else:
        import importlib

        real = importlib.import_module(mod)
        restore = (real, {k[1]: getattr(real, k[1]) for k in stubs})
        for k, v in stubs.items():
            setattr(real, k[1], v)
        cls = getattr(real, clsname)
    try:
        user_evaluator, manager = object(), object()
        plan = types.SimpleNamespace(emit_event=log["events"].append, optimizer_context=types.SimpleNamespace(evaluator=user_evaluator, plugin_manager=manager),
                                     aborted=False, abort=lambda: None)
        step = cls(plan)
        transforms = types.SimpleNamespace(variables=object(), objectives=None, nonlinear_constraints=None) if case["tr"] else None
        given = {"variables": {"initial_values": [1, 2, 3]}}
        start = {"default": None, "integers": [0, 0, 1], "floats": np.array([0.5, 1.5, 2.5])}[case["start"]]
        extra = {}
        if case.get("second_run"):
            extra["metadata"] = {"tag": "first run"}
            if kind == "optimizer":
                inner = types.SimpleNamespace(set_parent=lambda p: None, run_function=lambda v: None, aborted=False)
                extra["nested_optimization"] = inner
        rc = step.run(config=given, transforms=transforms, variables=start, **extra)
        if case.get("second_run"):
            first = {k: list(v) for k, v in log.items()}
            for v in log.values():
                del v[:]
            # FakeOptimizer.start reads log["optimizer"][0]: fine, the list was emptied and is filled again by the second run
            start2 = np.array([9.5, 8.5, 7.5])
            for r in opt_results:
                r.metadata = {}  # (the evaluator hands out fresh results in the second run)
            tr2 = transforms if case["second_run"] == "same-objects" else None
            given["variables"]["initial_values"] = [4, 5, 6]  # the user edits the dictionary between the runs (same object)
            rc2 = step.run(config=given, transforms=tr2, variables=start2)
            pre = prefix + ".step.second_run."
            T.prove(pre + "configuration_is_validated_again_with_the_transforms_of_this_run", len(log["validate"]) == 1 and log["validate"][0][0] is given and log["validate"][0][1] is tr2)
            T.prove(pre + "evaluator_is_built_again_from_the_newly_validated_configuration_and_the_transforms_of_this_run",
                    len(log["evaluator"]) == 1 and log["evaluator"][0][0] is validated_second and log["evaluator"][0][1] is tr2 and log["evaluator"][0][2] is user_evaluator)
            if kind == "optimizer":
                T.prove(pre + "optimizer_is_built_again_from_the_newly_validated_configuration", len(log["optimizer"]) == 1 and log["optimizer"][0].get("enopt_config") is validated_second)
                T.prove(pre + "nested_plan_of_the_first_run_is_not_kept", first["optimizer"][0].get("nested_optimizer") is not None and log["optimizer"][0].get("nested_optimizer") is None)
            used2 = log["start"] if kind == "optimizer" else [c[0] for c in log["calculate"]]
            T.prove(pre + "start_vector_is_the_one_given_to_the_second_run", len(used2) == 1 and bool(np.all(np.asarray(used2[0]) == start2)))
            ev2 = [e for e in log["events"] if e.event_type == EventType.FINISHED_EVALUATION]
            if tr2 is None:
                T.prove(pre + "results_are_delivered_untransformed_and_without_the_first_runs_metadata",
                        len(ev2) == 1 and list(ev2[0].data.get("results", ())) == list(opt_results) and "transformed_results" not in ev2[0].data
                        and all(r.metadata == {} for r in opt_results))
            else:
                T.prove(pre + "results_are_delivered_in_both_domains_and_without_the_first_runs_metadata",
                        len(ev2) == 1 and list(ev2[0].data.get("transformed_results", ())) == list(opt_results)
                        and list(ev2[0].data.get("results", ())) == [("user-domain", r.tag, tr2) for r in opt_results] and all(r.metadata == {} for r in opt_results))
            T.prove(pre + "finishes_with_its_regular_code", rc2 == rc)
            for k, v in first.items():
                log[k][:] = v
            for r in opt_results:
                r.metadata = {"tag": "first run"}
    finally:
        if restore:
            for k, v in restore[1].items():
                setattr(restore[0], k, v)
    T.prove(prefix + ".step.configuration_is_validated_once_with_the_transforms_as_context",
            len(log["validate"]) == 1 and log["validate"][0][0] is given and log["validate"][0][1] is transforms and not log["validate"][0][2])
    T.prove(prefix + ".step.evaluator_is_built_from_the_validated_configuration_the_transforms_and_the_users_evaluator",
            len(log["evaluator"]) == 1 and log["evaluator"][0][0] is validated and log["evaluator"][0][1] is transforms and log["evaluator"][0][2] is user_evaluator
            and log["evaluator"][0][3] is manager)
    if kind == "optimizer":
        T.prove(prefix + ".step.optimizer_is_built_from_the_validated_configuration", len(log["optimizer"]) == 1 and log["optimizer"][0].get("enopt_config") is validated)
    used = log["start"] if kind == "optimizer" else [c[0] for c in log["calculate"]]
    T.prove(prefix + ".step.one_run", len(used) == 1)
    if used:
        v = used[0]
        if case["start"] == "default":
            T.prove(prefix + ".step.default_start_is_the_validated_initial_vector", T.same(v, x0))
        else:
            want = np.asarray(start, dtype=np.float64)
            dt = np.dtype(getattr(v, "sdtype", None) or v.dtype)
            T.prove(prefix + ".step.start_vector_is_the_given_one_as_a_float64_vector", isinstance(v, np.ndarray) and dt == np.float64 and v.shape == want.shape and bool(np.all(np.asarray(v) == want)))
    if kind == "evaluator":
        T.prove(prefix + ".step.functions_only_are_requested", all(c[1] is True and c[2] is False for c in log["calculate"]))
    events = [e for e in log["events"] if e.event_type == EventType.FINISHED_EVALUATION]
    if case["outcome"] == "too-few-abort":
        T.prove(prefix + ".step.an_evaluation_aborted_for_too_few_realizations_ends_the_step_with_that_code", rc == OptimizerExitCode.TOO_FEW_REALIZATIONS and events == [])
        return
    T.prove(prefix + ".step.finishes_with_its_regular_code", rc == (OptimizerExitCode.OPTIMIZER_STEP_FINISHED if kind == "optimizer" else OptimizerExitCode.EVALUATION_STEP_FINISHED))
    T.prove(prefix + ".step.one_results_event", len(events) == 1)
    if len(events) == 1:
        data = events[0].data
        # every handler of the plan chain and every observer reads the same event: the result collections are sequences that
        # can be read again (a generator would be empty for the second reader, and 'last' trackers read it backwards)
        T.prove(prefix + ".step.delivered_result_collections_can_be_read_by_every_receiver",
                all(isinstance(v, (list, tuple)) for k, v in data.items() if k in ("results", "transformed_results")), repr({k: type(v).__name__ for k, v in data.items()}))
        if case["tr"]:
            T.prove(prefix + ".step.results_key_holds_the_user_domain_results_and_transformed_results_the_optimizer_domain_ones",
                    list(data.get("transformed_results", ())) == list(opt_results)
                    and list(data.get("results", ())) == [("user-domain", r.tag, transforms) for r in opt_results])
        else:
            T.prove(prefix + ".step.without_transforms_the_results_are_delivered_as_they_are", list(data.get("results", ())) == list(opt_results) and "transformed_results" not in data)
