"""C11 - scaling transforms change optimizer coordinates only, not user-domain behaviour.

Functions under contract: ropt.transforms.variable_scaler:VariableScaler.* ; GradientConfig.fix_perturbations (with a scaler);
_gradient:_perturb_variables/_apply_bounds (request invariance); ConstraintInfo.create + transform_from_optimizer;
FunctionEvaluations/Functions/GradientEvaluations.transform_from_optimizer.
"""
from __future__ import annotations

import itertools
import types

import numpy as np

from roptvc.driver import Scenario

LEVEL = "other"
MV = "ropt.transforms.variable_scaler"
MG = "ropt.ensemble_evaluator._gradient"
MC = "ropt.config.enopt._gradient_config"
MI = "ropt.results._constraint_info"
ABSOLUTE, RELATIVE = 1, 2
EXPLANATION = (
    "Lemmas over the real code, for symbolic positive scales s, offsets o, points, bounds, magnitudes, samples and coefficients: (1) from_optimizer(to_optimizer(x)) = x and the "
    "converse; (2) l <= x <= u iff the optimizer-domain image satisfies the transformed bounds; (3) request invariance: the user-domain image of the perturbed vector built in "
    "optimizer coordinates from the validated quantities (transformed point and bounds, fix_perturbations magnitudes for absolute and relative types, every boundary type) equals "
    "the perturbed vector of the untransformed pipeline; (4) the transformed linear constraints (incl. equation scaling) are satisfied by the image iff the original ones are by "
    "the point, for every finite/infinite bound kind; (5) bound/linear differences and violations computed in optimizer coordinates and mapped back by "
    "ConstraintInfo.transform_from_optimizer equal those computed in user coordinates, and the evaluation/function back-transforms invert the forward ones. "
    "Element-wise in the variables; rows/variables enumerated up to 2x2 for the linear constraints."
)
ASSUMPTIONS = [
    "scales are strictly positive and finite, offsets finite (as in the quantifier); linear constraint rows are non-zero",
    "objective / non-linear constraint transforms are user classes: interface contract from_optimizer(to_optimizer(v)) = v with positive element-wise scale (not under contract)",
    "floats as reals: 'equal' means equal up to rounding in the statement",
    "re-validating an already transformed configuration with the same transform context is outside C11/C18 (the dump is in optimizer coordinates)",
    "bounded in shape only (variables <= 2, linear rows <= 2; 3 and 3 in the thorough tier)",
]


def _scaler(T, scales, offsets):
    cls = T.func(MV, "VariableScaler") if not T.symbolic else T._sh.get(MV, "VariableScaler")
    return cls(scales, offsets)


def _shadow(T, mods):
    if T.symbolic:
        sh = T.shadow(mods)
        for q in ("to_optimizer", "from_optimizer", "magnitudes_to_optimizer", "linear_constraints_to_optimizer", "bound_constraint_diffs_from_optimizer", "linear_constraints_diffs_from_optimizer"):
            T.under_contract(sh, MV, "VariableScaler." + q)
        return sh
    return None


def _so(T, n, which, given=False):
    if given and which in ("s", "so"):
        # given (concrete) scales: keeps the obligations with products of several symbolic factors decidable
        s = T.const(np.array([2.0, 0.5, 4.0][:n]))
        return s, (T.real("offsets", (n,)) if which == "so" else None)
    s = T.real("scales", (n,), lo=0.01, hi=100.0) if which in ("s", "so") else None
    o = T.real("offsets", (n,)) if which in ("o", "so") else None
    return s, o


# ------------------------------------------------------------------------------------ round trip and bounds
def cases_scaler(tier):
    for which in ("s", "o", "so", "none"):
        for lk, uk in itertools.product(("fin", "-inf"), ("fin", "+inf")):
            yield "%s/%s/%s" % (which, lk, uk), {"which": which, "lk": lk, "uk": uk}
            if tier == "thorough":
                for n in (1, 3):
                    yield "%s/%s/%s/n%d" % (which, lk, uk, n), {"which": which, "lk": lk, "uk": uk, "n": n}
        if tier == "thorough":
            # mixed bound kinds over the variables
            yield "%s/mixed" % which, {"which": which, "lks": ["fin", "-inf", "fin"], "uks": ["+inf", "fin", "fin"], "n": 3}


def scn_scaler(T, case):
    _shadow(T, [MV])
    n = case.get("n", 2)
    s, o = _so(T, n, case["which"])
    sc = _scaler(T, s, o)
    x = T.real("x", (n,))
    xh = sc.to_optimizer(x)
    T.prove("C11.scaler.round_trip_user_to_optimizer_and_back", T.same(sc.from_optimizer(xh), x))
    y = T.real("y", (2, n))
    T.prove("C11.scaler.round_trip_optimizer_to_user_and_back", T.same(sc.to_optimizer(sc.from_optimizer(y)), y))
    T.prove("C11.scaler.arguments_not_modified", T.same(x, T.inputs["x"]))
    lb = T.real("lb", (n,), kinds=np.array(case.get("lks") or [case["lk"]] * n, dtype=object))
    ub = T.real("ub", (n,), kinds=np.array(case.get("uks") or [case["uk"]] * n, dtype=object))
    T.assume(T.all(lb <= ub))
    lh, uh = sc.to_optimizer(lb), sc.to_optimizer(ub)
    for i in range(n):
        inside = (lb[i] <= x[i]) & (x[i] <= ub[i])
        inside_h = (lh[i] <= xh[i]) & (xh[i] <= uh[i])
        if not T.symbolic:
            T.assume(abs(float(x[i]) - float(lb[i])) > 1e-9 * (1 + abs(float(x[i]))) and abs(float(x[i]) - float(ub[i])) > 1e-9 * (1 + abs(float(x[i]))))
        T.prove("C11.scaler.bounds_satisfied_iff_transformed_bounds_satisfied", T.all([T.implies(inside, inside_h), T.implies(inside_h, inside)]))
    T.prove("C11.scaler.transformed_bounds_keep_their_order", T.all(lh <= uh))
    # frame: no method modifies the array it is given (callers keep using their arrays: fix_perturbations, the evaluator rows, ...)
    mags = T.real("magnitudes", (n,), lo=0.0)
    dl, du = T.real("diffs_lower", (n,)), T.real("diffs_upper", (n,))
    keep = [a.copy() for a in (x, y, mags, dl, du)]
    sc.to_optimizer(x), sc.from_optimizer(y), sc.magnitudes_to_optimizer(mags), sc.bound_constraint_diffs_from_optimizer(dl, du)
    T.prove("C11.scaler.no_method_modifies_its_arguments", T.all([T.same(a, b) for a, b in zip((x, y, mags, dl, du), keep)]))
    T.prove("C11.scaler.magnitudes_scale_like_differences_of_variables", T.same(sc.magnitudes_to_optimizer(mags), sc.to_optimizer(x + mags) - sc.to_optimizer(x)) if T.symbolic
            else T.close(sc.magnitudes_to_optimizer(mags), sc.to_optimizer(x + mags) - sc.to_optimizer(x), 1e-9))


# ------------------------------------------------------------------------------------ request invariance
def cases_requests(tier):
    for which in ("s", "so"):
        for bt in (1, 2, 3):
            for pt in (ABSOLUTE, RELATIVE):
                yield "%s/boundary=%d/%s" % (which, bt, "absolute" if pt == ABSOLUTE else "relative"), {"which": which, "bt": bt, "pt": pt}


class _FakeGradient:
    def __init__(self, mags, btypes, ptypes):
        self.perturbation_magnitudes, self.boundary_types, self.perturbation_types = mags, btypes, ptypes

    def model_copy(self, update):
        return types.SimpleNamespace(**update)


def scn_requests(T, case):
    sh = _shadow(T, [MV, MG, MC, "ropt.config.utils"])
    n = 1
    s, o = _so(T, n, case["which"])
    sc = _scaler(T, s, o)
    if T.symbolic:
        fix = T.under_contract(sh, MC, "GradientConfig.fix_perturbations")
        apply_bounds = T.under_contract(sh, MG, "_apply_bounds")
    else:
        fix = T.func(MC, "GradientConfig.fix_perturbations")
        apply_bounds = T.func(MG, "_apply_bounds")
    x = T.real("x", (n,))
    lb, ub = T.real("lb", (n,)), T.real("ub", (n,))
    T.assume(T.all((lb <= x) & (x <= ub)))
    m = T.real("magnitude", (n,), lo=0.0)
    xi = T.real("sample", (n,))
    bt = np.array([case["bt"]] * n, dtype=np.ubyte)
    ptypes = np.array([case["pt"]] * n, dtype=np.ubyte)
    tr = types.SimpleNamespace(variables=sc)
    # untransformed pipeline (user coordinates)
    g_user = fix(_FakeGradient(m, bt, ptypes), types.SimpleNamespace(initial_values=np.zeros(n), lower_bounds=lb, upper_bounds=ub, mask=None, types=None), None)
    want = apply_bounds(x + g_user.perturbation_magnitudes * xi, lb, ub, bt)
    # transformed pipeline: validated quantities in optimizer coordinates, the evaluator receives from_optimizer(...)
    xh, lh, uh = sc.to_optimizer(x), sc.to_optimizer(lb), sc.to_optimizer(ub)
    g_opt = fix(_FakeGradient(m, bt, ptypes), types.SimpleNamespace(initial_values=np.zeros(n), lower_bounds=lh, upper_bounds=uh, mask=None, types=None), tr)
    got = sc.from_optimizer(apply_bounds(xh + g_opt.perturbation_magnitudes * xi, lh, uh, bt))
    T.prove("C11.requests.evaluator_receives_the_same_user_domain_perturbed_vector", T.close(got, want, 1e-9) if not T.symbolic else T.same(got, want))


# ------------------------------------------------------------------------------------ linear constraints
def cases_linear(tier):
    for which in ("s", "so", "o"):
        for rows, n in ((1, 1), (1, 2), (2, 2)) + (((2, 1), (1, 3), (2, 3), (3, 2)) if tier == "thorough" else ()):
            for lk, uk in itertools.product(("fin", "-inf"), ("fin", "+inf")):
                yield "%s/rows%d-vars%d/%s/%s" % (which, rows, n, lk, uk), {"which": which, "rows": rows, "n": n, "lk": lk, "uk": uk}
            # the same scaler object has served another configuration (other linear constraints) before: nothing of that one is kept
            yield "%s/rows%d-vars%d/fin/fin/scaler-used-for-another-configuration-before" % (which, rows, n), {"which": which, "rows": rows, "n": n, "lk": "fin", "uk": "fin", "prior": True}
            yield "%s/rows%d-vars%d/fin/fin/scaler-used-for-a-configuration-with-one-more-constraint-before" % (which, rows, n), {"which": which, "rows": rows, "n": n, "lk": "fin", "uk": "fin", "prior": True, "prior_rows": rows + 1}


def scn_linear(T, case):
    _shadow(T, [MV])
    rows, n = case["rows"], case["n"]
    s, o = _so(T, n, case["which"], given=n > 1)
    sc = _scaler(T, s, o)
    A = T.real("A", (rows, n))
    T.assume(T.all([T.any([~T.same(A[r, i], 0.0 * A[r, i]) if T.symbolic else A[r, i] != 0 for i in range(n)]) for r in range(rows)]))  # non-zero rows
    lb = T.real("lb", (rows,), kinds=np.array([case["lk"]] * rows, dtype=object))
    ub = T.real("ub", (rows,), kinds=np.array([case["uk"]] * rows, dtype=object))
    T.assume(T.all(lb <= ub))
    if case.get("prior"):
        prows = case.get("prior_rows", rows)
        Ap = T.real("A_of_the_earlier_configuration", (prows, n))
        T.assume(T.all([T.any([~T.same(Ap[r, i], 0.0 * Ap[r, i]) if T.symbolic else Ap[r, i] != 0 for i in range(n)]) for r in range(prows)]))
        lbp = T.real("lb_of_the_earlier_configuration", (prows,))
        sc.linear_constraints_to_optimizer(Ap, lbp, T.real("ub_of_the_earlier_configuration", (prows,), ge=lbp))
    Ah, lh, uh = sc.linear_constraints_to_optimizer(A, lb, ub)
    x = T.real("x", (n,))
    xh = sc.to_optimizer(x)
    for r in range(rows):
        v = T.total([A[r, i] * x[i] for i in range(n)])
        vh = T.total([Ah[r, i] * xh[i] for i in range(n)])
        ok, okh = (lb[r] <= v) & (v <= ub[r]), (lh[r] <= vh) & (vh <= uh[r])
        if not T.symbolic:
            # native doubles: a value within rounding of a bound may fall on either side after the transformation ("up to rounding")
            T.assume(abs(float(v) - float(lb[r])) > 1e-9 * (1 + abs(float(v))) and abs(float(v) - float(ub[r])) > 1e-9 * (1 + abs(float(v))))
        T.prove("C11.linear.point_feasible_iff_image_feasible_for_transformed_constraints", T.all([T.implies(ok, okh), T.implies(okh, ok)]))
        T.prove("C11.linear.transformed_rows_are_normalised", T.same(T.np.max(T.np.abs(Ah[r, :])), 1.0) if T.symbolic else abs(float(np.max(np.abs(Ah[r, :]))) - 1.0) < 1e-12)
        # differences map back exactly
        dl, du = sc.linear_constraints_diffs_from_optimizer(T.np.array([vh - lh[r] for r in range(rows)]), T.np.array([vh - uh[r] for r in range(rows)]))
    for r in range(rows):
        v = T.total([A[r, i] * x[i] for i in range(n)])
        vh = T.total([Ah[r, i] * xh[i] for i in range(n)])
        dl, du = sc.linear_constraints_diffs_from_optimizer(vh - lh, vh - uh)
        eq = (lambda a, b: T.same(a, b)) if T.symbolic else (lambda a, b: T.close(a, b, 1e-9))
        T.prove("C11.linear.differences_map_back_to_user_domain_differences", eq(dl[r], v - lb[r]) & eq(du[r], v - ub[r]))


# ------------------------------------------------------------------------------------ results: constraint info and evaluations
def cases_results(tier):
    for which in ("s", "so", "o"):
        for lin in (False, True):
            yield "%s/linear=%s" % (which, lin), {"which": which, "lin": lin}
        # no finite variable bound at all: no bound differences are reported, the linear ones still are
        yield "%s/linear=True/no-variable-bounds" % which, {"which": which, "lin": True, "nobounds": True}


def scn_results(T, case):
    sh = _shadow(T, [MV, MI, "ropt.results._utils", "ropt.results._function_evaluations", "ropt.results._gradient_evaluations", "ropt.results._functions"])
    n = 2
    s, o = _so(T, n, case["which"], given=case["lin"])
    sc = _scaler(T, s, o)
    get = (lambda m, q: T.under_contract(sh, m, q)) if T.symbolic else T.func
    CI = get(MI, "ConstraintInfo")
    FE = get("ropt.results._function_evaluations", "FunctionEvaluations")
    GE = get("ropt.results._gradient_evaluations", "GradientEvaluations")
    if T.symbolic:
        T.under_contract(sh, MI, "ConstraintInfo.transform_from_optimizer")
        T.under_contract(sh, "ropt.results._function_evaluations", "FunctionEvaluations.transform_from_optimizer")
        T.under_contract(sh, "ropt.results._gradient_evaluations", "GradientEvaluations.transform_from_optimizer")
    x = T.real("x", (n,))
    if case.get("nobounds"):
        lb, ub = T.real("lb", (n,), kinds=np.array(["-inf"] * n, dtype=object)), T.real("ub", (n,), kinds=np.array(["+inf"] * n, dtype=object))
    else:
        lb, ub = T.real("lb", (n,)), T.real("ub", (n,))
    T.assume(T.all(lb <= ub))
    A = T.real("A", (1, n)) if case["lin"] else None
    if case["lin"]:
        T.assume(T.any([~T.same(A[0, i], 0.0 * A[0, i]) if T.symbolic else A[0, i] != 0 for i in range(n)]))
        llb, lub = T.real("llb", (1,)), T.real("lub", (1,))
        T.assume(T.all(llb <= lub))
    tr = types.SimpleNamespace(variables=sc, objectives=None, nonlinear_constraints=None)
    # user-domain reference (no transforms at all)
    cfg_user = types.SimpleNamespace(variables=types.SimpleNamespace(lower_bounds=lb, upper_bounds=ub),
                                     linear_constraints=types.SimpleNamespace(coefficients=A, lower_bounds=llb, upper_bounds=lub) if case["lin"] else None, nonlinear_constraints=None)
    ref = CI.create(cfg_user, x, None)
    # optimizer-domain configuration as validation produces it, then mapped back
    if case["lin"]:
        Ah, lh_, uh_ = sc.linear_constraints_to_optimizer(A, llb, lub)
    cfg_opt = types.SimpleNamespace(variables=types.SimpleNamespace(lower_bounds=sc.to_optimizer(lb), upper_bounds=sc.to_optimizer(ub)),
                                    linear_constraints=types.SimpleNamespace(coefficients=Ah, lower_bounds=lh_, upper_bounds=uh_) if case["lin"] else None, nonlinear_constraints=None)
    back = CI.create(cfg_opt, sc.to_optimizer(x), None).transform_from_optimizer(tr)
    eq = (lambda a, b: T.same(a, b)) if T.symbolic else (lambda a, b: T.close(a, b, 1e-9))
    if case.get("nobounds"):
        T.prove("C11.results.no_bound_differences_without_finite_bounds_in_either_run", (back.bound_lower is None) == (ref.bound_lower is None) and (back.bound_violation is None) == (ref.bound_violation is None))
    if ref.bound_lower is not None and back.bound_lower is not None:
        T.prove("C11.results.bound_differences_equal_the_untransformed_ones", eq(back.bound_lower, ref.bound_lower) & eq(back.bound_upper, ref.bound_upper))
        T.prove("C11.results.bound_violations_equal_the_untransformed_ones", eq(back.bound_violation, ref.bound_violation))
    if case["lin"]:
        T.prove("C11.results.linear_differences_equal_the_untransformed_ones", eq(back.linear_lower, ref.linear_lower) & eq(back.linear_upper, ref.linear_upper))
        T.prove("C11.results.linear_violations_equal_the_untransformed_ones", eq(back.linear_violation, ref.linear_violation))
    # evaluations: variables back in user coordinates, values untouched by a variable transform
    obj = T.real("objectives", (2, 1))
    fe = FE.create(variables=sc.to_optimizer(x), objectives=obj).transform_from_optimizer(tr)
    T.prove("C11.results.reported_variables_are_user_domain", eq(fe.variables, x) & T.same(fe.objectives, obj))
    pv = T.real("perturbed", (2, 1, n))
    ge = GE.create(variables=sc.to_optimizer(x), perturbed_variables=sc.to_optimizer(pv), perturbed_objectives=T.real("pobj", (2, 1, 1))).transform_from_optimizer(tr)
    T.prove("C11.results.reported_perturbed_variables_are_user_domain", eq(ge.variables, x) & eq(ge.perturbed_variables, pv))


def cases_chain_requests(tier):
    for kind in ("functions", "both", "functions-then-gradients"):
        yield "%s/R2P2N2" % kind, {"kind": kind, "R": 2, "P": 2, "N": 2, "B": 1, "K": 1, "tr": True, "prefix": "C11.chain"}
        # more realizations than perturbations and the other way round (the request table is laid out realization by realization,
        # perturbation by perturbation: with equal counts a mix-up of the two is invisible)
        for (R, P, N) in ((3, 2, 1), (3, 1, 2), (2, 3, 1)) + (((4, 2, 2), (1, 3, 2), (5, 2, 1)) if tier == "thorough" else ()):
            yield "%s/R%dP%dN%d" % (kind, R, P, N), {"kind": kind, "R": R, "P": P, "N": N, "B": 1, "K": 0, "tr": True, "prefix": "C11.chain"}
    yield "functions/batch2", {"kind": "functions", "R": 2, "P": 1, "N": 1, "B": 2, "K": 0, "tr": True, "prefix": "C11.chain"}


def scn_chain_requests(T, case):
    """The evaluator is always handed user-domain vectors (unperturbed and perturbed, in all three evaluation kinds): the request
    scenario of C06 with a variable transform, stated here as a clause of C11."""
    from contracts.C06 import scn_requests

    scn_requests(T, case)


# ------------------------------------------------------------------------------------ the configured linear constraints object
ML = "ropt.config.enopt._linear_constraints_config"
MCU = "ropt.config.utils"


def cases_linear_config(tier):
    for n in (1, 2) + ((3,) if tier == "thorough" else ()):
        for lk, uk in (("fin", "fin"), ("-inf", "fin"), ("fin", "+inf")):
            yield "vars%d/%s/%s" % (n, lk, uk), {"n": n, "lk": lk, "uk": uk}


def scn_linear_config(T, case):
    """LinearConstraintsConfig.apply_transformation: the user's (validated, frozen) object stays in the user domain - it may be used
    in several configurations with different transforms - and each application yields the constraints of THAT transform."""
    n = case["n"]
    if T.symbolic:
        sh = T.shadow([MV, MCU, ML])
        for q in ("to_optimizer", "linear_constraints_to_optimizer"):
            T.under_contract(sh, MV, "VariableScaler." + q)
        cls = T.under_contract(sh, ML, "LinearConstraintsConfig")
        T.under_contract(sh, ML, "LinearConstraintsConfig.apply_transformation")
        imm = sh.get(MCU, "immutable_array")
    else:
        cls = T.func(ML, "LinearConstraintsConfig")
        imm = T.func(MCU, "immutable_array")
    A = T.real("A", (1, n))
    T.assume(T.any([~T.same(A[0, i], 0.0 * A[0, i]) if T.symbolic else A[0, i] != 0 for i in range(n)]))
    lb = T.real("lb", (1,), kinds=np.array([case["lk"]], dtype=object))
    ub = T.real("ub", (1,), kinds=np.array([case["uk"]], dtype=object))
    T.assume(T.all(lb <= ub))
    me = cls.model_construct(coefficients=imm(A), lower_bounds=imm(lb), upper_bounds=imm(ub))
    me._immutable()
    variables = types.SimpleNamespace(initial_values=np.zeros(n))
    x = T.real("x", (n,))
    v = T.total([A[0, i] * x[i] for i in range(n)])
    ok = (lb[0] <= v) & (v <= ub[0])
    if not T.symbolic:
        T.assume(abs(float(v) - float(lb[0])) > 1e-9 * (1 + abs(float(v))) and abs(float(v) - float(ub[0])) > 1e-9 * (1 + abs(float(v))))
    for k, given in enumerate((False, True)):
        if given:
            s, o = T.const(np.array([2.0, 0.5, 4.0][:n])), T.real("offsets_2", (n,))
        else:
            s, o = T.real("scales_1", (n,), lo=0.01, hi=100.0) if n == 1 else T.const(np.array([0.25, 3.0, 1.5][:n])), None
        sc = _scaler(T, s, o)
        out = me.apply_transformation(variables, types.SimpleNamespace(variables=sc))
        T.prove("C11.linear_config.the_user_object_is_not_changed", T.same(me.coefficients, A) & T.same(me.lower_bounds, lb) & T.same(me.upper_bounds, ub), "application %d" % (k + 1))
        xh = sc.to_optimizer(x)
        vh = T.total([out.coefficients[0, i] * xh[i] for i in range(n)])
        okh = (out.lower_bounds[0] <= vh) & (vh <= out.upper_bounds[0])
        T.prove("C11.linear_config.point_feasible_iff_image_feasible_for_the_constraints_of_this_transform", T.all([T.implies(ok, okh), T.implies(okh, ok)]), "application %d" % (k + 1))
    same = me.apply_transformation(variables, None)
    T.prove("C11.linear_config.without_transform_the_constraints_are_the_user_domain_ones", T.same(same.coefficients, A) & T.same(same.lower_bounds, lb) & T.same(same.upper_bounds, ub))


# ------------------------------------------------------------------------------------ user-domain results (shared contract)
def cases_user_results(tier):
    from contracts import backtransform

    return backtransform.cases(tier)


def scn_user_results(T, case):
    from contracts import backtransform

    backtransform.scenario(T, case, "C11")


# ------------------------------------------------------------------------------------ what the plan steps hand on (shared contract)
def cases_steps(tier):
    from contracts import stepcontract

    return stepcontract.cases(tier)


def scn_steps(T, case):
    from contracts import stepcontract

    stepcontract.scenario(T, case, "C11")


# ------------------------------------------------------------------------------------ back-transformed differences when a constraint transform is configured as well
def cases_info_both_transforms(tier):
    from contracts import C13

    for cid, c in C13.cases_transform(tier):
        if c["var_tr"]:
            yield cid, dict(c, prefix="C11.info")


def scn_info_both_transforms(T, case):
    """The user-domain bound and linear differences of a result are the variable transform's back-transformed ones also when a
    non-linear constraint transform is configured next to it (every combination of groups; C13's scenario under this property's prefix)."""
    from contracts import C13

    C13.scn_transform(T, case)


SCENARIOS = [
    Scenario("evaluator_requests_in_user_coordinates", scn_chain_requests, cases_chain_requests, {"quick": 3, "thorough": 20}),
    Scenario("scaler_round_trip_and_bounds", scn_scaler, cases_scaler, {"quick": 10, "thorough": 100}),
    Scenario("request_invariance", scn_requests, cases_requests, {"quick": 20, "thorough": 200}),
    Scenario("linear_constraints", scn_linear, cases_linear, {"quick": 10, "thorough": 100}),
    Scenario("linear_constraints_config_object", scn_linear_config, cases_linear_config, {"quick": 10, "thorough": 100}),
    Scenario("results_back_transform", scn_results, cases_results, {"quick": 10, "thorough": 100}),
    Scenario("user_domain_results", scn_user_results, cases_user_results, {"quick": 3, "thorough": 20}),
    Scenario("plan_steps_hand_over", scn_steps, cases_steps, {"quick": 1, "thorough": 2}),
    Scenario("constraint_info_with_variable_and_constraint_transforms", scn_info_both_transforms, cases_info_both_transforms, {"quick": 5, "thorough": 30}),
]

MANIFEST = {
    "category": "other",
    "text": "Deductive lemmas over the real VariableScaler / fix_perturbations / _apply_bounds / ConstraintInfo / evaluation back-transform code for symbolic positive scales and offsets: "
            "round trips, bound and linear-constraint equivalence (incl. equation scaling, every finite/infinite bound kind), request invariance for every boundary and perturbation type, "
            "and equality of back-transformed differences/violations with the untransformed ones; discharged by z3. Objective/constraint transforms are user classes (interface contract), "
            "and the end-to-end 'same behaviour with and without transforms' follows by composition with C01-C10, which is why the level is 'other' rather than a single proof.",
    "note": "variables <= 2 (3), linear rows <= 2 (3); user objective/constraint transforms assumed to satisfy their round-trip contract; floats as reals",
    "technique": "contract-based deductive verification: lemmas over the contracts of the real transform code by symbolic execution + z3/cvc5; bounded run-time contract checking as stand-in",
}
