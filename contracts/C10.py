"""C10 - perturbed variables honour magnitudes and boundary-type semantics.

Functions under contract (real source, re-read on every run):
  ropt.ensemble_evaluator._gradient:_apply_bounds        (incl. the nested `mirror`)
  ropt.ensemble_evaluator._gradient:_perturb_variables
  ropt.config.enopt._gradient_config:GradientConfig.fix_perturbations
"""
from __future__ import annotations

import itertools
import types

import numpy as np

from roptvc.driver import Scenario

NONE, TRUNC, MIRROR = 1, 2, 3
ABSOLUTE, RELATIVE = 1, 2

LEVEL = "proof"
EXPLANATION = (
    "Post-conditions taken from the statement of C10 are proved for the real bodies of _apply_bounds, _perturb_variables and "
    "GradientConfig.fix_perturbations, for all real values of the variables, bounds, magnitudes and samples, for every combination "
    "of finite/infinite bounds and every boundary / perturbation type. _apply_bounds executes only element-wise NumPy operations "
    "(recorded in numpy_ops_seen_per_scenario), so the per-element proof at shape (1,) carries over to every shape; the other two "
    "functions are proved per enumerated shape (bounded in shape only, symbolic in all values)."
)
ASSUMPTIONS = [
    "variables, samples and magnitudes are finite and not NaN; lower <= upper (established by configuration validation, C18)",
    "Sampler.generate_samples returns an array of shape (realizations, perturbations, variables) (interface contract; C17 for the built-in sampler)",
    "a variable transform's magnitudes_to_optimizer is an arbitrary element-wise positive scaling (interface contract)",
]


MIRROR_ROUNDS = 3  # overshoots of up to 6 bound widths are folded back by repeated reflection


# ---------------------------------------------------------------------------- specification (from the statement)
def spec_ok(T, v, lb, ub, t, out):
    """Per element: is `out` an admissible post-processing of the raw perturbed value `v`?"""
    inside = (lb <= v) & (v <= ub)
    conds = [T.implies(inside, T.same(out, v))]  # a value inside the bounds is never altered
    if t == NONE:
        conds.append(T.same(out, v))  # left untouched
    elif t == TRUNC:
        clipped = T.np.minimum(T.np.maximum(v, lb), ub)
        conds.append(T.same(out, clipped))
        conds.append((lb <= out) & (out <= ub))
    elif t == MIRROR:
        conds.append((lb <= out) & (out <= ub))
        lo_ref = 2 * lb - v
        up_ref = 2 * ub - v
        # reflected at the violated bound, whenever that single reflection lies within the bounds
        conds.append(T.implies((v < lb) & (lo_ref <= ub), T.same(out, lo_ref)))
        conds.append(T.implies((v > ub) & (up_ref >= lb), T.same(out, up_ref)))
        # larger overshoots ("of many bound widths") bounce between the bounds: reflected again and again, for overshoots of up to
        # MIRROR_ROUNDS * 2 bound widths (beyond that the value is only required to end within the bounds)
        try:
            finite = bool(T.np.isfinite(lb)) and bool(T.np.isfinite(ub))
        except Exception:  # noqa: BLE001
            finite = False
        if finite:
            w = ub - lb
            for side, d, base, sign in (("below", lb - v, lb, 1.0), ("above", v - ub, ub, -1.0)):
                for k in range(1, 2 * MIRROR_ROUNDS + 1):
                    offset = (d - (k - 1) * w) if k % 2 else (k * w - d)
                    conds.append(T.implies((w > 0) & (d > (k - 1) * w) & (d <= k * w), T.same(out, base + sign * offset)))
    return T.all(conds)


# ---------------------------------------------------------------------------- scenario 1: _apply_bounds
def cases_apply_bounds(tier):
    for t in (NONE, TRUNC, MIRROR):
        for lbk in ("fin", "-inf"):
            for ubk in ("fin", "+inf"):
                yield "t%d/%s/%s" % (t, lbk, ubk), {"types": [t], "lbk": [lbk], "ubk": [ubk]}
    # a mixed vector (broadcast/layout sanity): all three types side by side, perturbed values 2-d
    yield "mixed-2d", {"types": [NONE, TRUNC, MIRROR], "lbk": ["fin", "-inf", "fin"], "ubk": ["+inf", "fin", "fin"], "rows": 2}
    if tier == "thorough":
        # every pair of (type, bound kinds) side by side: the element-wise closure argument, checked on 2-vectors and 3-d perturbations
        combos = [(t, lbk, ubk) for t in (NONE, TRUNC, MIRROR) for lbk in ("fin", "-inf") for ubk in ("fin", "+inf")]
        for a in combos:
            for b in combos:
                yield "pair/%d%s%s-%d%s%s" % (a + b), {"types": [a[0], b[0]], "lbk": [a[1], b[1]], "ubk": [a[2], b[2]], "rows": 2}


def scn_apply_bounds(T, case):
    f = T.func("ropt.ensemble_evaluator._gradient", "_apply_bounds")
    n = len(case["types"])
    rows = case.get("rows")
    v = T.real("v", (n,) if rows is None else (rows, n))
    lb = T.real("lb", (n,), kinds=np.array(case["lbk"], dtype=object))
    ub = T.real("ub", (n,), kinds=np.array(case["ubk"], dtype=object))
    T.assume(T.all(lb <= ub))
    types = np.array(case["types"], dtype=np.ubyte)
    v0 = v.copy()
    out = f(v, lb, ub, types)
    T.prove("C10.apply_bounds.shape", out.shape == v0.shape)
    T.prove("C10.apply_bounds.argument_not_modified", T.same(v, v0))
    names = {NONE: "none_untouched", TRUNC: "truncate_is_clip", MIRROR: "mirror_reflects_within_bounds"}
    for idx in np.ndindex(*v0.shape):
        i = idx[-1]
        T.prove("C10.apply_bounds.%s" % names[case["types"][i]], spec_ok(T, v0[idx], lb[i], ub[i], case["types"][i], out[idx]))


# ---------------------------------------------------------------------------- scenario 2: _perturb_variables
class _FakeSampler:
    def __init__(self, samples, log, idx):
        self._s, self._log, self._idx = samples, log, idx

    def generate_samples(self):
        # deterministic injection (quantifier of C10): the sampler replays its stored stencil, the same array on every call
        self._log.append(self._idx)
        return self._s


def cases_perturb(tier):
    shapes = [(1, 1, 1), (2, 1, 2)] if tier == "quick" else [(1, 1, 1), (2, 1, 2), (1, 2, 3), (2, 2, 2), (3, 2, 2), (2, 3, 3)]
    for (R, P, N) in shapes:
        for types in itertools.product((NONE, TRUNC, MIRROR), repeat=min(N, 2)):
            types = list(types) + [MIRROR] * (N - len(types))
            yield "R%dP%dN%d/%s/one-sampler" % (R, P, N, "".join(map(str, types))), {"R": R, "P": P, "N": N, "types": types, "samplers": None}
        # finite / infinite bounds on either side (the bounds reach _apply_bounds only through this function)
        for lbk in ("fin", "-inf"):
            for ubk in ("fin", "+inf"):
                if (lbk, ubk) != ("fin", "fin"):
                    for t in (NONE, TRUNC, MIRROR):
                        yield "R%dP%dN%d/%d/%s/%s" % (R, P, N, t, lbk, ubk), {"R": R, "P": P, "N": N, "types": [t] * N, "samplers": None, "lbk": [lbk] * N, "ubk": [ubk] + ["fin"] * (N - 1)}
        if N >= 2:
            # two samplers on disjoint variables, listed in the order 1, 0 (first appearance decides the order)
            yield "R%dP%dN%d/two-samplers" % (R, P, N), {"R": R, "P": P, "N": N, "types": [TRUNC] * N, "samplers": [1] + [0] * (N - 1)}
    # three and four samplers in use, interleaved over more variables (every sampler's contribution is kept), pairwise different sizes
    yield "R2P1N5/three-samplers", {"R": 2, "P": 1, "N": 5, "types": [TRUNC, NONE, MIRROR, TRUNC, NONE], "samplers": [0, 1, 2, 1, 0]}
    yield "R3P2N6/four-samplers-one-unused-variable", {"R": 3, "P": 2, "N": 6, "types": [NONE] * 6, "samplers": [2, 0, -1, 3, 1, 2]}
    for (R, P, N) in ((5, 4, 6), (4, 7, 3)):
        yield "large/R%dP%dN%d/one-sampler" % (R, P, N), {"R": R, "P": P, "N": N, "types": [NONE, TRUNC, MIRROR][:N] + [TRUNC] * max(0, N - 3), "samplers": None, "__concrete_only__": True}


def scn_perturb(T, case):
    R, P, N = case["R"], case["P"], case["N"]
    f = T.func("ropt.ensemble_evaluator._gradient", "_perturb_variables")
    x = T.real("x", (N,))
    # pre-conditions lb <= x <= ub (satisfied by construction in the bounded runs)
    lb = T.real("lb", (N,), kinds=np.array(case["lbk"], dtype=object) if "lbk" in case else None, le=x)
    ub = T.real("ub", (N,), kinds=np.array(case["ubk"], dtype=object) if "ubk" in case else None, ge=x)
    mag = T.real("mag", (N,))
    nsamp = 1 if case["samplers"] is None else max(case["samplers"]) + 1
    log = []
    samples = [T.real("s%d" % k, (R, P, N)) for k in range(nsamp)]
    samplers = [_FakeSampler(samples[k].copy(), log, k) for k in range(nsamp)]
    cfg = types.SimpleNamespace(
        gradient=types.SimpleNamespace(
            samplers=None if case["samplers"] is None else np.array(case["samplers"], dtype=np.intc),
            perturbation_magnitudes=mag,
            boundary_types=np.array(case["types"], dtype=np.ubyte),
        ),
        variables=types.SimpleNamespace(lower_bounds=lb, upper_bounds=ub),
    )
    x0 = x.copy()
    out = f(cfg, x, samplers)
    T.prove("C10.perturb.shape", out.shape == (R, P, N))
    T.prove("C10.perturb.variables_not_modified", T.same(x, x0))
    # the injected samples belong to the sampler: a second evaluation with the same stencil gives the same perturbations
    T.prove("C10.perturb.injected_samples_not_modified", T.all([T.same(samplers[k]._s, samples[k]) for k in range(nsamp)]))
    del log[:]
    again = f(cfg, x, samplers)
    T.prove("C10.perturb.repeated_evaluation_with_the_same_samples_gives_the_same_perturbations", T.same(again, out))
    if case["samplers"] is not None:
        # order of first appearance in gradient.samplers, each sampler exactly once
        first = list(dict.fromkeys(int(s) for s in case["samplers"] if s >= 0))
        T.prove("C10.perturb.sampler_order_by_first_appearance", log == first)
    total = samples[0]
    for s in samples[1:]:
        total = total + s
    for r in range(R):
        for p in range(P):
            for i in range(N):
                raw = x0[i] + mag[i] * total[r, p, i]
                T.prove("C10.perturb.value_is_bounded_x_plus_mag_times_sample", spec_ok(T, raw, lb[i], ub[i], case["types"][i], out[r, p, i]))


# ---------------------------------------------------------------------------- scenario 3: fix_perturbations
class _Scale:
    def __init__(self, k):
        self.k = k

    def magnitudes_to_optimizer(self, m):
        return m * self.k


class _FakeGradient:
    def __init__(self, mags, btypes, ptypes):
        self.perturbation_magnitudes, self.boundary_types, self.perturbation_types = mags, btypes, ptypes
        self.updated = None

    def model_copy(self, update):
        self.updated = update
        return self


def cases_fix(tier):
    for N in (1, 2) + ((3,) if tier == "thorough" else ()):
        for ptypes in itertools.product((ABSOLUTE, RELATIVE), repeat=N):
            for tr in (False, True):
                for bcast in ((False, True) if N > 1 else (False,)):
                    yield "N%d/%s/%s/%s" % (N, "".join(map(str, ptypes)), "transform" if tr else "plain", "scalar-mag" if bcast else "vector-mag"), {
                        "N": N, "ptypes": list(ptypes), "transform": tr, "bcast": bcast, "infinite": False}
    yield "N1/relative/infinite-bound", {"N": 1, "ptypes": [RELATIVE], "transform": False, "bcast": False, "infinite": True}
    # more variables, relative and absolute ones interleaved (each relative variable gets ITS range times ITS fraction)
    for ptypes in ([ABSOLUTE, RELATIVE, RELATIVE, RELATIVE], [RELATIVE, ABSOLUTE, RELATIVE, ABSOLUTE, RELATIVE]):
        for tr in (False, True):
            yield "N%d/%s/%s/vector-mag" % (len(ptypes), "".join(map(str, ptypes)), "transform" if tr else "plain"), {"N": len(ptypes), "ptypes": ptypes, "transform": tr, "bcast": False, "infinite": False}
    # the built-in VariableScaler as the variable transform (its magnitudes_to_optimizer must hand back a new array: the relative
    # entries of the array passed in are kept by fix_perturbations)
    for ptypes in ([ABSOLUTE, RELATIVE], [RELATIVE, ABSOLUTE], [RELATIVE, RELATIVE]):
        yield "N2/%s/transform/built-in-variable-scaler" % "".join(map(str, ptypes)), {"N": 2, "ptypes": ptypes, "transform": True, "bcast": False, "infinite": False, "real_scaler": True}
    # a relative perturbation on a *fixed* variable with an infinite bound: must be rejected as well (or yield a finite magnitude),
    # otherwise 0 * inf puts NaN into the fixed column of every perturbed vector (C09)
    for ptypes in ([ABSOLUTE, RELATIVE], [RELATIVE, RELATIVE]):
        yield "N2/%s/infinite-bound-on-fixed-variable" % "".join(map(str, ptypes)), {"N": 2, "ptypes": ptypes, "transform": False, "bcast": False,
                                                                                  "infinite": [False, True], "mask": [True, False]}


def scn_fix(T, case):
    PFX = case.get("prefix", "C10")
    N = case["N"]
    f = T.func("ropt.config.enopt._gradient_config", "GradientConfig.fix_perturbations", also=("ropt.config.utils",))
    m = T.real("m", (1,) if case["bcast"] else (N,))
    lb = T.real("lb", (N,))
    inf = case["infinite"] if isinstance(case["infinite"], list) else [case["infinite"]] * N
    # upper = lower + a non-negative width (the pre-condition lb <= ub by construction, so that it also holds for every random draw
    # of the bounded runs, whatever the number of variables)
    width = T.real("bound_width", (N,), lo=0.0)
    ub = T.np.array([np.inf if inf[i] else lb[i] + width[i] for i in range(N)])
    ptypes = np.array(case["ptypes"], dtype=np.ubyte)
    if case["bcast"] and len(set(case["ptypes"])) > 1:
        pass
    me = _FakeGradient(m, np.array([MIRROR], dtype=np.ubyte), ptypes)
    variables = types.SimpleNamespace(initial_values=np.zeros(N), lower_bounds=lb, upper_bounds=ub, types=None,
                                      mask=None if case.get("mask") is None else np.array(case["mask"], dtype=bool))
    bad = any(f and t == RELATIVE for f, t in zip(inf, case["ptypes"]))
    k = T.real("k", (N,), lo=0.001) if case["transform"] else None
    transforms = types.SimpleNamespace(variables=_Scale(k)) if case["transform"] else None
    if case.get("real_scaler"):
        from contracts import C11

        C11._shadow(T, [C11.MV])
        scales = T.const(np.array([2.0, 0.5, 4.0][:N]))
        transforms = types.SimpleNamespace(variables=C11._scaler(T, scales, None))
        k = 1.0 / np.asarray(scales, dtype=float)  # magnitudes are divided by the scales
    try:
        f(me, variables, transforms)
    except ValueError:
        T.prove(PFX + ".fix_perturbations.rejects_only_relative_with_infinite_bounds", bad)
        return
    T.prove(PFX + ".fix_perturbations.relative_with_infinite_bounds_rejected", not bad)
    out = me.updated["perturbation_magnitudes"]
    T.prove(PFX + ".fix_perturbations.magnitudes_are_finite", T.all(T.np.isfinite(out)))
    T.prove(PFX + ".fix_perturbations.shape", tuple(out.shape) == (N,))
    for i in range(N):
        mi = m[0] if case["bcast"] else m[i]
        if case["ptypes"][i] == RELATIVE:
            T.prove(PFX + ".fix_perturbations.relative_is_fraction_of_range", T.same(out[i], (ub[i] - lb[i]) * mi))
        else:
            T.prove(PFX + ".fix_perturbations.absolute_is_configured_value", T.same(out[i], mi * k[i] if case["transform"] else mi))
    T.prove(PFX + ".fix_perturbations.boundary_types_broadcast", tuple(np.shape(me.updated["boundary_types"])) == (N,))


# the proof per element at shape (1,) is a proof for every shape iff only element-wise operations occur (checked by the driver on every run)
ALL_SHAPES_BY_ELEMENTWISE = ("apply_bounds",)

# ------------------------------------------------------------------------------------ what the plan steps hand on (shared contract)
def cases_steps(tier):
    from contracts import stepcontract

    return stepcontract.cases(tier)


def scn_steps(T, case):
    from contracts import stepcontract

    stepcontract.scenario(T, case, "C10")


# ------------------------------------------------------------------------------------ the vectors the evaluator receives
def cases_chain(tier):
    from contracts import C11

    for cid, c in C11.cases_chain_requests(tier):
        yield cid, dict(c, prefix="C10.chain")


def scn_chain(T, case):
    """'Perturbed = current + magnitude x sample, within the bounds' for the vectors the EVALUATOR receives: with a variable transform
    every row it is handed - unperturbed and perturbed, in function, gradient and combined requests - is the user-domain image of the
    optimizer-domain row (C06's request scenario with a variable transform, under this property's prefix)."""
    from contracts.C06 import scn_requests

    scn_requests(T, case)


SCENARIOS = [
    Scenario("apply_bounds", scn_apply_bounds, cases_apply_bounds, {"quick": 30, "thorough": 400}),
    Scenario("perturb_variables", scn_perturb, cases_perturb, {"quick": 10, "thorough": 100}),
    Scenario("fix_perturbations", scn_fix, cases_fix, {"quick": 10, "thorough": 100}),
    Scenario("plan_steps_hand_over", scn_steps, cases_steps, {"quick": 1, "thorough": 2}),
    Scenario("evaluator_receives_the_perturbed_vectors", scn_chain, cases_chain, {"quick": 3, "thorough": 20}),
]

MANIFEST = {
    "category": "proof",
    "text": "Deductive: the post-conditions of C10 (NONE untouched, TRUNCATE = clip, MIRROR reflected and within bounds, inside => unchanged, "
            "value = bounded(x + magnitude*sample), relative magnitude = fraction of the bound range) are discharged by z3 for the real bodies of "
            "_apply_bounds, _perturb_variables and GradientConfig.fix_perturbations, for all real values; _apply_bounds is purely element-wise so its "
            "per-element proof covers every shape, the other two are complete per enumerated shape (R,P,N <= 2..3).",
    "note": "floats as extended reals (no rounding); sampler and variable-transform interfaces assumed; shapes of _perturb_variables / fix_perturbations enumerated (bounded in shape only); termination not verified",
    "technique": "contract-based deductive verification: symbolic execution of the real source under sidecar contracts, VCs discharged by z3/cvc5; bounded run-time contract checking as stand-in",
}
