"""C07 - values handed to the optimizer match the ensemble for any request order.

Object under contract: ropt.plugins.optimizer.scipy:SciPyOptimizer with state (_cached_variables, _cached_function,
_cached_gradient, NormalizedConstraints._constraints/_gradients); operations = the callables handed to SciPy
(_function, _gradient, _fun, _jac, _constraint_functions, _constraint_gradients) and their helpers.
The quantifier over request sequences is discharged by an inductive invariant.
"""
from __future__ import annotations

import itertools
import types

import numpy as np

from roptvc.driver import Scenario

LEVEL = "proof"
MS = "ropt.plugins.optimizer.scipy"
MU = "ropt.plugins.optimizer.utils"
NO_GRADIENT = ("nelder-mead", "powell", "cobyla", "differential_evolution")
EXPLANATION = (
    "Representation invariant: a cached function / gradient / normalized-constraint entry is the value of the ensemble (an uninterpreted function F of the point, resp. its "
    "Jacobian G) at _cached_variables. For every operation (objective, gradient, constraint value k, constraint Jacobian k; dict- and object-style constraints; batched population "
    "requests) started from an ARBITRARY state satisfying the invariant (every combination of filled/empty caches at a symbolic cached point) and an arbitrary requested point "
    "(identical to the cached one, or not allclose to it - the pool of the quantifier), z3 proves: the value returned is F/G at the REQUESTED point; the invariant holds again; no "
    "callback is issued for a quantity already cached at that point; gradient-free methods never request gradients; with split_evaluations no callback asks for both; speculative "
    "does not change returned values. By induction this covers every request sequence of any length."
)
ASSUMPTIONS = [
    "the optimizer callback (EnsembleOptimizer._optimizer_callback -> EnsembleEvaluator.calculate) is a deterministic function of the point: modelled by uninterpreted functions F (values) and G (gradients)",
    "points of the request pool are identical to the cached point or not np.allclose to it (quantifier of C07)",
    "SciPy calls only the callables it is given (library contract)",
    "vectors of 2 variables, 1 non-linear and 1 linear constraint, population batches of 2 (bounded in shape only)",
]

N = 2


def _F(T, K):
    fs = [T.uf("F%d" % j, N) for j in range(1 + K)]
    gs = [[T.uf("G%d_%d" % (j, i), N) for i in range(N)] for j in range(1 + K)]
    Fvec = lambda x: T.np.array([f(x[0], x[1]) for f in fs])  # noqa: E731
    Gmat = lambda x: T.np.array([[g(x[0], x[1]) for g in row] for row in gs])  # noqa: E731
    return Fvec, Gmat


def cases_ops(tier):
    quick = tier == "quick"
    for method in ("slsqp", "nelder-mead") + (() if quick else ("cobyla", "l-bfgs-b")):
        for K, lin in ((0, False), (1, False), (0, True), (1, True)):
            if method in ("nelder-mead", "l-bfgs-b") and (K or lin):
                continue
            if method == "cobyla" and not (K or lin):
                continue
            for spec, split in itertools.product((False, True), repeat=2):
                for cached in itertools.product((False, True), repeat=3):  # variables, function, gradient
                    if not cached[0] and (cached[1] or cached[2]):
                        continue
                    # reachable part of the invariant: with speculative evaluation (gradient methods) function and gradient are always cached together
                    if spec and method not in NO_GRADIENT and cached[1] != cached[2]:
                        continue
                    for nc in ((False, True) if (K or lin) else (False,)):
                        # normalized non-linear constraints are derived from the cached function (and gradient) of the same point
                        if nc and K and cached[0] and not (cached[1] and (cached[2] or method in NO_GRADIENT)):
                            continue
                        for same in ((False, True) if cached[0] else (False,)):
                            ops = ["function", "gradient"] + (["fun", "jac"] if (K or lin) else [])
                            if method in NO_GRADIENT:
                                ops = [o for o in ops if o not in ("gradient", "jac")]
                            yield "%s/K%d%s/%s%s/cache=%s%s/%s" % (method, K, "+lin" if lin else "", "speculative" if spec else "plain", "+split" if split else "",
                                                                     "".join("1" if c else "0" for c in cached), "+nc" if nc else "", "same-point" if same else "new-point"), {
                                "method": method, "K": K, "lin": lin, "spec": spec, "split": split, "cached": list(cached), "nc": nc, "same": same, "ops": ops}
    # population method: batched requests (differential evolution, vectorized)
    for K in (0, 1):
        for cached in ((False, False), (True, True)):
            for same in ((False, True) if cached[0] else (False,)):
                for op in ("function",) + (("constraint_functions",) if K else ()):
                    for spec in (False, True):
                        yield "differential_evolution/K%d/%s/cache=%s/%s/%s" % (K, "speculative" if spec else "plain", cached, "same" if same else "new", op), {
                            "method": "differential_evolution", "K": K, "lin": False, "spec": spec, "split": False, "cached": [cached[0], cached[1], False], "nc": False,
                            "same": same, "op": op, "batch": 2}


def scn_ops(T, case):
    method, K, lin = case["method"], case["K"], case["lin"]
    if T.symbolic:
        sh = T.shadow([MS, MU])
        cls = T.under_contract(sh, MS, "SciPyOptimizer")
        for q in ("_function", "_gradient", "_fun", "_jac", "_constraint_functions", "_constraint_gradients", "_get_function_or_gradient",
                  "_invalidate_cache_if_moved", "_compute_functions_and_gradients"):
            T.under_contract(sh, MS, "SciPyOptimizer." + q)
        NC = T.under_contract(sh, MU, "NormalizedConstraints")
    else:
        cls = T.func(MS, "SciPyOptimizer")
        NC = T.func(MU, "NormalizedConstraints")
    B = case.get("batch")
    Fvec, Gmat = _F(T, K)
    calls = []

    def callback(variables, *, return_functions, return_gradients):
        calls.append((variables.copy(), return_functions, return_gradients))
        if B:
            fn = T.np.array([Fvec(variables[b]) for b in range(variables.shape[0])]) if return_functions else T.np.array([])
            return fn, T.np.array([])
        return (Fvec(variables) if return_functions else T.np.array([])), (Gmat(variables) if return_gradients else T.np.array([]))

    A = T.real("lin_coef", (1, N)) if lin else None
    nlb = ([0.5] * K) + ([0.25] if lin else [])
    nub = ([np.inf] * K) + ([0.75] if lin else [])  # non-linear: >= 0.5 ; linear: two-sided [0.25, 0.75] (non-zero bounds on purpose)
    opt = object.__new__(cls)
    # the configured method in one of its supported spellings (plug-in prefix, any case); the plug-in works with the bare lower-case name
    spelled = "scipy/" + method.title() if case["spec"] else method
    opt._config = types.SimpleNamespace(optimizer=types.SimpleNamespace(speculative=case["spec"], split_evaluations=case["split"], method=spelled),
                                        nonlinear_constraints=types.SimpleNamespace() if K else None)
    opt._method = method
    opt._parallel = bool(B)
    opt._optimizer_callback = callback
    opt._normalized_constraints = NC(np.array(nlb), np.array(nub)) if (K or lin) else None

    def raw_values(p):
        rows = ([Fvec(p)[1:]] if K else []) + ([T.np.array([T.total([A[0, i] * p[i] for i in range(N)])])] if lin else [])
        return T.np.concatenate(rows, axis=0)

    def raw_grads(p):
        rows = ([Gmat(p)[1:, :]] if K else []) + ([A] if lin else [])
        return T.np.concatenate(rows, axis=0)

    def reference(p):
        """Normalized entries from the SPECIFICATION (C08 proves NormalizedConstraints against it): per row an entry value - lower for a
        finite lower bound and upper - value for a finite upper one, Jacobian rows with the same sign - not computed by the class under
        test, so that a defect of that class cannot cancel out."""
        vals, grads = raw_values(p), raw_grads(p)
        cons, jac = [], []
        for i in range(len(nlb)):
            if np.isfinite(nlb[i]):
                cons.append([vals[i] - nlb[i]])
                jac.append([grads[i, c] for c in range(N)])
            if np.isfinite(nub[i]):
                cons.append([nub[i] - vals[i]])
                jac.append([-grads[i, c] for c in range(N)])
        return types.SimpleNamespace(constraints=T.np.array(cons), gradients=T.np.array(jac))

    # ---- arbitrary state satisfying the invariant
    c = T.real("cached_point", (N, B) if B else (N,))
    cpt = c.T if B else c  # batched points are stored transposed (population methods)
    has_cv, has_cf, has_cg = case["cached"]
    opt._cached_variables = cpt.copy() if has_cv else None
    if B:
        opt._cached_function = T.np.array([Fvec(cpt[b]) for b in range(B)]) if has_cf else None
    else:
        opt._cached_function = Fvec(c) if has_cf else None
    opt._cached_gradient = Gmat(c) if has_cg and not B else None
    if case["nc"]:
        r0 = reference(c if has_cv else T.real("ghost_point", (N,)))
        opt._normalized_constraints._constraints = r0.constraints
        opt._normalized_constraints._gradients = r0.gradients if method not in NO_GRADIENT else None
    # ---- the requested point: the cached one, or one that is not allclose to it
    if case["same"]:
        x = c.copy()
    else:
        x = T.real("x", (N, B) if B else (N,))
        if has_cv:
            T.assume(~T.np.allclose(x.T if B else x, cpt) if T.symbolic else not np.allclose(x.T if B else x, cpt))
    xpt = x.T if B else x
    op = case["op"] if "op" in case else case["ops"][T.choose(len(case["ops"]))]
    if op == "function":
        got = opt._function(x)
        want = T.np.array([Fvec(xpt[b])[0] for b in range(B)]) if B else Fvec(x)[0]
    elif op == "constraint_functions":
        got = opt._constraint_functions(x)
        want = T.np.array([Fvec(xpt[b])[1:] for b in range(B)])
    elif op == "gradient":
        got = opt._gradient(x)
        want = Gmat(x)[0, :]
    elif op == "fun":
        idx = T.choose(len(opt._normalized_constraints.is_eq))
        got = opt._fun(x, idx, A)
        want = reference(x).constraints[idx, :]
    else:
        idx = T.choose(len(opt._normalized_constraints.is_eq))
        got = opt._jac(x, idx, A)
        want = reference(x).gradients[idx, :]
    T.prove("C07.%s.value_is_the_ensemble_value_at_the_requested_point" % op, T.same(got, want))
    # ---- callbacks
    wants_f = op in ("function", "fun", "constraint_functions") and (K or op != "fun")
    cached_f = has_cf and case["same"]
    cached_g = has_cg and case["same"]
    cached_nc = case["nc"] and case["same"] and has_cv
    nf = sum(1 for _, rf, rg in calls if rf)
    ng = sum(1 for _, rf, rg in calls if rg)
    for v, rf, rg in calls:
        T.prove("C07.callback.evaluates_at_the_requested_point", T.same(v, xpt))
    if method in NO_GRADIENT:
        T.prove("C07.callback.gradient_free_methods_never_request_gradients", ng == 0)
    if case["split"]:
        T.prove("C07.callback.split_evaluations_never_ask_for_both_at_once", all(not (rf and rg) for _, rf, rg in calls))
        # ... and a gradient-only request reaches the ensemble evaluator only when the function value of this very point has been
        # evaluated before (otherwise the evaluator has to compute functions and gradients in one combined evaluation)
        known = cached_f
        for _, rf, rg in calls:
            if rg and not rf:
                T.prove("C07.callback.split_gradient_request_only_after_the_function_at_the_same_point", known)
            known = known or rf
    T.prove("C07.callback.each_quantity_evaluated_at_most_once_per_request", nf <= 1 and ng <= 1)
    if cached_f:
        T.prove("C07.callback.function_cached_at_this_point_is_not_evaluated_again", nf == 0)
    if cached_g:
        T.prove("C07.callback.gradient_cached_at_this_point_is_not_evaluated_again", ng == 0)
    if not case["spec"]:
        # without speculation only what is needed is evaluated
        need_f = (op in ("function", "constraint_functions") or (op == "fun" and K and not cached_nc)) and not cached_f
        need_g = (op == "gradient" or (op == "jac" and K and not cached_nc)) and not cached_g
        if not (case["split"] and need_g):
            T.prove("C07.callback.nothing_is_evaluated_unless_needed", nf == int(bool(need_f)) and ng == int(bool(need_g)))
    # ---- invariant re-established
    cv = opt._cached_variables
    if opt._cached_function is not None:
        wantf = T.np.array([Fvec(cv[b]) for b in range(B)]) if B else (Fvec(cv) if cv is not None else None)
        T.prove("C07.invariant.cached_function_is_the_value_at_the_cached_point", cv is not None and T.same(opt._cached_function, wantf))
    if opt._cached_gradient is not None:
        T.prove("C07.invariant.cached_gradient_is_the_gradient_at_the_cached_point", cv is not None and T.same(opt._cached_gradient, Gmat(cv)))
    nc = opt._normalized_constraints
    if nc is not None and cv is not None:
        if nc.constraints is not None:
            T.prove("C07.invariant.normalized_constraints_belong_to_the_cached_point", T.same(nc.constraints, reference(cv).constraints))
        if nc.gradients is not None:
            T.prove("C07.invariant.normalized_jacobians_belong_to_the_cached_point", T.same(nc.gradients, reference(cv).gradients))
    if nc is not None and cv is None and (nc.constraints is not None or nc.gradients is not None):
        # filled while no point is cached (linear-only constraint first): it must belong to the point just requested, and it is
        # discarded by the next request because no point is cached
        if nc.constraints is not None:
            T.prove("C07.invariant.uncached_normalized_constraints_belong_to_the_last_requested_point", T.same(nc.constraints, reference(x).constraints))
        if nc.gradients is not None:
            T.prove("C07.invariant.uncached_normalized_jacobians_belong_to_the_last_requested_point", T.same(nc.gradients, reference(x).gradients))
    if cv is not None:
        T.prove("C07.invariant.cached_point_is_the_requested_point", T.same(cv, xpt))
    if case["spec"] and method not in NO_GRADIENT:
        T.prove("C07.invariant.speculative_caches_function_and_gradient_together", (opt._cached_function is None) == (opt._cached_gradient is None))
    if nc is not None and K and cv is not None:
        T.prove("C07.invariant.normalized_constraints_only_with_cached_function", nc.constraints is None or opt._cached_function is not None)
        T.prove("C07.invariant.normalized_jacobians_only_with_cached_gradient", nc.gradients is None or opt._cached_gradient is not None)


# ------------------------------------------------------------------------------------ EnsembleEvaluator.calculate: function cache for gradient-only requests
def cases_eval_cache(tier):
    for seq in (("f", "g"), ("g",), ("f", "g-elsewhere"), ("f", "f-elsewhere", "g")):
        yield "sequence=%s" % "-".join(seq), {"seq": list(seq)}
        # with a variable transform the optimizer's point x stands for the user point s*x+o: 'the ensemble value at x' is the value
        # of the user's functions at THAT point, in every evaluation kind (functions, gradient, both at once)
        yield "sequence=%s/variable-transform" % "-".join(seq), {"seq": list(seq), "transform": True}


def scn_eval_cache(T, case):
    """The function result cached by EnsembleEvaluator is only used by a gradient request at the same point."""
    from contracts import harness as H

    R, P, Nv = 1, 1, 1
    inv = H.InvertContract(T) if T.symbolic else None
    ch = H.Chain(T, stubs={("ropt.ensemble_evaluator._gradient", "_invert_linear_equations"): inv} if T.symbolic else None)
    f = T.uf("objective", 1)
    x1, x2 = T.real("x1", (Nv,)), T.real("x2", (Nv,))
    T.assume((x2[0] - x1[0] > 0.001) | (x1[0] - x2[0] > 0.001))
    S = T.real("samples", (R, P, Nv))
    fu = f  # the user's function (of user-domain variables)
    sev = H.ScriptedEvaluator(T, ch, lambda v, r, p, k: T.np.array([fu(v[0])]))
    cfg = H.make_config(T, R, 1, 0, Nv, weights=T.const(np.array([1.0])), ow=T.const(np.array([1.0])), P=P, min_success=1, pert_min_success=1, magnitudes=T.const(np.ones(Nv)))
    transforms = None
    user = lambda t: t  # noqa: E731
    if case.get("transform"):
        sc, off = T.real("scale", (), lo=0.5, hi=2.0), T.real("offset", ())

        class _VarTr:
            def from_optimizer(self, v):
                return v * sc + off

            def __bool__(self):
                return True

        transforms = types.SimpleNamespace(variables=_VarTr(), objectives=None, nonlinear_constraints=None)
        user = lambda t: t * sc + off  # noqa: E731
        f = lambda t: fu(user(t))  # noqa: E731  (the ensemble as a function of the optimizer's point)
    ev = H.make_evaluator(T, ch, cfg, sev, samplers=[H.FakeSampler(S)], transforms=transforms)
    for step in case["seq"]:
        pt = x2 if step.endswith("elsewhere") else x1
        n0 = len(sev.calls)
        if step.startswith("f"):
            (res,) = ev.calculate(pt, compute_functions=True, compute_gradients=False)
            T.prove("C07.evaluator.function_value_is_for_the_requested_point", T.same(res.functions.weighted_objective, f(pt[0])) & T.same(res.evaluations.variables, pt))
        else:
            out = ev.calculate(pt, compute_functions=False, compute_gradients=True)
            gres = out[-1]
            T.prove("C07.evaluator.gradient_is_computed_around_the_requested_point", T.same(gres.evaluations.variables, pt))
            unpert = [c for c in sev.calls[n0:] for p in c["perturbations"] if p is None or p < 0]
            cached_here = case["seq"].index(step) > 0 and case["seq"][case["seq"].index(step) - 1] == "f" and not step.endswith("elsewhere")
            # the unperturbed function is re-evaluated unless the cached function result is for this very point
            T.prove("C07.evaluator.cached_function_reused_only_at_the_same_point", (len(unpert) == 0) == cached_here)
            # the difference quotient uses the function value AT THIS POINT
            M_, v_ = inv.calls[-1] if T.symbolic else (None, None)
            if T.symbolic:
                T.prove("C07.evaluator.gradient_differences_use_the_function_value_at_the_requested_point", T.same(v_[0], f(pt[0] + S[0, 0, 0]) - f(pt[0])))


# ------------------------------------------------------------------------------------ base case: start() begins a run with an empty cache
def cases_start(tier):
    for method in ("slsqp", "nelder-mead", "differential_evolution") + (("l-bfgs-b", "cobyla") if tier == "thorough" else ()):
        for K in (0, 1):
            if K and method in ("nelder-mead", "l-bfgs-b"):
                continue
            for mask in (None, [True, True, False]):
                for cached in ((True, True, True), (True, True, False), (False, False, False)):
                    if method in NO_GRADIENT and cached[2]:
                        continue
                    yield "%s/K%d/mask=%s/cache-left-by-the-previous-run=%s" % (method, K, mask, "".join("1" if c else "0" for c in cached)), {
                        "method": method, "K": K, "mask": mask, "cached": list(cached)}
                    if cached[0]:
                        # ... a previous run that did not return: it was ended by an exception (an abort of the driver, a failing evaluator)
                        yield "%s/K%d/mask=%s/cache-left-by-the-previous-run=%s/which-ended-by-an-exception" % (method, K, mask, "".join("1" if c else "0" for c in cached)), {
                            "method": method, "K": K, "mask": mask, "cached": list(cached), "first_run_raises": True}


class EndOfRun(Exception):
    """What ends the earlier run of the base-case scenario when it does not return (stands for an abort raised through the back-end)."""


def scn_start(T, case):
    """Base case of the induction, observed on an optimizer made by its REAL constructor: whatever an earlier run on the same object
    left behind (it asked for the objective, the gradient, the constraint at a point whose free variables coincide with the new
    starting point - the ensemble *of that run*), the first requests of the new run are answered with the values of the ensemble of
    this run."""
    from contracts import C08

    method, K = case["method"], case["K"]
    has_cv, has_cf, has_cg = case["cached"]
    handed = {}
    env = {"run": 0}

    def first_requests(kw, kind):
        # the algorithm issues its first requests WHILE start() runs (not after it returned)
        fun = kw["fun"] if kind == "minimize" else kw["func"]
        cons = kw.get("constraints") or ()
        if env["run"] == 0:
            # the earlier run: what it asks for is what it leaves behind
            if has_cf:
                fun(kw["x0"])
                if cons and isinstance(cons, (tuple, list)) and isinstance(cons[0], dict):
                    cons[0]["fun"](kw["x0"])
            if has_cg and kind == "minimize" and kw.get("jac") not in (None, False):
                kw["jac"](kw["x0"])
            if case.get("first_run_raises"):
                raise EndOfRun
            return
        handed.update(kw)
        handed["kind"] = kind
        handed["got"] = fun(kw["x0"])
        handed["calls_after_first_objective"] = list(calls)
        if cons and isinstance(cons, (tuple, list)) and isinstance(cons[0], dict):
            handed["gotc"] = cons[0]["fun"](kw["x0"])
        if kind == "minimize" and kw.get("jac") not in (None, False):
            handed["gotg"] = kw["jac"](kw["x0"])

    stubs = {(MS, "minimize"): lambda **kw: first_requests(kw, "minimize"), (MS, "differential_evolution"): lambda **kw: first_requests(kw, "de")}
    saved = None
    if not T.symbolic:
        import importlib

        real = importlib.import_module(MS)
        saved = {k[1]: getattr(real, k[1]) for k in stubs}
        for k, v in stubs.items():
            setattr(real, k[1], v)
    try:
        calls = []
        Fold, Gold = _F(T, K)
        fs = [T.uf("Fnew%d" % j, N) for j in range(1 + K)]
        gs = [[T.uf("Gnew%d_%d" % (j, i), N) for i in range(N)] for j in range(1 + K)]
        Fnew = lambda x: T.np.array([f(x[0], x[1]) for f in fs])  # noqa: E731
        Gnew = lambda x: T.np.array([[g(x[0], x[1]) for g in row] for row in gs])  # noqa: E731
        if case["mask"] is None:
            # every variable is free: the optimizer sees the whole point, so the ensemble of this run is the same function of
            # what the optimizer sees as before (only the value clauses are required then, not a fresh evaluation)
            Fnew, Gnew = Fold, Gold

        def callback(variables, *, return_functions, return_gradients):
            F, G = (Fold, Gold) if env["run"] == 0 else (Fnew, Gnew)
            if env["run"]:
                calls.append((return_functions, return_gradients))
            return (F(variables) if return_functions else T.np.array([])), (G(variables) if return_gradients else T.np.array([]))

        Nv = N if case["mask"] is None else len(case["mask"])
        opt0, cfg, (nlb, nub, llb, lub, A, vlb, vub, x0) = C08._optimizer(T, method, Nv, ["lower"] * K, [], case["mask"], None, None, stubs if T.symbolic else None,
                                                                        vb="finite" if method == "differential_evolution" else "none")
        opt = type(opt0)(cfg, callback)
        free = [i for i in range(Nv) if case["mask"] is None or case["mask"][i]]
        x0free = T.np.array([x0[i] for i in free])
        if has_cv:
            try:
                opt.start(x0)
            except EndOfRun:
                pass
        env["run"] = 1
        # the new run starts where the free variables are the same; a fixed variable (if any) has another value: another ensemble
        initial = x0 if case["mask"] is None else T.np.array([x0[i] if i in free else T.real("fixed_value_of_this_run", ()) for i in range(Nv)])
        opt.start(initial)
        T.prove("C07.start.an_algorithm_is_started", "kind" in handed)
        if "kind" not in handed:
            return
        T.prove("C07.start.starting_point_is_the_free_part_of_the_initial_values", T.same(handed["x0"], x0free))
        T.prove("C07.start.first_objective_of_a_run_is_the_value_of_this_run", T.same(handed["got"], Fnew(x0free)[0]))
        if case["mask"] is not None:
            T.prove("C07.start.first_request_of_a_run_is_evaluated", sum(1 for rf, rg in handed["calls_after_first_objective"] if rf) == 1)
        if K and method != "differential_evolution":
            T.prove("C07.start.first_constraint_value_of_a_run_is_the_value_of_this_run",
                    "gotc" in handed and T.same(T.np.array(handed["gotc"]).reshape(-1), T.np.array([Fnew(x0free)[1] - nlb[0]])))
        if method not in NO_GRADIENT:
            T.prove("C07.start.first_gradient_of_a_run_is_the_gradient_of_this_run", "gotg" in handed and T.same(handed["gotg"], Gnew(x0free)[0, :]))
    finally:
        if saved is not None:
            for k, v in saved.items():
                setattr(real, k, v)


# --------------------------------------------------------------- request histories on an optimizer made by its real constructor
def cases_histories(tier):
    quick = tier == "quick"
    ops = ("f", "g", "cf", "cj")
    seqs = [(("g", 0),), (("f", 0), ("g", 0)), (("g", 0), ("f", 0)), (("f", 0), ("g", 1), ("f", 1)), (("g", 0), ("g", 1), ("f", 1)), (("f", 0), ("f", 1), ("g", 1))]
    cseqs = [(("cj", 0), ("f", 0)), (("cf", 0), ("g", 0)), (("f", 0), ("cj", 1), ("cf", 1)), (("g", 0), ("cf", 1), ("g", 1)), (("cf", 0), ("cj", 0), ("g", 0), ("f", 0))]
    if not quick:
        pts = ((0,), (0, 0), (0, 1), (0, 0, 1), (0, 1, 1), (0, 1, 0))
        seqs = [tuple(zip(o, pt)) for pt in pts for o in itertools.product(("f", "g"), repeat=len(pt))]
        cseqs = [tuple(zip(o, pt)) for pt in pts for o in itertools.product(ops, repeat=len(pt)) if any(x in ("cf", "cj") for x in o)]
    for spec, split in ((False, False), (True, False), (False, True), (True, True)):
        for K, ss in ((0, seqs), (1, cseqs)):
            for seq in ss:
                yield "slsqp/K%d/speculative=%s/split=%s/%s" % (K, spec, split, ",".join("%s@%d" % e for e in seq)), {"method": "slsqp", "K": K, "spec": spec, "split": split, "seq": [list(e) for e in seq]}
    for seq in ((("cf", 0), ("f", 0)), (("f", 0), ("cf", 1), ("f", 1)), (("f", 0), ("f", 0), ("cf", 0))):
        yield "cobyla/K1/speculative=True/split=False/%s" % ",".join("%s@%d" % e for e in seq), {"method": "cobyla", "K": 1, "spec": True, "split": False, "seq": [list(e) for e in seq]}


def scn_histories(T, case):
    """The statement observed from outside, on an optimizer object made by its REAL constructor (whatever it keeps between requests is
    its own business): the algorithm - a scripted stand-in for scipy.optimize.minimize, called by the real start() - issues a
    sequence of objective / gradient / constraint / constraint-Jacobian requests at the starting point and at another point; every
    answer is the quantity at the requested point, every evaluation is made at the requested point, nothing is evaluated twice for
    one point, with split_evaluations no evaluation asks for both and a gradient evaluation follows the function evaluation of the
    same point (the ensemble evaluator computes the functions within a gradient evaluation at a point whose function values it does
    not have - C02's request sequences), and a method that uses no gradients never asks for any."""
    from contracts import C08

    method, K, seq = case["method"], case["K"], [tuple(e) for e in case["seq"]]
    log = {"answers": [], "ncalls": []}
    calls = []

    def fake_minimize(**kw):
        log["kw"] = kw
        cons = kw.get("constraints") or ()
        for op, pt in seq:
            p = pts[pt].copy()
            if op == "f":
                ans = kw["fun"](p)
            elif op == "g":
                ans = kw["jac"](p)
            elif op == "cf":
                ans = cons[0]["fun"](p)
            else:
                ans = cons[0]["jac"](p)
            log["answers"].append(ans)
            log["ncalls"].append(len(calls))

    stubs = {(MS, "minimize"): fake_minimize}
    saved = None
    if not T.symbolic:
        import importlib

        real = importlib.import_module(MS)
        saved = {k[1]: getattr(real, k[1]) for k in stubs}
        for k, v in stubs.items():
            setattr(real, k[1], v)
    try:
        opt0, cfg, (nlb, nub, llb, lub, A, vlb, vub, x0) = C08._optimizer(T, method, N, ["lower"] * K, [], None, None, None, stubs if T.symbolic else None, vb="none" if method != "cobyla" else "none")
        cfg.optimizer.speculative, cfg.optimizer.split_evaluations = case["spec"], case["split"]
        off = T.real("offset_of_the_other_point", (N,), lo=1.0, hi=2.0)
        T.assume(T.all(x0 <= 100.0) & T.all(x0 >= -100.0) if T.symbolic else bool(np.all(np.abs(np.asarray(x0, dtype=float)) <= 100.0)))
        pts = [x0, x0 + off]
        Fvec, Gmat = _F(T, K)

        def callback(variables, *, return_functions, return_gradients):
            calls.append((variables.copy(), return_functions, return_gradients))
            return (Fvec(variables) if return_functions else T.np.array([])), (Gmat(variables) if return_gradients else T.np.array([]))

        opt = type(opt0)(cfg, callback)
        opt.start(x0)
    finally:
        if saved is not None:
            for k, v in saved.items():
                setattr(real, k, v)
    T.prove("C07.history.the_algorithm_ran_its_requests", len(log["answers"]) == len(seq))
    if len(log["answers"]) != len(seq):
        return
    for i, (op, pt) in enumerate(seq):
        p, ans = pts[pt], log["answers"][i]
        want = {"f": lambda: Fvec(p)[0], "g": lambda: Gmat(p)[0, :], "cf": lambda: T.np.array([Fvec(p)[1] - nlb[0]]), "cj": lambda: Gmat(p)[1:2, :]}[op]()
        T.prove("C07.history.answer_is_the_quantity_at_the_requested_point[%s]" % op, T.same(T.np.array(ans).reshape(-1), T.np.array(want).reshape(-1)))
        for (v, rf, rg) in calls[(log["ncalls"][i - 1] if i else 0):log["ncalls"][i]]:
            T.prove("C07.history.every_evaluation_is_made_at_the_requested_point", T.same(v, p))
    # runs of consecutive requests at one point
    owner = []
    for i in range(len(seq)):
        owner += [i] * (log["ncalls"][i] - (log["ncalls"][i - 1] if i else 0))
    run_of = [0] * len(seq)
    for i in range(1, len(seq)):
        run_of[i] = run_of[i - 1] + (1 if seq[i][1] != seq[i - 1][1] else 0)
    for r in set(run_of):
        mine = [c for c, o in zip(calls, owner) if run_of[o] == r]
        T.prove("C07.history.nothing_is_evaluated_twice_for_one_point", sum(1 for c in mine if c[1]) <= 1 and sum(1 for c in mine if c[2]) <= 1)
    if case["split"]:
        T.prove("C07.history.split.no_evaluation_asks_for_functions_and_gradients_together", not any(c[1] and c[2] for c in calls))
        last_f = None
        ok = True
        for c, o in zip(calls, owner):
            if c[1]:
                last_f = run_of[o]
            if c[2] and last_f != run_of[o]:
                ok = False
        T.prove("C07.history.split.a_gradient_evaluation_follows_the_function_evaluation_of_the_same_point", ok)
    if method in NO_GRADIENT:
        T.prove("C07.history.gradient_free_method_never_asks_for_gradients", not any(c[2] for c in calls))
    if case["spec"] and not case["split"] and method not in NO_GRADIENT:
        T.prove("C07.history.speculative.at_most_one_evaluation_per_point", all(sum(1 for c, o in zip(calls, owner) if run_of[o] == r) <= 1 for r in set(run_of)))


# ------------------------------------------------------------------------------------ what the plan steps hand on (shared contract)
def cases_steps(tier):
    from contracts import stepcontract

    return stepcontract.cases(tier)


def scn_steps(T, case):
    from contracts import stepcontract

    stepcontract.scenario(T, case, "C07")


# ------------------------------------------------------------------------------------ population requests through the real evaluator
def cases_batch(tier):
    for B in (2,) + ((3,) if tier == "thorough" else ()):
        for R in (2, 3):
            yield "batch=%d/realizations=%d" % (B, R), {"B": B, "R": R}


def scn_batch(T, case):
    """Population (vectorized) methods: each row of a batch gets the ensemble value AT THAT ROW - every realization is evaluated
    at every row and labelled as such (the optimizer-side scenario above uses an abstract ensemble; here the real evaluator
    chain with realization-dependent functions)."""
    from contracts import harness as H

    B, R, Nv = case["B"], case["R"], 1
    ch = H.Chain(T)
    fs = [T.uf("objective_of_realization_%d" % r, 1) for r in range(R)]
    w = T.real("weights", (R,), lo=0.001)
    tot = T.total([w[r] for r in range(R)])
    cfg = H.make_config(T, R, 1, 0, Nv, weights=w / tot, ow=T.const(np.array([1.0])), min_success=R)
    sev = H.ScriptedEvaluator(T, ch, lambda v, r, p, k: T.np.array([fs[r](v[0])]))
    ev = H.make_evaluator(T, ch, cfg, sev)
    X = T.real("X", (B, Nv))
    results = ev.calculate(X, compute_functions=True, compute_gradients=False)
    T.prove("C07.batch.one_result_per_row", len(results) == B)
    for b in range(min(B, len(results))):
        want = T.total([(w[r] / tot) * fs[r](X[b, 0]) for r in range(R)])
        T.prove("C07.batch.row_value_is_the_ensemble_value_at_that_row", T.same(results[b].functions.weighted_objective, want) & T.same(results[b].evaluations.variables, X[b, :]))


# ------------------------------------------------------------------------------------ vectorized populations: the objects handed to SciPy
def cases_vectorized(tier):
    from contracts import C08

    for cid, c in C08.cases_problem(tier):
        if c.get("members"):
            yield cid, c


def scn_vectorized(T, case):
    """'Every value returned for a batch member is the ensemble value at that member', at the place where SciPy reads it: the objective
    callable and the NonlinearConstraint object built by the plug-in for vectorized differential evolution (C08's scenario of the
    passed problem, under this property's prefix)."""
    from contracts import C08
    from contracts.reuse import Renamed

    C08.scn_problem(Renamed(T, "C08.", "C07.passed_objects."), case)


# ------------------------------------------------------------------------------------ the completed point; transformed values in combined and split requests
def cases_completed(tier):
    from contracts import C09

    for cid, c in C09.cases_completed(tier):
        if c["N"] <= 3:
            yield cid, c


def scn_completed(T, case):
    """'The value returned for a point x is the ensemble value AT x': the vector that the driver sends on for a requested point (single
    or batch) is that point at the free positions and the current fixed values elsewhere - not the configured initial values
    (C09's scenario under this property's prefix)."""
    from contracts import C09
    from contracts.reuse import Renamed

    C09.scn_completed(Renamed(T, "C09.completed.", "C07.completed."), case)


def cases_transformed_requests(tier):
    from contracts import C06

    for cid, c in C06.cases_requests(tier):
        if c.get("otr"):
            yield cid, dict(c, prefix="C07.requests")


def scn_transformed_requests(T, case):
    """'Speculative changes only how many evaluations happen, never the values returned': with objective AND constraint transforms the
    values of a combined function+gradient request are those of the separate requests (C06's request scenario under this property's prefix)."""
    from contracts import C06

    C06.scn_requests(T, case)


# ------------------------------------------------------------------------------------ the evaluator's function cache, fixed variables included
def cases_cached_function_point(tier):
    from contracts import C02

    for cid, c in C02.cases_gradient(tier):
        if c.get("prior_function"):
            yield cid, c


def scn_cached_function_point(T, case):
    """'Every gradient returned for a point x is the ensemble gradient computed at that same x': a gradient-only request is combined
    with cached function values only when they were computed at the very same point - the same free AND fixed variables (a nested
    optimization moves the fixed ones between the function and the gradient request); C02's request-sequence cases under this
    property's prefix."""
    from contracts import C02
    from contracts.reuse import Renamed

    C02.scn_gradient(Renamed(T, "C02.", "C07.function_cache."), case)

SCENARIOS = [
    Scenario("optimizer_callables_from_any_state", scn_ops, cases_ops, {"quick": 3, "thorough": 20}),
    Scenario("evaluator_function_cache", scn_eval_cache, cases_eval_cache, {"quick": 5, "thorough": 30}),
    Scenario("start_begins_with_an_empty_cache", scn_start, cases_start, {"quick": 3, "thorough": 20}),
    Scenario("request_histories_on_a_constructed_optimizer", scn_histories, cases_histories, {"quick": 3, "thorough": 10}),
    Scenario("plan_steps_hand_over", scn_steps, cases_steps, {"quick": 1, "thorough": 2}),
    Scenario("population_requests_through_the_evaluator", scn_batch, cases_batch, {"quick": 3, "thorough": 20}),
    Scenario("vectorized_population_objects_passed_to_scipy", scn_vectorized, cases_vectorized, {"quick": 2, "thorough": 10}),
    Scenario("completed_points", scn_completed, cases_completed, {"quick": 3, "thorough": 20}),
    Scenario("function_transforms_in_combined_and_split_requests", scn_transformed_requests, cases_transformed_requests, {"quick": 3, "thorough": 20}),
    Scenario("cached_function_values_belong_to_the_requested_point", scn_cached_function_point, cases_cached_function_point, {"quick": 5, "thorough": 30}),
]

MANIFEST = {
    "category": "proof",
    "text": "Deductive, inductive over request sequences: from every state satisfying the cache invariant and for every requested point of the pool, each callable handed to SciPy is "
            "proved (z3; the ensemble is an uninterpreted function of the point) to return the value at the requested point, to re-establish the invariant, not to re-evaluate cached "
            "quantities, never to request gradients for gradient-free methods, never to combine functions and gradients under split_evaluations; speculative only adds evaluations. "
            "Independently of the representation of the cache: request histories (objective / gradient / constraint / Jacobian at the starting point and at another one, up to three "
            "(thorough: all of length <= 3) requests) issued by a scripted stand-in for scipy.optimize.minimize on an optimizer made by its real constructor and started by the real start().",
    "note": "base case of the induction: start() begins every run with an empty cache; the evaluator cache scenario also runs with a variable transform; ensemble evaluation abstracted by uninterpreted functions; pool condition (identical or not allclose) assumed; N=2 variables, <=1 non-linear + 1 linear constraint, batch 2; SciPy's own calling behaviour assumed",
    "technique": "contract-based deductive verification: representation invariant of the real SciPyOptimizer cache, preservation + post-conditions per operation by symbolic execution + z3/cvc5; bounded run-time contract checking as stand-in",
}
