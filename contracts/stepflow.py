"""Exception-flow / event-stream scenario shared by C14 and C15.

The real DefaultOptimizerStep / DefaultEvaluatorStep, EnsembleOptimizer, Plan and OptimizerContext code (shadowed from the
current source) is run against an *environment* with non-deterministic behaviour, every combination of which is explored
(T.choose): the optimization algorithm (issues 0..2 function requests, optionally with a gradient request), the ensemble
evaluator (returns results, returns results without functions, raises TOO_FEW_REALIZATIONS like a filter/estimator, or
raises a user exception), an observer or handler that raises a user abort at a chosen event index, max_functions.
"""
from __future__ import annotations

import types

import numpy as np

MOPT = "ropt.plugins.plan.optimizer"
MEVS = "ropt.plugins.plan.evaluator"
MO = "ropt.optimization._optimizer"
MP = "ropt.plan._plan"
MC = "ropt.plan._context"

MODS = [MOPT, MEVS, MO, MP, MC]
UNDER = [
    (MOPT, "DefaultOptimizerStep.run"), (MOPT, "DefaultOptimizerStep._run_optimizer"), (MOPT, "DefaultOptimizerStep._signal_evaluation"),
    (MOPT, "DefaultOptimizerStep._run_nested_plan"), (MOPT, "DefaultOptimizerStep.emit_event"),
    (MEVS, "DefaultEvaluatorStep.run"), (MEVS, "DefaultEvaluatorStep._run_evaluator"), (MEVS, "DefaultEvaluatorStep.emit_event"),
    (MO, "EnsembleOptimizer.__init__"), (MO, "EnsembleOptimizer.start"), (MO, "EnsembleOptimizer._optimizer_callback"), (MO, "EnsembleOptimizer._check_stopping_criteria"),
    (MO, "EnsembleOptimizer._run_evaluations"), (MO, "EnsembleOptimizer._functions_from_results"), (MO, "EnsembleOptimizer._get_completed_variables"),
    (MP, "Plan.emit_event"), (MP, "Plan.run_step"), (MP, "Plan.abort"), (MP, "Plan.set_parent"), (MP, "Plan.run_function"), (MP, "Plan.add_step"), (MP, "Plan.add_handler"),
    (MC, "OptimizerContext.call_observers"), (MC, "OptimizerContext.add_observer"),
]


class UserError(RuntimeError):
    """An exception raised by the user's evaluator (anything that is not OptimizationAborted)."""


class PlanPlugins:
    """The plug-in manager of a scenario's optimizer context: hands out, through the plug-in interface (get_plugin(...).create(...)),
    the handler and step objects the scenario has prepared - so that they reach a plan by its public add_handler / add_step and the
    plan keeps them however it likes."""

    def __init__(self, base=None):
        self.ready, self.base = {}, base

    def get_plugin(self, plugin_type, method):
        if plugin_type in ("plan_handler", "plan_step") and method in self.ready:
            obj = self.ready[method]
            return types.SimpleNamespace(create=lambda name, plan, **kw: obj)
        if self.base is not None:
            return self.base.get_plugin(plugin_type, method)
        raise KeyError((plugin_type, method))

    def is_supported(self, plugin_type, method):
        return method in self.ready or (self.base is not None and self.base.is_supported(plugin_type, method))


def _plan_globals(plan):
    f = type(plan).add_handler
    return getattr(f, "__wrapped__", f).__globals__


def _plugins_of(plan):
    pm = plan.optimizer_context.plugin_manager
    if not isinstance(pm, PlanPlugins):
        from roptvc.sym import ContractUnbound

        raise ContractUnbound("the optimizer context of the scenario has no scenario plug-in manager")
    return pm


def add_handler(plan, handler_or_recorder, name=None):
    """Registers a prepared handler - a ResultHandler object, or a Recorder (wrapped into a ResultHandler of the plan) - on the plan
    through Plan.add_handler; returns the handler object."""
    pm = _plugins_of(plan)
    obj = handler_or_recorder
    if isinstance(obj, Recorder):
        base = _plan_globals(plan)["ResultHandler"]
        rec = obj
        obj = type("RecordingHandler", (base,), {"handle_event": lambda self, event: rec(event)})(plan)
    key = name or "prepared-%d" % len(pm.ready)
    pm.ready[key] = obj
    plan.add_handler(key)
    return obj


def add_step(plan, step_or_run, name=None):
    """Registers a prepared step (a PlanStep object, or a plain function to be its run method) through Plan.add_step; returns its id."""
    pm = _plugins_of(plan)
    obj = step_or_run
    if callable(obj) and not hasattr(obj, "run"):
        base = _plan_globals(plan)["PlanStep"]
        fn = obj
        obj = type("PreparedStep", (base,), {"run": lambda self, *a, **kw: fn(*a, **kw)})(plan)
    key = name or "prepared-%d" % len(pm.ready)
    pm.ready[key] = obj
    return plan.add_step(key)


class Recorder:
    """A result handler / observer that records what it sees and may raise a user abort at a chosen delivery."""

    def __init__(self, name, log, abort_at=None):
        self.name, self.log, self.abort_at = name, log, abort_at

    def handle_event(self, event):
        self(event)

    def __call__(self, event):
        from ropt.enums import OptimizerExitCode
        from ropt.exceptions import OptimizationAborted

        idx = sum(1 for n, _ in self.log if n == self.name)
        self.log.append((self.name, event))
        if self.abort_at is not None and idx == self.abort_at:
            raise OptimizationAborted(exit_code=OptimizerExitCode.USER_ABORT)


def build(T, kind, outcomes, n_requests, max_functions, abort_who, abort_at, nested=None, transforms=None, with_gradient=False, batch=None):
    """Returns (plan, step_id, log, env)."""
    from ropt.enums import EventType
    from ropt.results import FunctionResults, GradientResults

    env = types.SimpleNamespace(calc_calls=0, evaluated=[], function_results_delivered=0)

    class FakeEvaluator:  # stands for EnsembleEvaluator: contract of calculate per `outcomes`
        def __init__(self, config, transforms_, evaluator, plugin_manager):
            pass

        def calculate(self, variables, *, compute_functions, compute_gradients):
            from ropt.enums import OptimizerExitCode
            from ropt.exceptions import OptimizationAborted

            i = env.calc_calls
            env.calc_calls += 1
            out = outcomes[min(i, len(outcomes) - 1)]
            if out == "filter-abort":
                raise OptimizationAborted(exit_code=OptimizerExitCode.TOO_FEW_REALIZATIONS)
            if out == "evaluator-abort":
                raise OptimizationAborted(exit_code=OptimizerExitCode.USER_ABORT)
            if out == "user-error":
                raise UserError("boom")
            res = []
            real = types.SimpleNamespace(failed_realizations=np.array([out in ("too-few", "all-failed")]))
            if isinstance(out, (list, tuple)):
                real = types.SimpleNamespace(failed_realizations=np.array([False]))
            if compute_functions:
                for row in range(1 if np.ndim(variables) == 1 else np.shape(variables)[0]):
                    o_row = out if not isinstance(out, (list, tuple)) else out[row]
                    fr = FunctionResults(batch_id=None, metadata={}, evaluations=types.SimpleNamespace(variables=np.asarray(variables)), realizations=real,
                                         functions=None if o_row == "too-few" else types.SimpleNamespace(weighted_objective=np.array(1.0), constraints=None), constraint_info=None)
                    res.append(fr)
                    if o_row != "too-few":
                        env.function_results_delivered += 1
            if compute_gradients:
                if out == "gradient-all-failed":
                    # the function values are fine; every realization failed in the perturbed evaluations only
                    real = types.SimpleNamespace(failed_realizations=np.array([True]))
                res.append(GradientResults(batch_id=None, metadata={}, evaluations=None, realizations=real,
                                           gradients=None if out == "too-few" else types.SimpleNamespace(weighted_objective=np.zeros(1), constraints=None)))
            env.evaluated.append(out)
            return tuple(res)

    class ScriptedAlgorithm:  # stands for the optimizer plug-in (SciPy): calls the callback, propagates its exceptions unchanged
        allow_nan = False
        is_parallel = bool(batch)

        def __init__(self, config, callback):
            self.callback = callback
            env.optimizer = getattr(callback, "__self__", None)

        def start(self, variables):
            for k in range(n_requests):
                v = np.asarray(variables) if not batch else np.repeat(np.asarray(variables)[np.newaxis, :], batch, axis=0)
                self.callback(v, return_functions=True, return_gradients=with_gradient and k == 0 and not batch)

    class FakePluginManager:
        def get_plugin(self, plugin_type, method):
            if plugin_type == "optimizer":
                return types.SimpleNamespace(create=lambda config, callback: ScriptedAlgorithm(config, callback))
            raise KeyError(plugin_type)

    cfg = types.SimpleNamespace(
        variables=types.SimpleNamespace(initial_values=np.zeros(1), mask=None),
        optimizer=types.SimpleNamespace(method="x", max_functions=max_functions, output_dir=None, stdout=None, stderr=None),
        realizations=types.SimpleNamespace(realization_min_success=0 if {"all-failed", "gradient-all-failed"} & {o for o in outcomes if isinstance(o, str)} else 1),
    )
    validate = types.SimpleNamespace(model_validate=lambda config, context=None: cfg)
    stubs = {(MOPT, "EnOptConfig"): validate, (MEVS, "EnOptConfig"): validate, (MOPT, "EnsembleEvaluator"): FakeEvaluator, (MEVS, "EnsembleEvaluator"): FakeEvaluator}
    if T.symbolic:
        sh = T.shadow(MODS, stubs)
        for m, q in UNDER:
            T.under_contract(sh, m, q)
        get = sh.get
        restore = None
    else:
        import importlib

        mods = {m: importlib.import_module(m) for m in MODS}
        restore = [(mods[k[0]], k[1], getattr(mods[k[0]], k[1])) for k in stubs]
        for k, v in stubs.items():
            setattr(mods[k[0]], k[1], v)

        def get(m, q):
            obj = mods[m]
            for part in q.split("."):
                obj = getattr(obj, part)
            return obj

    log = []
    ctx_cls, plan_cls = get(MC, "OptimizerContext"), get(MP, "Plan")
    step_cls = get(MOPT, "DefaultOptimizerStep") if kind == "optimizer" else get(MEVS, "DefaultEvaluatorStep")
    octx = ctx_cls(evaluator=lambda *a: None, plugin_manager=PlanPlugins(FakePluginManager()))
    for et in EventType:
        octx.add_observer(et, Recorder("observer1", log, abort_at if abort_who == "observer1" else None))
        octx.add_observer(et, Recorder("observer2", log, abort_at if abort_who == "observer2" else None))
    plan = plan_cls(octx)
    h1 = Recorder("handler1", log, abort_at if abort_who == "handler1" else None)
    h2 = Recorder("handler2", log)
    add_handler(plan, h1)
    add_handler(plan, h2)
    step = step_cls(plan)
    step_id = add_step(plan, step)
    env.restore = restore
    env.cfg = cfg
    return plan, step_id, log, env, step


def restore(env):
    if env.restore:
        for mod, name, val in env.restore:
            setattr(mod, name, val)


# ----------------------------------------------------------------------------------------- executable reading of the documented behaviour
def expected(kind, outcomes, n_requests, max_functions, abort_at, batch=None, nested_abort=None, nested_none=None):
    """Returns (exit_code_name | 'propagates', [event names], aborted, function_evaluations, results_delivered_flags).
    abort_at: index of the emitted event at which some receiver raises a user abort (None: never)."""
    ev, state = [], {"aborted": False}

    def emit(name):
        ev.append(name)
        if abort_at is not None and len(ev) - 1 == abort_at:
            state["aborted"] = True
            return True
        return False

    S, F = ("START_OPTIMIZER_STEP", "FINISHED_OPTIMIZER_STEP") if kind == "optimizer" else ("START_EVALUATOR_STEP", "FINISHED_EVALUATOR_STEP")
    code, nfun, delivered = None, 0, []
    if emit(S):
        code = "USER_ABORT"
    reqs = n_requests if kind == "optimizer" else 1
    k = 0
    while code is None and k < reqs:
        if kind == "optimizer" and max_functions is not None and nfun >= max_functions:
            code = "MAX_FUNCTIONS_REACHED"
            break
        if nested_abort is not None and k == nested_abort:
            # the nested (inner) optimization run for this request was aborted by the user: the outer step stops before evaluating
            code = "USER_ABORT"
            state["aborted"] = True
            break
        if nested_none is not None and k == nested_none:
            # the nested optimization ended without a result (nothing feasible tracked) and was not aborted: the documented code for
            # that is NESTED_OPTIMIZER_FAILED ('a nested optimization fails to find an optimal value'); the outer step stops before evaluating
            code = "NESTED_OPTIMIZER_FAILED"
            break
        if emit("START_EVALUATION"):
            code = "USER_ABORT"
            break
        out = outcomes[min(k, len(outcomes) - 1)]
        if out == "filter-abort":
            code = "TOO_FEW_REALIZATIONS"
            break
        if out == "evaluator-abort":
            code = "USER_ABORT"
            state["aborted"] = True
            break
        if out == "user-error":
            return "propagates", ev, state["aborted"], nfun, delivered
        delivered.append(out)
        if emit("FINISHED_EVALUATION"):
            code = "USER_ABORT"
            break
        if out == "too-few" or (isinstance(out, (list, tuple)) and "too-few" in out):
            code = "TOO_FEW_REALIZATIONS"
            break
        if out in ("all-failed", "gradient-all-failed") and kind == "optimizer":
            # every realization failed although realization_min_success < 1 lets the evaluation through: an algorithm that cannot
            # handle NaN stops with TOO_FEW_REALIZATIONS - after the results have been delivered
            code = "TOO_FEW_REALIZATIONS"
            break
        nfun += batch or 1
        k += 1
    if code is None:
        code = "OPTIMIZER_STEP_FINISHED" if kind == "optimizer" else "EVALUATION_STEP_FINISHED"
    if emit(F):
        code = "USER_ABORT"
    return code, ev, state["aborted"], nfun, delivered


OUTCOMES = ("ok", "too-few", "all-failed", "filter-abort", "evaluator-abort", "user-error")
RECEIVERS = ("handler1", "handler2", "observer1", "observer2")


def cases(tier):
    for kind in ("optimizer", "evaluator"):
        nreq = (1, 2) if kind == "optimizer" else (1,)
        for n in nreq:
            for o1 in OUTCOMES:
                for o2 in (OUTCOMES if (n == 2 and o1 == "ok") else ("ok",)):
                    for mf in ((None, 1) if kind == "optimizer" else (None,)):
                        yield "%s/requests=%d/%s,%s/max_functions=%s" % (kind, n, o1, o2, mf), {"kind": kind, "n": n, "outcomes": [o1, o2], "mf": mf}
    if tier == "thorough":
        # three requests: the third evaluation ends in every way; a failing second evaluation stops the run before the third
        for mf in (None, 1, 2, 3):
            for o3 in OUTCOMES:
                yield "optimizer/requests=3/ok,ok,%s/max_functions=%s" % (o3, mf), {"kind": "optimizer", "n": 3, "outcomes": ["ok", "ok", o3], "mf": mf}
            for o2 in OUTCOMES[1:]:
                yield "optimizer/requests=3/ok,%s,ok/max_functions=%s" % (o2, mf), {"kind": "optimizer", "n": 3, "outcomes": ["ok", o2, "ok"], "mf": mf}
        for mf in (None, 3, 5, 6):
            for o3 in ("ok", "too-few", "filter-abort"):
                yield "optimizer/batch=3/requests=3/ok,ok,%s/max_functions=%s" % (o3, mf), {"kind": "optimizer", "n": 3, "outcomes": ["ok", "ok", o3], "mf": mf, "batch": 3}
        for na in (None, 0, 1, 2):
            yield "optimizer/nested/requests=3/inner-abort-at=%s" % na, {"kind": "optimizer", "n": 3, "outcomes": ["ok", "ok", "ok"], "mf": None, "nested": True, "nested_abort": na}
    # threshold 0 and an algorithm that cannot take NaN: all realizations failing in the GRADIENT result only (the function values of
    # that evaluation are fine) ends the run as well - after the results have been delivered
    for mf in (None, 1):
        yield "optimizer/requests=1/gradient-all-failed,ok/max_functions=%s" % mf, {"kind": "optimizer", "n": 1, "outcomes": ["gradient-all-failed", "ok"], "mf": mf}
    yield "optimizer/requests=2/gradient-all-failed,ok/max_functions=None", {"kind": "optimizer", "n": 2, "outcomes": ["gradient-all-failed", "ok"], "mf": None}
    # evaluator step on a batch of vectors: too few realizations for ANY vector must be reported
    for vec in (("ok", "ok"), ("ok", "too-few"), ("too-few", "ok"), ("too-few", "too-few")):
        yield "evaluator/vectors=%s" % ",".join(vec), {"kind": "evaluator", "n": 1, "outcomes": [list(vec), "ok"], "mf": None, "vectors": 2}
    # nested optimization: the inner plan reports a user abort at request 0 or 1 (or never)
    for n in (1, 2):
        for na in (None, 0, 1):
            if na is not None and na >= n:
                continue
            yield "optimizer/nested/requests=%d/inner-abort-at=%s" % (n, na), {"kind": "optimizer", "n": n, "outcomes": ["ok", "ok"], "mf": None, "nested": True, "nested_abort": na}
    # ... or ends without a result (its tracker holds nothing: every inner evaluation failed, or it was aborted before the first result)
    for n in (1, 2):
        for k in range(n):
            yield "optimizer/nested/requests=%d/inner-returns-no-result-at=%d" % (n, k), {"kind": "optimizer", "n": n, "outcomes": ["ok", "ok"], "mf": None, "nested": True, "nested_abort": None, "nested_none": k}
            yield "optimizer/nested/requests=%d/inner-aborted-without-a-result-at=%d" % (n, k), {"kind": "optimizer", "n": n, "outcomes": ["ok", "ok"], "mf": None, "nested": True, "nested_abort": k, "nested_none": k}
    # population methods: batches of 3 vectors per request (the budget may be exceeded by at most one batch)
    for n in (1, 2):
        for mf in (None, 1, 2, 4):
            for o2 in ("ok", "too-few"):
                yield "optimizer/batch=3/requests=%d/ok,%s/max_functions=%s" % (n, o2, mf), {"kind": "optimizer", "n": n, "outcomes": ["ok", o2], "mf": mf, "batch": 3}


def run_case(T, case, clauses):
    """clauses: 'exit' (C14) and/or 'events' (C15)."""
    from ropt.exceptions import OptimizationAborted, PlanAborted

    kind = case["kind"]
    # which receiver aborts, and at which emitted event
    who = ("handler1", "observer1", "observer2")[T.choose(3)]
    # emitted events: start/finish of the step and of each evaluation; one more choice stands for "never"
    abort_at = T.choose(2 * (case["n"] if kind == "optimizer" else 1) + 3)
    grad = bool(T.choose(2)) if kind == "optimizer" else False
    if "gradient-all-failed" in [o for o in case["outcomes"] if isinstance(o, str)]:
        grad = True  # (the first request asks for the gradient too: the outcome concerns the gradient result of that evaluation)
    batch = case.get("batch")
    plan, step_id, log, env, step = build(T, kind, case["outcomes"], case["n"], case["mf"], who, abort_at, with_gradient=grad, batch=batch)
    extra = {}
    if case.get("nested"):
        from ropt.results import FunctionResults

        class Inner:  # the inner plan, by contract: runs its function, may end up aborted
            def __init__(self):
                self.aborted, self.calls, self.parent = False, 0, None

            def set_parent(self, p):
                self.parent = p

            def run_function(self, variables):
                i = self.calls
                self.calls += 1
                if case.get("nested_abort") is not None and i == case["nested_abort"]:
                    self.aborted = True
                if case.get("nested_none") is not None and i == case["nested_none"]:
                    return None
                return FunctionResults(batch_id=None, metadata={}, evaluations=types.SimpleNamespace(variables=np.asarray(variables)), realizations=None, functions=None)

        extra["nested_optimization"] = Inner()
    try:
        try:
            rc = plan.run_step(step_id, config={}, **extra, **({"variables": np.zeros((case["vectors"], 1))} if case.get("vectors") else {}))
            outcome = rc.name
        except UserError:
            outcome = "propagates"
        except OptimizationAborted:
            outcome = "escaped-abort"
        except (UnboundLocalError, AssertionError, ZeroDivisionError, AttributeError, TypeError) as exc:
            outcome = "internal:" + type(exc).__name__
        names_h1 = [e.event_type.name for n, e in log if n == "handler1"]
        want_code, want_events, want_aborted, want_nfun, want_delivered = expected(kind, case["outcomes"], case["n"], case["mf"], abort_at, batch, case.get("nested_abort"), case.get("nested_none"))
        if "exit" in clauses:
            T.prove("C14.step_ends_with_the_documented_exit_code", outcome == want_code, "got %s, expected %s; events %s" % (outcome, want_code, names_h1))
            T.prove("C14.no_internal_exception_escapes", not outcome.startswith("internal") and outcome != "escaped-abort", outcome)
            T.prove("C14.evaluator_exception_is_never_swallowed", (outcome == "propagates") == (want_code == "propagates"))
            nfun = env.function_results_delivered
            if case["mf"] is not None:
                T.prove("C14.function_evaluations_never_exceed_max_functions_by_more_than_a_batch", nfun <= case["mf"] + ((batch or 1) - 1))
            if kind == "optimizer" and getattr(env, "optimizer", None) is not None and want_code != "propagates":
                T.prove("C14.completed_function_counter_counts_delivered_function_results", env.optimizer._completed_functions == want_nfun, "counter %s" % env.optimizer._completed_functions)
            # results of a failing evaluation are still delivered to the handlers
            fin = [e for n, e in log if n == "handler1" and e.event_type.name == "FINISHED_EVALUATION"]
            T.prove("C14.results_of_every_completed_evaluation_are_delivered", len(fin) == len(want_delivered) and all("results" in e.data and len(e.data["results"]) >= 1 for e in fin))
            if want_code != "propagates":
                got_flags = [[r.functions is None for r in e.data["results"] if hasattr(r, "functions")] for e in fin]
                T.prove("C14.failing_evaluation_results_are_delivered_before_the_abort",
                        [g[: len(o)] if isinstance(o, (list, tuple)) else g[:1] for g, o in zip(got_flags, want_delivered)] == [[x == "too-few" for x in o] if isinstance(o, (list, tuple)) else [o == "too-few"] for o in want_delivered])
        if "events" in clauses:
            if want_code != "propagates":
                T.prove("C15.event_stream_is_well_bracketed", names_h1 == want_events, "got %s expected %s" % (names_h1, want_events))
                T.prove("C15.abort_latches_the_plan", plan.aborted == want_aborted)
                T.prove("C15.abort_is_reported_as_user_abort", (outcome == "USER_ABORT") == want_aborted or not want_aborted and outcome != "USER_ABORT")
                if want_aborted:
                    try:
                        plan.run_step(step_id, config={})
                        refused = False
                    except PlanAborted:
                        refused = True
                    T.prove("C15.further_steps_refuse_to_run_after_an_abort", refused)
            # delivery: each emitted event reaches handler1, handler2, observer1, observer2 in this order, each once,
            # up to and including a receiver that raised
            emitted = [e for n, e in log if n == "handler1"]
            ok = True
            for idx, e in enumerate(emitted):
                got = [n for n, e2 in log if e2 is e]
                raised_here = idx == abort_at
                full = list(RECEIVERS)
                want = full[: full.index(who) + 1] if raised_here else full
                ok = ok and got == want
            T.prove("C15.every_event_delivered_once_to_handlers_then_observers", ok)
    finally:
        restore(env)
