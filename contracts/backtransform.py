"""Shared scenario: the results handed to the user are the optimizer-domain results mapped back field by field.

Several properties (C01 function values, C02 gradients, C06 per-realization values, C09 variables of failed results, C11
'what the user sees', C13 constraint differences) are stated about USER-domain results.  The optimizer-domain quantities are
proved by the property's own scenarios; the last step - `Results.transform_from_optimizer(transforms)` and the
`transform_from_optimizer` of every results field (src/ropt/results/*) - is this contract, discharged on the real code for every
combination of present transforms {variables, objectives, non-linear constraints}:

    field                          user-domain image
    evaluations.variables          V(variables)                (V = transforms.variables.from_optimizer, else identity)
    evaluations.perturbed_variables V(perturbed_variables)
    evaluations.[perturbed_]objectives  O(values)              (O = transforms.objectives.from_optimizer)
    evaluations.[perturbed_]constraints C(values)              (C = transforms.nonlinear_constraints.from_optimizer)
    functions.objectives / constraints / weighted_objective    O / C / W (W = weighted_objective_from_optimizer)
    gradients.objectives[j, :] / constraints[k, :] / weighted_objective   the same maps applied along the function axis
    realizations, batch_id, metadata, evaluation_info          unchanged
    constraint_info                its own transform_from_optimizer (C13), whenever present - whatever transforms are configured
    functions / gradients None     stay None, everything else is still mapped

The transforms are abstract (interface contracts: element-wise positive scalings with symbolic factors, variables also an offset).
"""
from __future__ import annotations

import itertools
import types

import numpy as np

MODS = ["ropt.results._utils", "ropt.results._result_field", "ropt.results._constraint_info", "ropt.results._function_evaluations", "ropt.results._gradient_evaluations",
        "ropt.results._functions", "ropt.results._gradients", "ropt.results._realizations", "ropt.results._results", "ropt.results._function_results",
        "ropt.results._gradient_results"]
UNDER = [("ropt.results._function_results", "FunctionResults.transform_from_optimizer"), ("ropt.results._gradient_results", "GradientResults.transform_from_optimizer"),
         ("ropt.results._functions", "Functions.transform_from_optimizer"), ("ropt.results._gradients", "Gradients.transform_from_optimizer"),
         ("ropt.results._function_evaluations", "FunctionEvaluations.transform_from_optimizer"), ("ropt.results._gradient_evaluations", "GradientEvaluations.transform_from_optimizer"),
         ("ropt.results._constraint_info", "ConstraintInfo.transform_from_optimizer")]
R, P, N, J, K = 2, 2, 2, 2, 2


def cases(tier):
    for var, obj, nl in itertools.product((False, True), repeat=3):
        for missing in (False, True):
            if missing and tier == "quick" and not (var and not obj):
                continue
            yield "variables=%s/objectives=%s/constraints=%s%s" % (var, obj, nl, "/functions-and-gradients-missing" if missing else ""), {
                "var": var, "obj": obj, "nl": nl, "missing": missing}


class _Var:
    def __init__(self, T):
        self.s, self.o = T.real("variable_scales", (N,), lo=0.01, hi=100.0), T.real("variable_offsets", (N,))

    def from_optimizer(self, v):
        return v * self.s + self.o

    def bound_constraint_diffs_from_optimizer(self, lo, up):
        return lo * self.s, up * self.s

    def linear_constraints_diffs_from_optimizer(self, lo, up):
        return lo, up


class _Obj:
    def __init__(self, T):
        self.s, self.w = T.real("objective_scales", (J,), lo=0.01, hi=100.0), T.real("weighted_objective_scale", (), lo=0.01, hi=100.0)

    def from_optimizer(self, v):
        return v * self.s

    def weighted_objective_from_optimizer(self, w):
        return w * self.w


class _Nl:
    def __init__(self, T):
        self.s = T.real("constraint_scales", (K,), lo=0.01, hi=100.0)

    def from_optimizer(self, v):
        return v * self.s

    def nonlinear_constraint_diffs_from_optimizer(self, lo, up):
        return lo * self.s, up * self.s


def scenario(T, case, prefix):
    if T.symbolic:
        sh = T.shadow(MODS)
        for m, q in UNDER:
            T.under_contract(sh, m, q)
        get = sh.get
    else:
        get = T.func
    FR, GR = get("ropt.results._function_results", "FunctionResults"), get("ropt.results._gradient_results", "GradientResults")
    FE, GE = get("ropt.results._function_evaluations", "FunctionEvaluations"), get("ropt.results._gradient_evaluations", "GradientEvaluations")
    FU, GRD = get("ropt.results._functions", "Functions"), get("ropt.results._gradients", "Gradients")
    RE, CI = get("ropt.results._realizations", "Realizations"), get("ropt.results._constraint_info", "ConstraintInfo")
    tr = types.SimpleNamespace(variables=_Var(T) if case["var"] else None, objectives=_Obj(T) if case["obj"] else None, nonlinear_constraints=_Nl(T) if case["nl"] else None)
    V = (lambda a: a * tr.variables.s + tr.variables.o) if case["var"] else (lambda a: a)
    O = (lambda a: a * tr.objectives.s) if case["obj"] else (lambda a: a)
    C = (lambda a: a * tr.nonlinear_constraints.s) if case["nl"] else (lambda a: a)
    W = (lambda a: a * tr.objectives.w) if case["obj"] else (lambda a: a)
    x = T.real("x", (N,))
    eo, ec = T.real("evaluated_objectives", (R, J)), T.real("evaluated_constraints", (R, K))
    info = {"id": np.arange(R)}
    real = RE(failed_realizations=np.zeros(R, dtype=bool), objective_weights=None, constraint_weights=None)
    fo, fc, fw = T.real("objectives", (J,)), T.real("constraints", (K,)), T.np.array(T.real("weighted_objective", ()))
    nl_lo, nl_up = T.real("nonlinear_lower", (K,)), T.real("nonlinear_upper", (K,))
    cinfo = CI(nonlinear_lower=nl_lo, nonlinear_upper=nl_up)
    fres = FR(batch_id=7, metadata={"tag": "m"}, evaluations=FE.create(variables=x, objectives=eo, constraints=ec, evaluation_info=info), realizations=real,
              functions=None if case["missing"] else FU.create(weighted_objective=fw, objectives=fo, constraints=fc), constraint_info=cinfo)
    px, po, pc = T.real("perturbed_variables", (R, P, N)), T.real("perturbed_objectives", (R, P, J)), T.real("perturbed_constraints", (R, P, K))
    go, gc, gw = T.real("objective_gradients", (J, N)), T.real("constraint_gradients", (K, N)), T.real("weighted_objective_gradient", (N,))
    gres = GR(batch_id=7, metadata={"tag": "m"}, evaluations=GE.create(variables=x, perturbed_variables=px, perturbed_objectives=po, perturbed_constraints=pc, evaluation_info=info),
              realizations=real, gradients=None if case["missing"] else GRD.create(weighted_objective=gw, objectives=go, constraints=gc))
    uf, ug = fres.transform_from_optimizer(tr), gres.transform_from_optimizer(tr)
    eq = (lambda a, b: T.same(a, b)) if T.symbolic else (lambda a, b: T.close(a, b, 1e-9))
    # ---- function results
    T.prove(prefix + ".user_results.function_evaluations_are_mapped_field_by_field",
            eq(uf.evaluations.variables, V(x)) & eq(uf.evaluations.objectives, O(eo)) & eq(uf.evaluations.constraints, C(ec)))
    T.prove(prefix + ".user_results.bookkeeping_fields_are_kept", uf.batch_id == 7 and uf.metadata == {"tag": "m"} and ug.batch_id == 7 and ug.metadata == {"tag": "m"}
            and list(uf.evaluations.evaluation_info) == ["id"] and bool(np.all(np.asarray(uf.evaluations.evaluation_info["id"]) == np.arange(R)))
            and bool(np.all(np.asarray(uf.realizations.failed_realizations) == np.zeros(R, dtype=bool))))
    if case["missing"]:
        T.prove(prefix + ".user_results.missing_functions_and_gradients_stay_missing_everything_else_is_still_mapped", uf.functions is None and ug.gradients is None)
    else:
        T.prove(prefix + ".user_results.function_values_are_mapped_field_by_field",
                eq(uf.functions.objectives, O(fo)) & eq(uf.functions.constraints, C(fc)) & eq(uf.functions.weighted_objective, W(fw)))
    # the constraint info is mapped by its own contract (C13) whenever it is present, whatever transforms are configured
    T.prove(prefix + ".user_results.constraint_info_is_mapped_whenever_present", uf.constraint_info is not None and eq(uf.constraint_info.nonlinear_lower, C(nl_lo)) & eq(uf.constraint_info.nonlinear_upper, C(nl_up)))
    # ---- gradient results
    T.prove(prefix + ".user_results.gradient_evaluations_are_mapped_field_by_field",
            eq(ug.evaluations.variables, V(x)) & eq(ug.evaluations.perturbed_variables, V(px)) & eq(ug.evaluations.perturbed_objectives, O(po)) & eq(ug.evaluations.perturbed_constraints, C(pc)))
    if not case["missing"]:
        so = tr.objectives.s if case["obj"] else None
        sc = tr.nonlinear_constraints.s if case["nl"] else None
        want_go = T.np.array([[go[j, i] * so[j] if case["obj"] else go[j, i] for i in range(N)] for j in range(J)])
        want_gc = T.np.array([[gc[k, i] * sc[k] if case["nl"] else gc[k, i] for i in range(N)] for k in range(K)])
        T.prove(prefix + ".user_results.gradients_are_mapped_along_the_function_axis", eq(ug.gradients.objectives, want_go) & eq(ug.gradients.constraints, want_gc) & eq(ug.gradients.weighted_objective, W(gw)))
