"""C18 - validated configurations are canonical, frozen and stable under re-validation.

Functions under contract: ropt.config.utils:normalize / immutable_array / broadcast_arrays / broadcast_1d_array /
check_enum_values; the mode="after" validators of VariablesConfig, GradientConfig (+ fix_perturbations),
LinearConstraintsConfig (+ apply_transformation), NonlinearConstraintsConfig, RealizationsConfig,
ObjectiveFunctionsConfig, OptimizerConfig, EnOptConfig.  pydantic's orchestration is a library contract.
"""
from __future__ import annotations

import itertools
import types

import numpy as np

from roptvc.driver import Scenario

LEVEL = "other"
MU = "ropt.config.utils"
CFG = "ropt.config.enopt."
EXPLANATION = (
    "(1) Function level, deductive: normalize (result >= 0, ratios preserved, sum exactly 1, ValueError iff the sum is below eps), immutable_array / broadcast_1d_array / "
    "broadcast_arrays (full length, values preserved, read-only, fresh), check_enum_values. (2) Validator level, deductive with a typestate model of ImmutableBaseModel: the real body "
    "of every mode='after' validator (extracted from the pydantic decorator) is run on a record with symbolic arrays; post-conditions: canonical values (normalised weights, clamped "
    "thresholds, broadcast arrays, lower > upper rejected, wrong shapes rejected), every array stored on the object read-only, the object immutable on exit, no assignment while "
    "immutable; fix_perturbations / apply_transformation results read-only and stable when applied twice without a transform. (3) Bounded, native: real EnOptConfig.model_validate on "
    "generated configuration dictionaries, then every reachable attribute and array is attacked (assignment, in-place write) and the dumped dictionary / JSON form is re-validated "
    "and compared."
)
ASSUMPTIONS = [
    "pydantic runs BeforeValidators on fields, then the mode='after' validators in definition order, the wrap validator around them; model_copy(update=) stores objects unvalidated; frozen=True models reject assignment (library contract; exercised natively by the bounded scenario)",
    "ImmutableBaseModel is modelled by its typestate (_mutable/_immutable/guarded __setattr__); the real class is exercised natively",
    "idempotence is stated for re-validation without a transform context (a validated configuration is already in optimizer coordinates)",
    "array lengths <= 3 in the symbolic scenarios",
]


class Model:
    """Typestate model of ImmutableBaseModel."""

    def __init__(self, **fields):
        object.__setattr__(self, "_is_immutable", False)
        object.__setattr__(self, "_log", [])
        for k, v in fields.items():
            object.__setattr__(self, k, v)

    def _immutable(self):
        object.__setattr__(self, "_is_immutable", True)

    def _mutable(self):
        object.__setattr__(self, "_is_immutable", False)

    def __setattr__(self, name, value):
        if name != "_is_immutable" and self._is_immutable:
            raise AttributeError("%s is immutable" % type(self).__name__)
        object.__setattr__(self, name, value)

    def arrays(self):
        return {k: v for k, v in vars(self).items() if isinstance(v, np.ndarray)}

    __harness_standin__ = True

    def _bind(self, cls):
        """The class whose validators run on this stand-in: helper methods the validators call on `self` are the class's own."""
        object.__setattr__(self, "_bound_class", cls)

    def __getattr__(self, name):
        cls = self.__dict__.get("_bound_class")
        if cls is not None and not name.startswith("__"):
            for klass in getattr(cls, "__mro__", ()):
                if name in vars(klass):
                    attr = vars(klass)[name]
                    if isinstance(attr, staticmethod):
                        return attr.__func__
                    if isinstance(attr, classmethod):
                        return types.MethodType(attr.__func__, cls)
                    if isinstance(attr, types.FunctionType):
                        return types.MethodType(attr, self)
                    break
        raise AttributeError("%s stand-in has no attribute %r" % (type(self).__name__, name), name=name, obj=self)


def raw(cls, name):
    """The function behind a pydantic validator descriptor."""
    from roptvc.sym import ContractUnbound

    if name not in cls.__dict__:
        raise ContractUnbound("the validator %s.%s that the contract enters by no longer exists under that name" % (cls.__name__, name))
    d = cls.__dict__[name]
    return getattr(d, "wrapped", d)


def after(cls, me, ctx_info=None):
    """Every 'after' model validator of the class - its own and the inherited ones - applied to `me` in pydantic's order: what
    validation does to an object whose fields have passed the field validators, however the class spreads the work over validators."""
    import inspect

    out = me
    if hasattr(me, "_bind"):
        me._bind(cls)
    decs = getattr(cls, "__pydantic_decorators__", None)
    items = list(decs.model_validators.items()) if decs is not None else []
    ran = 0
    for _name, dec in items:
        if getattr(dec.info, "mode", None) != "after":
            continue
        fn = getattr(dec.func, "__func__", dec.func)
        npar = len([p for p in inspect.signature(fn).parameters.values() if p.default is p.empty and p.kind in (p.POSITIONAL_ONLY, p.POSITIONAL_OR_KEYWORD)])
        res = fn(out, ctx_info) if npar >= 2 else fn(out)
        out = res if res is not None else out
        ran += 1
    if not ran:
        from roptvc.sym import ContractUnbound

        raise ContractUnbound("%s has no after-validator any more" % cls.__name__)
    return out


def frozen_ok(T, prefix, me, validated=True):
    T.prove(prefix + ".object_immutable_on_exit", me._is_immutable is True)
    for k, v in me.arrays().items():
        T.prove(prefix + ".stored_arrays_are_read_only", not v.flags.writeable, k)


def _imm(T, v):
    a = v.copy() if isinstance(v, np.ndarray) else T.np.array(v)
    a.setflags(write=False)
    return a


# ------------------------------------------------------------------------------------ config.utils
def cases_utils(tier):
    for n in (1, 2, 3) + ((4, 5) if tier == "thorough" else ()):
        yield "normalize/n%d" % n, {"what": "normalize", "n": n}
    for n, size in ((1, 1), (1, 3), (3, 3), (2, 3), (1, 0), (2, 4), (4, 4), (2, 6), (3, 6), (5, 6), (7, 6), (4, 2), (12, 12)):
        yield "broadcast_1d/n%d-size%d" % (n, size), {"what": "broadcast_1d", "n": n, "size": size}
    # arrays of more than one dimension whose number of elements happens to be the wanted length: not a 1-D array of that length
    for shape, size in (((3, 1), 3), ((1, 3), 3), ((2, 2), 4)):
        yield "broadcast_1d/shape%s-size%d" % ("x".join(map(str, shape)), size), {"what": "broadcast_1d", "n": shape, "size": size}
    yield "immutable_array", {"what": "immutable_array"}
    yield "broadcast_arrays", {"what": "broadcast_arrays"}
    yield "check_enum_values", {"what": "check_enum"}
    yield "converters", {"what": "converters"}


CONVERTERS = (("_convert_1d_array", np.float64, 1), ("_convert_1d_array_intc", np.intc, 1), ("_convert_1d_array_bool", np.bool_, 1),
              ("_convert_2d_array", np.float64, 2), ("_convert_enum_array", np.ubyte, 1))


def check_converters(T, get, prefix, only=None):
    """Canonical form of array-valued fields: whatever array-like the user gives (scalar, list, tuple, ndarray of another dtype,
    read-only or not), the stored array has the declared dtype and rank, equal values, is a fresh object and is read-only."""
    for name, dtype, ndim in CONVERTERS:
        if only is not None and name not in only:
            continue
        f = get(name)
        T.prove(prefix + ".converters.none_stays_none", f(None) is None, name)
        given = [1, [1, 0, 1], (0, 1), np.array([1, 0, 1]), np.array([1, 0, 1], dtype=np.int64), np.array([1.0, 0.0]), np.array([True, False]), np.array([2, 1], dtype=np.ubyte),
                 np.array(1), np.array([[1, 0], [0, 1]]) if ndim == 2 else np.array([0, 1], dtype=np.int8)]
        for g in given:
            ro = isinstance(g, np.ndarray) and g.ndim > 0
            if ro:
                g = g.copy()
                g.setflags(write=False)
            r = f(g)
            want = np.array(g, dtype=dtype, ndmin=ndim)
            T.prove(prefix + ".converters.stored_array_has_the_declared_dtype_and_rank", isinstance(r, np.ndarray) and np.dtype(getattr(r, "sdtype", None) or r.dtype) == np.dtype(dtype) and r.ndim == ndim, "%s(%r) -> %r" % (name, g, r))
            T.prove(prefix + ".converters.values_preserved", r.shape == want.shape and bool(np.all(np.asarray(r) == want)), "%s(%r) -> %r" % (name, g, r))
            T.prove(prefix + ".converters.stored_array_is_a_read_only_copy", (r is not g) and not r.flags.writeable and not (isinstance(g, np.ndarray) and np.shares_memory(np.asarray(r), g)), "%s(%r)" % (name, g))


def scn_utils(T, case):
    what = case["what"]
    if T.symbolic:
        sh = T.shadow([MU])
        get = lambda q: T.under_contract(sh, MU, q)  # noqa: E731
    else:
        get = lambda q: T.func(MU, q)  # noqa: E731
    if what == "normalize":
        f = get("normalize")
        n = case["n"]
        a = T.real("a", (n,), lo=0.0)
        a0 = a.copy()
        eps = float(np.finfo(np.float64).eps)
        try:
            r = f(a)
        except ValueError:
            T.prove("C18.normalize.rejects_only_non_positive_sums", T.total([a0[i] for i in range(n)]) < eps)
            return
        S = T.total([a0[i] for i in range(n)])
        T.prove("C18.normalize.non_positive_sums_are_rejected", S >= eps if T.symbolic else S >= eps)
        T.prove("C18.normalize.result_sums_to_one", T.same(T.total([r[i] for i in range(n)]), 1.0) if T.symbolic else abs(float(np.sum(r)) - 1.0) < 1e-12)
        T.prove("C18.normalize.ratios_preserved", T.all([T.close(r[i] * S, a0[i], 1e-12) if not T.symbolic else T.same(r[i] * S, a0[i]) for i in range(n)]))
        T.prove("C18.normalize.result_non_negative", T.all([r[i] >= 0 for i in range(n)]))
        T.prove("C18.normalize.result_read_only_and_argument_untouched", (not r.flags.writeable) and T.same(a, a0))
        return
    if what == "broadcast_1d":
        f = get("broadcast_1d_array")
        n, size = case["n"], case["size"]
        if isinstance(n, tuple):
            a = T.real("a", n)
            try:
                r = f(a, "name", size)
            except ValueError:
                return
            # (accepting it is not wrong in itself - if what comes back is the 1-D array of full length the clause asks for)
            T.prove("C18.broadcast_1d.result_is_one_dimensional_of_full_length", tuple(r.shape) == (size,) and not r.flags.writeable, repr(tuple(r.shape)))
            return
        a = T.real("a", (n,))
        try:
            r = f(a, "name", size)
        except ValueError:
            T.prove("C18.broadcast_1d.rejects_only_incompatible_lengths", n not in (1, size))
            return
        T.prove("C18.broadcast_1d.incompatible_lengths_are_rejected", n in (1, size) or size == 0)
        T.prove("C18.broadcast_1d.full_length_read_only", tuple(r.shape) == (size,) and not r.flags.writeable)
        T.prove("C18.broadcast_1d.values_preserved", T.all([T.same(r[i], a[0] if n == 1 else a[i]) for i in range(size)] or [True]))
        return
    if what == "immutable_array":
        f = get("immutable_array")
        a = T.real("a", (2,))
        r = f(a)
        T.prove("C18.immutable_array.fresh_read_only_copy", (r is not a) and not r.flags.writeable and a.flags.writeable and T.same(r, a))
        r2 = f([1.0, 2.0], dtype=np.float64, ndmin=2)
        T.prove("C18.immutable_array.conversion_arguments_honoured", tuple(np.shape(r2)) == (1, 2) and not r2.flags.writeable)
        return
    if what == "broadcast_arrays":
        f = get("broadcast_arrays")
        a, b = T.real("a", (1,)), T.real("b", (3,))
        ra, rb = f(a, b)
        T.prove("C18.broadcast_arrays.common_shape_read_only", tuple(ra.shape) == (3,) and tuple(rb.shape) == (3,) and not ra.flags.writeable and not rb.flags.writeable)
        T.prove("C18.broadcast_arrays.values_preserved", T.all([T.same(ra[i], a[0]) & T.same(rb[i], b[i]) for i in range(3)]))
        return
    if what == "converters":
        check_converters(T, get, "C18")
        return
    f = get("check_enum_values")
    from ropt.enums import BoundaryType

    for vals, ok in (([1, 2, 3], True), ([0], False), ([4], False), ([1, 9], False)):
        try:
            f(np.array(vals, dtype=np.ubyte), BoundaryType)
            good = True
        except ValueError:
            good = False
        T.prove("C18.check_enum_values.accepts_exactly_the_enumeration_range", good == ok)


# ------------------------------------------------------------------------------------ validators
def _cls(T, sh, mod, name):
    if T.symbolic:
        return T.under_contract(sh, CFG + mod, name)
    return T.func(CFG + mod, name)


MODS = [MU, CFG + "_realizations_config", CFG + "_objective_functions_config", CFG + "_nonlinear_constraints_config", CFG + "_linear_constraints_config",
        CFG + "_variables_config", CFG + "_gradient_config", CFG + "_optimizer_config", CFG + "_enopt_config"]


def cases_validators(tier):
    for ms in (None, 0, 2, 5):
        yield "realizations/min_success=%s" % ms, {"v": "realizations", "ms": ms}
        # a realization with weight zero is still a realization: thresholds default and clamp to the ensemble SIZE
        yield "realizations/min_success=%s/one-zero-weight" % ms, {"v": "realizations", "ms": ms, "zero": True}
    yield "objectives", {"v": "objectives"}
    # the estimator / filter index maps of objectives and non-linear constraints: one index per function - given once they are
    # broadcast, of any other wrong length they are rejected
    for which in ("objectives", "nonlinear"):
        for field in ("function_estimators", "realization_filters"):
            for L in (1, 2, 3, 4):
                yield "%s/%s-of-length-%d-for-3-functions" % (which, field, L), {"v": "index-maps", "which": which, "field": field, "L": L, "tr": False, "bad": False}
    # ... also when the number of constraints shows in ONE of the bound arrays only (the other given once)
    for field in ("function_estimators", "realization_filters"):
        for L in (1, 2):
            yield "nonlinear/%s-of-length-%d-for-3-functions/lower-bound-given-once" % (field, L), {"v": "index-maps", "which": "nonlinear", "field": field, "L": L, "tr": False, "bad": False, "lb1": True}
    # a transform that reverses the order of the bounds (a negative scale): the consistency check is about the bounds that are STORED
    yield "nonlinear/transform=negative-scale", {"v": "nonlinear", "tr": True, "bad": False, "negative": True}
    for tr in (False, True):
        for bad in (False, True):
            yield "nonlinear/transform=%s/inverted=%s" % (tr, bad), {"v": "nonlinear", "tr": tr, "bad": bad}
            yield "variables/transform=%s/inverted=%s" % (tr, bad), {"v": "variables", "tr": tr, "bad": bad}
            yield "variables/transform=%s/inverted=%s/mask-given-once-as-false" % (tr, bad), {"v": "variables", "tr": tr, "bad": bad, "mask1": False}
    for bad in (False, True):
        yield "linear/inverted=%s" % bad, {"v": "linear", "bad": bad}
        yield "linear/inverted=%s/both-bounds-given-once-for-two-rows" % bad, {"v": "linear", "bad": bad, "both_scalar": True}
    for tr in (False, True):
        for cols in (1, 2, 3):  # (one column for two variables: would broadcast against a per-variable transform)
            yield "linear-transformation/transform=%s/columns=%d" % (tr, cols), {"v": "linear-apply", "tr": tr, "cols": cols}
    for pms in (None, 1, 9):
        yield "gradient/perturbation_min_success=%s" % pms, {"v": "gradient-min", "pms": pms}
    # ... with fewer and with more perturbations than the default number (the default of the threshold is the CONFIGURED number)
    for P in (1, 3, 8, 12):
        for pms in (None, 2, 20):
            yield "gradient/%d-perturbations/perturbation_min_success=%s" % (P, pms), {"v": "gradient-min", "pms": pms, "P": P}
    for ptypes in ([1, 1], [2, 1], [2, 2]):
        for tr in (False, True):
            yield "gradient/fix_perturbations/%s/transform=%s" % (ptypes, tr), {"v": "gradient-fix", "ptypes": ptypes, "tr": tr}
    # per-variable perturbation settings of every length from one to one more than the number of variables (4, 5 and 6 variables:
    # lengths that divide the number of variables, lengths in between): accepted exactly when 1 or the number of variables
    for n in (4, 5) + ((6,) if tier == "thorough" else ()):
        for field in ("perturbation_magnitudes", "perturbation_types", "boundary_types"):
            for L in range(1, n + 2):
                yield "gradient/fix_perturbations/%d-variables/%s-of-length-%d" % (n, field, L), {"v": "gradient-fix", "ptypes": [1], "tr": False, "n": n, "field": field, "L": L}
    for method in ("slsqp", "scipy/slsqp", "/slsqp", "scipy/"):
        yield "optimizer/method=%s" % method, {"v": "optimizer", "method": method}
    for lin in (False, True):
        yield "enopt/linear=%s" % lin, {"v": "enopt", "lin": lin}


class _Scaler:
    def __init__(self, T, n):
        self.s = T.real("scales", (n,), lo=0.01, hi=100.0)

    def to_optimizer(self, v):
        return v / self.s

    def magnitudes_to_optimizer(self, v):
        return v / self.s

    def linear_constraints_to_optimizer(self, A, lb, ub):
        return A * self.s, lb * 1.0, ub * 1.0


class _NlScaler:
    def __init__(self, T, negative=False):
        self.k = T.real("constraint_scale", (), lo=-100.0, hi=-0.01) if negative else T.real("constraint_scale", (), lo=0.01, hi=100.0)

    def bounds_to_optimizer(self, lb, ub):
        return lb / self.k, ub / self.k


def scn_validators(T, case):
    sh = T.shadow(MODS) if T.symbolic else None
    v = case["v"]
    info = lambda ctx: types.SimpleNamespace(context=ctx)  # noqa: E731
    if v == "realizations":
        cls = _cls(T, sh, "_realizations_config", "RealizationsConfig")
        w = T.real("weights", (3,), lo=0.001)
        if case.get("zero"):
            w = T.np.array([w[0], w[1], 0.0 * w[2]])
        me = Model(weights=_imm(T, w), realization_min_success=case["ms"])
        me._immutable()
        out = after(cls, me)
        T.prove("C18.realizations.returns_self", out is me)
        T.prove("C18.realizations.weights_normalised", T.same(T.total([me.weights[i] for i in range(3)]), 1.0) if T.symbolic else abs(float(np.sum(me.weights)) - 1) < 1e-12)
        S = T.total([w[i] for i in range(3)])
        T.prove("C18.realizations.weight_ratios_preserved", T.all([(T.same if T.symbolic else T.close)(me.weights[i] * S, w[i]) for i in range(3)]))
        want = 3 if case["ms"] is None or case["ms"] > 3 else case["ms"]
        T.prove("C18.realizations.min_success_clamped_to_ensemble_size", me.realization_min_success == want)
        frozen_ok(T, "C18.realizations", me)
    elif v == "objectives":
        cls = _cls(T, sh, "_objective_functions_config", "ObjectiveFunctionsConfig")
        w = T.real("weights", (2,), lo=0.001)
        me = Model(weights=_imm(T, w), realization_filters=None, function_estimators=None)
        me._immutable()
        after(cls, me)
        T.prove("C18.objectives.weights_normalised", T.same(T.total([me.weights[i] for i in range(2)]), 1.0) if T.symbolic else abs(float(np.sum(me.weights)) - 1) < 1e-12)
        frozen_ok(T, "C18.objectives", me)
    elif v == "index-maps":
        n, L, field = 3, case["L"], case["field"]
        given = np.array([(i + 1) % 2 for i in range(L)], dtype=np.intc)
        other = "realization_filters" if field == "function_estimators" else "function_estimators"
        if case["which"] == "objectives":
            cls = _cls(T, sh, "_objective_functions_config", "ObjectiveFunctionsConfig")
            me = Model(weights=_imm(T, T.real("weights", (n,), lo=0.001)), **{field: _imm(T, given), other: None})
            call = lambda: after(cls, me)  # noqa: E731
        else:
            cls = _cls(T, sh, "_nonlinear_constraints_config", "NonlinearConstraintsConfig")
            lb = T.real("lb", (1 if case.get("lb1") else n,))
            me = Model(lower_bounds=_imm(T, lb), upper_bounds=_imm(T, T.real("ub", (n,), ge=lb[0] if case.get("lb1") else lb)), **{field: _imm(T, given), other: None})
            call = lambda: after(cls, me, info(None))  # noqa: E731
        me._immutable()
        try:
            call()
        except ValueError:
            T.prove("C18.index_maps.rejects_only_lengths_other_than_one_and_the_number_of_functions", L not in (1, n))
            return
        T.prove("C18.index_maps.lengths_other_than_one_and_the_number_of_functions_are_rejected", L in (1, n))
        got = getattr(me, field)
        T.prove("C18.index_maps.one_index_per_function_read_only", got is not None and tuple(got.shape) == (n,) and not got.flags.writeable
                and [int(g) for g in got] == [int(given[i if L == n else 0]) for i in range(n)], repr(got))
        T.prove("C18.index_maps.absent_map_stays_absent", getattr(me, other) is None)
        frozen_ok(T, "C18.index_maps", me)
    elif v in ("nonlinear", "variables"):
        n = 3
        lb = T.real("lb", (1,))
        ub = T.real("ub", (n,))
        ok = T.all([lb[0] <= ub[i] for i in range(n)])
        if case.get("negative"):
            cls = _cls(T, sh, "_nonlinear_constraints_config", "NonlinearConstraintsConfig")
            me = Model(lower_bounds=_imm(T, lb), upper_bounds=_imm(T, ub), realization_filters=None, function_estimators=None)
            sc = _NlScaler(T, negative=True)
            me._immutable()
            stored_bad = T.any([lb[0] / sc.k > ub[i] / sc.k for i in range(n)])
            try:
                after(cls, me, info(types.SimpleNamespace(nonlinear_constraints=sc)))
            except ValueError:
                T.prove("C18.nonlinear.rejects_only_when_the_stored_bounds_are_inverted", stored_bad)
                return
            T.prove("C18.nonlinear.inverted_stored_bounds_are_rejected", ~stored_bad if T.symbolic else not stored_bad)
            frozen_ok(T, "C18.nonlinear", me)
            return
        T.assume(~ok if (case["bad"] and T.symbolic) else (ok if not case["bad"] else not ok))
        if v == "nonlinear":
            cls = _cls(T, sh, "_nonlinear_constraints_config", "NonlinearConstraintsConfig")
            me = Model(lower_bounds=_imm(T, lb), upper_bounds=_imm(T, ub), realization_filters=None, function_estimators=None)
            ctx = types.SimpleNamespace(nonlinear_constraints=_NlScaler(T)) if case["tr"] else None
            fn, name = (lambda m, i: after(cls, m, i)), "C18.nonlinear"
        else:
            cls = _cls(T, sh, "_variables_config", "VariablesConfig")
            me = Model(initial_values=_imm(T, T.real("x0", (n,))), lower_bounds=_imm(T, lb), upper_bounds=_imm(T, ub), types=None, mask=_imm(T, np.array([bool(case.get("mask1", True))])))
            ctx = types.SimpleNamespace(variables=_Scaler(T, n)) if case["tr"] else None
            fn, name = (lambda m, i: after(cls, m, i)), "C18.variables"
        me._immutable()
        try:
            fn(me, info(ctx))
        except ValueError:
            T.prove(name + ".rejects_only_inverted_bounds", case["bad"])
            return
        T.prove(name + ".inverted_bounds_are_rejected", not case["bad"])
        T.prove(name + ".bounds_broadcast_to_full_length", tuple(me.lower_bounds.shape) == (n,) and tuple(me.upper_bounds.shape) == (n,))
        if v == "variables":
            T.prove(name + ".mask_broadcast_to_full_length", me.mask is not None and tuple(me.mask.shape) == (n,) and not me.mask.flags.writeable
                    and [bool(b) for b in me.mask] == [bool(case.get("mask1", True))] * n)
        if not case["tr"]:
            T.prove(name + ".values_preserved", T.all([T.same(me.lower_bounds[i], lb[0]) & T.same(me.upper_bounds[i], ub[i]) for i in range(n)]))
        frozen_ok(T, name, me)
    elif v == "linear":
        cls = _cls(T, sh, "_linear_constraints_config", "LinearConstraintsConfig")
        A = T.real("A", (2, 2))
        lb, ub = T.real("lb", (1,)), T.real("ub", (1 if case.get("both_scalar") else 2,))
        ok = T.all([lb[0] <= ub[i] for i in range(ub.shape[0])])
        T.assume(~ok if (case["bad"] and T.symbolic) else (ok if not case["bad"] else not ok))
        me = Model(coefficients=_imm(T, A), lower_bounds=_imm(T, lb), upper_bounds=_imm(T, ub))
        me._immutable()
        try:
            after(cls, me)
        except ValueError:
            T.prove("C18.linear.rejects_only_inverted_bounds", case["bad"])
            return
        T.prove("C18.linear.inverted_bounds_are_rejected", not case["bad"])
        T.prove("C18.linear.bounds_broadcast_to_the_number_of_rows", tuple(me.lower_bounds.shape) == (2,) and tuple(me.upper_bounds.shape) == (2,))
        frozen_ok(T, "C18.linear", me)
    elif v == "linear-apply":
        cls = _cls(T, sh, "_linear_constraints_config", "LinearConstraintsConfig")
        A = T.real("A", (1, case["cols"]))
        me = Model(coefficients=_imm(T, A), lower_bounds=_imm(T, T.real("lb", (1,))), upper_bounds=_imm(T, T.real("ub", (1,))))
        me.model_dump = lambda round_trip=False: {"coefficients": me.coefficients, "lower_bounds": me.lower_bounds, "upper_bounds": me.upper_bounds}
        me._immutable()
        fields0 = {k: getattr(me, k) for k in ("coefficients", "lower_bounds", "upper_bounds")}
        made = []

        class Built(Model):
            pass

        def construct(**values):
            b = Built(**values)
            made.append(b)
            return b

        if T.symbolic:
            sh.ns[CFG + "_linear_constraints_config"]["LinearConstraintsConfig"] = types.SimpleNamespace(model_construct=construct)
        variables = types.SimpleNamespace(initial_values=np.zeros(2))
        tr = types.SimpleNamespace(variables=_Scaler(T, 2 if case["cols"] == 1 else case["cols"])) if case["tr"] else None
        try:
            if T.symbolic:
                out = cls.apply_transformation(me, variables, tr)
            else:
                import ropt.config.enopt._linear_constraints_config as real

                saved = real.LinearConstraintsConfig
                real.LinearConstraintsConfig = types.SimpleNamespace(model_construct=construct)
                try:
                    out = cls.apply_transformation(me, variables, tr)
                finally:
                    real.LinearConstraintsConfig = saved
        except ValueError:
            T.prove("C18.linear.rejects_only_wrong_column_count", case["cols"] != 2)
            return
        T.prove("C18.linear.wrong_column_count_is_rejected", case["cols"] == 2)
        # frame: the (validated, frozen) object the method is called on is never changed - it may be shared with other configurations
        T.prove("C18.linear.apply_transformation_leaves_the_frozen_object_unchanged", me._is_immutable is True and me.coefficients is fields0["coefficients"]
                and me.lower_bounds is fields0["lower_bounds"] and me.upper_bounds is fields0["upper_bounds"] and T.same(me.coefficients, A))
        if case["tr"]:
            T.prove("C18.linear.transformed_object_is_immutable_with_read_only_arrays", out is not me and out._is_immutable is True and all(not a.flags.writeable for a in out.arrays().values()) and len(out.arrays()) == 3)
        else:
            T.prove("C18.linear.without_transform_the_object_is_returned_unchanged", out is me)
    elif v == "gradient-min":
        cls = _cls(T, sh, "_gradient_config", "GradientConfig")
        P = case.get("P", 5)
        me = Model(number_of_perturbations=P, perturbation_min_success=case["pms"])
        me._immutable()
        raw(cls, "_check_perturbation_min_success")(me)
        T.prove("C18.gradient.perturbation_min_success_clamped", me.perturbation_min_success == (P if case["pms"] is None or case["pms"] > P else case["pms"]))
        frozen_ok(T, "C18.gradient", me)
    elif v == "gradient-fix":
        cls = _cls(T, sh, "_gradient_config", "GradientConfig")
        n = case.get("n", 2)
        lb = T.real("lb", (n,))
        ub = T.real("ub", (n,), ge=lb)
        m = T.real("magnitudes", (1,), lo=0.0)
        variables = types.SimpleNamespace(initial_values=np.zeros(n), lower_bounds=lb, upper_bounds=ub, mask=None, types=None)

        updates = []
        assignment = _imm(T, np.array([1] * n, dtype=np.intc))  # every variable assigned to the SECOND sampler

        def mk(mags, ptypes, btypes):
            me = Model(perturbation_magnitudes=_imm(T, mags), perturbation_types=_imm(T, np.array(ptypes, dtype=np.ubyte)), boundary_types=_imm(T, np.array(btypes, dtype=np.ubyte)),
                       samplers=assignment, number_of_perturbations=3, perturbation_min_success=3, merge_realizations=False, seed=(1,))

            def model_copy(update):
                updates.append(dict(update))
                return Model(**{**{k: getattr(me, k) for k in ("perturbation_magnitudes", "perturbation_types", "boundary_types", "samplers", "number_of_perturbations",
                                                               "perturbation_min_success", "merge_realizations", "seed")}, **update})

            me.model_copy = model_copy
            me._immutable()
            return me

        tr = types.SimpleNamespace(variables=_Scaler(T, n)) if case["tr"] else None
        if case.get("field"):
            field, L = case["field"], case["L"]
            mags = T.real("magnitudes_given", (L,), lo=0.0) if field == "perturbation_magnitudes" else m
            pt = [1 + (i % 2) for i in range(L)] if field == "perturbation_types" else [1]
            bt = [1 + (i % 3) for i in range(L)] if field == "boundary_types" else [3]
            try:
                out = cls.fix_perturbations(mk(mags, pt, bt), variables, None)
            except ValueError:
                T.prove("C18.gradient.fix_perturbations.rejects_only_lengths_other_than_one_and_the_number_of_variables", L not in (1, n))
                return
            T.prove("C18.gradient.fix_perturbations.lengths_other_than_one_and_the_number_of_variables_are_rejected", L in (1, n))
            for k, a in out.arrays().items():
                T.prove("C18.gradient.fix_perturbations.arrays_have_full_length", tuple(a.shape) == (n,), k)
            if field == "boundary_types":
                T.prove("C18.gradient.fix_perturbations.entry_i_is_the_setting_given_for_variable_i", [int(t) for t in out.boundary_types] == [bt[i if L == n else 0] for i in range(n)])
            if field == "perturbation_types":
                # type 2 (relative) for variable i: the magnitude becomes that fraction of the range of variable i; type 1 (absolute): unchanged
                rel = [pt[i if L == n else 0] == 2 for i in range(n)]
                T.prove("C18.gradient.fix_perturbations.entry_i_is_the_setting_given_for_variable_i",
                        T.all([T.same(out.perturbation_magnitudes[i], m[0] * (ub[i] - lb[i]) if rel[i] else m[0]) for i in range(n)]))
            if field == "perturbation_magnitudes":
                T.prove("C18.gradient.fix_perturbations.entry_i_is_the_setting_given_for_variable_i", T.all([T.same(out.perturbation_magnitudes[i], mags[i if L == n else 0]) for i in range(n)]))
            return
        given = mk(m, case["ptypes"], [3])
        given0 = {k: getattr(given, k) for k in ("perturbation_magnitudes", "perturbation_types", "boundary_types")}
        first = cls.fix_perturbations(given, variables, tr)
        # frame: the frozen object the method is called on is never changed (it may be shared by several configurations)
        T.prove("C18.gradient.fix_perturbations.leaves_the_frozen_object_unchanged", given._is_immutable is True and all(getattr(given, k) is v0 for k, v0 in given0.items())
                and tuple(given.perturbation_magnitudes.shape) == (1,) and T.same(given.perturbation_magnitudes, m) and [int(t) for t in given.perturbation_types] == [int(t) for t in np.atleast_1d(np.array(case["ptypes"]))][:len(given.perturbation_types)])
        # ... and nothing but the three perturbation fields differs in the result (sampler assignment, counts, seed are the user's)
        T.prove("C18.gradient.fix_perturbations.changes_nothing_but_the_perturbation_fields",
                all(set(u) <= {"perturbation_magnitudes", "perturbation_types", "boundary_types"} for u in updates) and first.samplers is assignment
                and first.number_of_perturbations == 3 and first.seed == (1,))
        for k, a in first.arrays().items():
            T.prove("C18.gradient.fix_perturbations.stored_arrays_are_read_only", not a.flags.writeable, k)
            T.prove("C18.gradient.fix_perturbations.arrays_have_full_length", tuple(a.shape) == (n,), k)
        # validating the dumped form again (no transform context: the values are already in optimizer coordinates) changes nothing
        second = cls.fix_perturbations(mk(first.perturbation_magnitudes, [int(t) for t in first.perturbation_types], [int(t) for t in first.boundary_types]), variables, None)
        T.prove("C18.gradient.fix_perturbations.idempotent_on_its_own_output", T.same(second.perturbation_magnitudes, first.perturbation_magnitudes)
                & ([int(t) for t in second.perturbation_types] == [int(t) for t in first.perturbation_types]))
    elif v == "optimizer":
        cls = _cls(T, sh, "_optimizer_config", "OptimizerConfig")
        me = Model(method=case["method"])
        me._immutable()
        try:
            raw(cls, "_method")(me)
        except ValueError:
            T.prove("C18.optimizer.rejects_only_malformed_method_names", case["method"] in ("/slsqp", "scipy/"))
            return
        frozen_ok(T, "C18.optimizer", me)
    else:
        cls = _cls(T, sh, "_enopt_config", "EnOptConfig")
        lin_out, grad_out = object(), object()
        lin = types.SimpleNamespace(apply_transformation=lambda variables, ctx: lin_out) if case["lin"] else None
        grad = types.SimpleNamespace(fix_perturbations=lambda variables, ctx: grad_out)
        me = Model(linear_constraints=lin, gradient=grad, variables=object())
        me._immutable()
        raw(cls, "_linear_constraints")(me, info(None))
        T.prove("C18.enopt.immutable_after_linear_constraint_step", me._is_immutable is True and (me.linear_constraints is lin_out if case["lin"] else me.linear_constraints is None))
        raw(cls, "_gradient")(me, info(None))
        T.prove("C18.enopt.immutable_after_gradient_step", me._is_immutable is True and me.gradient is grad_out)
        real_cfg_cls = T.func(CFG + "_enopt_config", "EnOptConfig") if not T.symbolic else cls
        handler_calls = []
        inst = object.__new__(real_cfg_cls)
        got = raw(cls, "_pass_enopt_config_unchanged")(inst, lambda x: handler_calls.append(x) or "validated")
        T.prove("C18.enopt.validated_instance_passes_unchanged", got is inst and handler_calls == [])
        got2 = raw(cls, "_pass_enopt_config_unchanged")({"variables": {}}, lambda x: handler_calls.append(x) or "validated")
        # pydantic applies model validators inside-out in definition order (library contract): the short-cut for validated instances
        # only protects the after-validators defined BEFORE it, so every validator that applies the transforms of the context must precede it
        import inspect

        decs = real_cfg_cls.__pydantic_decorators__.model_validators
        order = list(decs)
        wraps = [k for k, d in decs.items() if d.info.mode == "wrap"]
        # the validators that read the validation context (they apply the transforms) are the ones that are not idempotent
        ctx_validators = [k for k, d in decs.items() if d.info.mode == "after" and len(inspect.signature(d.func).parameters) >= 2]
        T.prove("C18.enopt.instance_short_cut_encloses_every_validator_that_applies_the_context", len(wraps) == 1 and all(order.index(k) < order.index(wraps[0]) for k in ctx_validators),
                "order: %r" % (order,))
        T.prove("C18.enopt.dictionaries_are_validated", got2 == "validated" and len(handler_calls) == 1)


# ------------------------------------------------------------------------------------ bounded: attack every reachable attribute of really validated configurations
def cases_native(tier):
    for i in range(8 if tier == "quick" else 120):
        yield "generated-%d" % i, {"i": i, "__concrete_only__": True}


def _gen_config(rng, with_tr):
    n = int(rng.integers(1, 4))
    R = int(rng.integers(1, 4))
    lb = rng.normal(size=n) - 2
    cfg = {
        "variables": {"initial_values": (lb + 1).tolist(), "lower_bounds": lb.tolist() if rng.integers(0, 2) else float(lb.min()), "upper_bounds": (lb + rng.uniform(2, 5, size=n)).tolist()},
        "realizations": {"weights": rng.uniform(0.1, 3, size=R).tolist()},
        "objectives": {"weights": rng.uniform(0.1, 3, size=int(rng.integers(1, 3))).tolist()},
        "gradient": {"number_of_perturbations": int(rng.integers(1, 5)), "perturbation_types": [int(rng.integers(1, 3)) for _ in range(n)] if rng.integers(0, 2) else int(rng.integers(1, 3)),
                     "perturbation_magnitudes": float(rng.uniform(0.01, 0.5)), "boundary_types": int(rng.integers(1, 4))},
        "optimizer": {"method": "slsqp", "max_functions": 5, "options": {"ftol": 1e-3} if rng.integers(0, 2) else None},
    }
    if rng.integers(0, 2):
        cfg["variables"]["mask"] = [bool(b) for b in rng.integers(0, 2, size=n)]
    if rng.integers(0, 2):
        cfg["realizations"]["realization_min_success"] = int(rng.integers(0, R + 3))
    if rng.integers(0, 2):
        cfg["gradient"]["perturbation_min_success"] = int(rng.integers(1, 8))
    if rng.integers(0, 2):
        k = int(rng.integers(1, 3))
        cfg["nonlinear_constraints"] = {"lower_bounds": [0.0] * k, "upper_bounds": [float("inf")] * k if rng.integers(0, 2) else 1.0}
    if rng.integers(0, 2):
        cfg["linear_constraints"] = {"coefficients": rng.normal(size=(2, n)).tolist(), "lower_bounds": -1.0, "upper_bounds": [1.0, 2.0]}
    # the tuples of plug-in sections (every reachable object is frozen, those inside tuples too)
    if rng.integers(0, 3) or True:
        cfg["realization_filters"] = [{"method": "sort-objective", "options": {"sort": [0], "first": 0, "last": 0}}]
        cfg["objectives"]["realization_filters"] = [0] * len(cfg["objectives"]["weights"])
        cfg["function_estimators"] = [{"method": "mean"}, {"method": "stddev"}][: (2 if R > 1 else 1)]
        cfg["samplers"] = [{"method": "norm"}, {"method": "uniform", "shared": True}]
        cfg["gradient"]["samplers"] = [int(rng.integers(0, 2)) for _ in range(n)]
    # sections left out altogether: their defaults are validated (canonical, frozen) like given ones
    if rng.integers(0, 3) == 0:
        del cfg["objectives"]
    if rng.integers(0, 3) == 0:
        del cfg["realizations"]
        cfg["function_estimators"] = cfg["function_estimators"][:1]
    if rng.integers(0, 4) == 0:
        del cfg["optimizer"]
    return cfg, n


def _walk(obj, path, seen, out):
    from pydantic import BaseModel

    if id(obj) in seen:
        return
    seen.add(id(obj))
    if isinstance(obj, np.ndarray):
        out.append(("array", path, obj))
    elif isinstance(obj, BaseModel):
        out.append(("model", path, obj))
        for name in type(obj).model_fields:
            _walk(getattr(obj, name), path + "." + name, seen, out)
    elif isinstance(obj, (tuple, list)):
        for i, v in enumerate(obj):
            _walk(v, path + "[%d]" % i, seen, out)


def _equal(a, b):
    from pydantic import BaseModel

    if isinstance(a, np.ndarray) or isinstance(b, np.ndarray):
        return isinstance(a, np.ndarray) and isinstance(b, np.ndarray) and a.shape == b.shape and bool(np.allclose(a, b, rtol=1e-12, atol=0, equal_nan=True))
    if isinstance(a, BaseModel):
        return type(a) is type(b) and all(_equal(getattr(a, f), getattr(b, f)) for f in type(a).model_fields)
    if isinstance(a, (tuple, list)):
        return len(a) == len(b) and all(_equal(x, y) for x, y in zip(a, b))
    return a == b


def subs_by_path(subs, path):
    return next(o for p, o in subs if p == path)


def scn_native(T, case):
    import json

    from ropt.config.enopt import EnOptConfig
    from ropt.transforms import OptModelTransforms, VariableScaler

    seed = T.integer("seed", 0, 10**6)
    rng = np.random.default_rng(seed)
    with_tr = bool(rng.integers(0, 2))
    d, n = _gen_config(rng, with_tr)
    nl_tr = None
    if with_tr and "nonlinear_constraints" in d and rng.integers(0, 2):
        from ropt.transforms.base import NonLinearConstraintTransform

        class _ConstraintScaler(NonLinearConstraintTransform):
            def __init__(self, k):
                self.k = k

            def to_optimizer(self, constraints):
                return constraints / self.k

            def from_optimizer(self, constraints):
                return constraints * self.k

            def bounds_to_optimizer(self, lower_bounds, upper_bounds):
                return lower_bounds / self.k, upper_bounds / self.k

            def nonlinear_constraint_diffs_from_optimizer(self, lower_diffs, upper_diffs):
                return lower_diffs * self.k, upper_diffs * self.k

        nl_tr = _ConstraintScaler(float(rng.uniform(2.0, 5.0)))
    tr = OptModelTransforms(variables=VariableScaler(rng.uniform(0.5, 3, size=n), rng.normal(size=n)), nonlinear_constraints=nl_tr) if with_tr else None
    cfg = EnOptConfig.model_validate(d, context=tr)
    found = []
    _walk(cfg, "config", set(), found)
    for kind, path, obj in found:
        if kind == "array":
            ok = not obj.flags.writeable
            if obj.size:
                try:
                    obj.reshape(-1)[0] = obj.reshape(-1)[0]
                    ok = False
                except ValueError:
                    pass
            T.prove("C18.native.every_reachable_array_rejects_in_place_writes", ok, path)
        else:
            for name in type(obj).model_fields:
                try:
                    setattr(obj, name, getattr(obj, name))
                    rejected = False
                except Exception:  # noqa: BLE001  (AttributeError for ImmutableBaseModel, ValidationError for frozen models)
                    rejected = True
                T.prove("C18.native.every_reachable_object_rejects_attribute_assignment", rejected, path + "." + name)
    T.prove("C18.native.canonical_weights_sum_to_one", abs(float(cfg.realizations.weights.sum()) - 1) < 1e-12 and abs(float(cfg.objectives.weights.sum()) - 1) < 1e-12)
    T.prove("C18.native.thresholds_clamped", cfg.realizations.realization_min_success <= cfg.realizations.weights.size and cfg.gradient.perturbation_min_success <= cfg.gradient.number_of_perturbations)
    T.prove("C18.native.arrays_broadcast_to_full_length", all(a.shape == (n,) for a in (cfg.variables.lower_bounds, cfg.variables.upper_bounds, cfg.gradient.perturbation_magnitudes, cfg.gradient.boundary_types, cfg.gradient.perturbation_types)))
    snap = [(path, obj, obj.copy()) for kind, path, obj in found if kind == "array"]
    subs = [(path, obj) for kind, path, obj in found if kind == "model"]
    T.prove("C18.native.validating_a_validated_object_returns_it", EnOptConfig.model_validate(cfg) is cfg)
    again = EnOptConfig.model_validate(cfg, context=tr)
    found2 = []
    _walk(again, "config", set(), found2)
    T.prove("C18.native.revalidating_the_object_with_its_context_yields_an_equivalent_configuration", _equal(again, cfg))
    T.prove("C18.native.revalidation_leaves_the_validated_object_untouched", all(a is o for (_, o), (k, _, a) in zip(subs, [f for f in found2 if f[0] == "model"])) if again is cfg else True)
    T.prove("C18.native.revalidation_changes_no_stored_array", all(np.array_equal(obj, old, equal_nan=True) for _, obj, old in snap), "")
    # validated sub-configurations may be shared: using them in another configuration does not change them
    d2 = dict(d)
    d2["gradient"] = cfg.gradient
    if cfg.linear_constraints is not None:
        d2["linear_constraints"] = cfg.linear_constraints
    other = EnOptConfig.model_validate(d2, context=tr)
    T.prove("C18.native.sharing_validated_sub_configurations_does_not_change_them", all(np.array_equal(obj, old, equal_nan=True) for _, obj, old in snap)
            and cfg.gradient is subs_by_path(subs, "config.gradient"))
    del other
    # ... the same for the sections that the validation context transforms in their own validators (variables, non-linear
    # constraints) and for the normalised ones: a validated object placed into another configuration is frozen - the first
    # configuration does not change - and the other configuration carries the same values
    before = cfg.model_copy(deep=True)
    d3 = dict(d)
    for section in ("variables", "nonlinear_constraints", "objectives", "realizations", "optimizer"):
        if getattr(cfg, section, None) is not None:
            d3[section] = getattr(cfg, section)
    other = EnOptConfig.model_validate(d3, context=tr)
    T.prove("C18.native.sharing_validated_sub_configurations_does_not_change_them", all(np.array_equal(obj, old, equal_nan=True) for _, obj, old in snap) and _equal(cfg, before),
            "variables / non-linear constraints / objectives / realizations shared")
    T.prove("C18.native.a_configuration_built_from_validated_sections_is_equivalent",
            all(_equal(getattr(other, section), getattr(cfg, section)) for section in ("variables", "nonlinear_constraints", "objectives", "realizations") if getattr(cfg, section, None) is not None))
    del other
    dumped = cfg.model_dump(round_trip=True)
    T.prove("C18.native.revalidating_the_dumped_dictionary_is_idempotent", _equal(EnOptConfig.model_validate(dumped), cfg))

    class Enc(json.JSONEncoder):
        def default(self, o):
            if isinstance(o, np.ndarray):
                return o.tolist()
            if hasattr(o, "__fspath__"):
                return str(o)
            return super().default(o)

    T.prove("C18.native.revalidating_the_json_form_is_idempotent", _equal(EnOptConfig.model_validate(json.loads(json.dumps(dumped, cls=Enc))), cfg))


# ------------------------------------------------------------------------------------ canonical perturbation settings (values), with and without a variable transform
def cases_canonical_perturbations(tier):
    from contracts import C10

    return C10.cases_fix(tier)


def scn_canonical_perturbations(T, case):
    """'Canonical perturbation settings of every type': an absolute magnitude stays what the user gave (in optimizer coordinates under a
    variable transform), a relative one becomes that fraction of the variable's range - once, whatever the transform (C10's scenario
    of fix_perturbations under this property's prefix)."""
    from contracts import C10
    from contracts.reuse import Renamed

    C10.scn_fix(Renamed(T, "C10.", "C18.canonical."), case)


# ------------------------------------------------------------------------------------ a variable scaler that has served another configuration before
def cases_scaler_reuse(tier):
    from contracts import C11

    for cid, c in C11.cases_linear(tier):
        if c.get("prior"):
            yield cid, c


def scn_scaler_reuse(T, case):
    """Canonical linear constraints under a variable transform (rows scaled to a largest absolute entry of one, bounds by the same factors) whatever the scaler object has been used for before (C11's linear-constraint scenario with a used scaler, under this property's prefix)."""
    from contracts import C11
    from contracts.reuse import Renamed

    C11.scn_linear(Renamed(T, "C11.linear.", "C18.scaler_reuse."), case)


SCENARIOS = [
    Scenario("config_utils", scn_utils, cases_utils, {"quick": 10, "thorough": 100}),
    Scenario("validators", scn_validators, cases_validators, {"quick": 5, "thorough": 50}),
    Scenario("native_attack_and_revalidation", scn_native, cases_native, {"quick": 4, "thorough": 25}),
    Scenario("canonical_perturbation_settings", scn_canonical_perturbations, cases_canonical_perturbations, {"quick": 5, "thorough": 50}),
    Scenario("scaler_object_reused_for_another_configuration", scn_scaler_reuse, cases_scaler_reuse, {"quick": 5, "thorough": 30}),
]

MANIFEST = {
    "category": "other",
    "text": "Function-level clauses (normalize, immutable_array, broadcasts, enum check) and the bodies of all mode='after' validators are verified deductively (z3) with a typestate model "
            "of ImmutableBaseModel: canonical values, rejection of inverted bounds / wrong shapes, every stored array read-only, object immutable on exit, fix_perturbations and "
            "apply_transformation stable. pydantic's orchestration and the 'every reachable attribute' / JSON round-trip clauses are covered by a bounded native attack on really "
            "validated generated configurations, which is why the level is 'other'.",
    "note": "field converters, frame clauses of fix_perturbations / apply_transformation (the frozen object is not changed) and the order of EnOptConfig's model validators are obligations; pydantic validator ordering and model_copy/model_construct/frozen semantics are assumed library contracts; ImmutableBaseModel by typestate model; generated configurations are a bounded sample; array lengths <= 3",
    "technique": "contract-based deductive verification of the validator bodies (symbolic execution + z3/cvc5, typestate for immutability) plus bounded run-time contract checking through the real pydantic models",
}
