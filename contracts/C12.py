"""C12 - the tracked best result is the feasible optimum over the whole history.

Functions under contract: ropt.plugins.plan._tracker:DefaultTrackerHandler.__init__ / handle_event,
ropt.plugins.plan._utils:_update_optimal_result / _get_new_optimal_result / _get_last_result / _violates_constraint,
ropt.plan._basic_optimizer:BasicOptimizer.run (reports the tracked result).
"""
from __future__ import annotations

import itertools
import types
import uuid

import numpy as np

from roptvc.driver import Scenario

LEVEL = "proof"
MT = "ropt.plugins.plan._tracker"
MU = "ropt.plugins.plan._utils"
MB = "ropt.plan._basic_optimizer"
EXPLANATION = (
    "Inductive invariant of the tracker with a ghost history: the retained result is None iff no candidate was delivered, otherwise it is the user-domain result of the first "
    "delivered candidate with minimal optimizer-domain weighted objective, candidates being function results with functions, non-NaN objective and every violation within the "
    "tolerance, delivered by a tracked source in a FINISHED_EVALUATION event. Preservation is proved (z3) for handle_event from an ARBITRARY state satisfying the invariant (no "
    "incumbent, or an incumbent with an arbitrary non-NaN objective m) and an arbitrary event: any event type/source, results tuples of length <= 3 of every kind (function result "
    "with/without functions, gradient result), symbolic objectives incl. NaN, symbolic violations, tolerance None/0/symbolic, with or without transformed results whose objective is "
    "unrelated to the user-domain objective. Hence the clause holds after any sequence of events. 'last' tracker: the latest feasible function result with functions."
)
ASSUMPTIONS = [
    "results tuples per event of length <= 5 (the loop of _update_optimal_result is unrolled per length; bounded in that length, unbounded in history)",
    "objectives are extended reals (NaN comparisons false as in IEEE-754)",
    "an externally assigned tracker value (plan.set) other than None is outside the invariant",
]

KINDS = ("F", "F0", "G")  # function result with functions / without functions / gradient result


def _results(T, tag, kinds, flip):
    """Build the (user-domain, optimizer-domain) result tuples of one event."""
    from ropt.results import FunctionResults, GradientResults

    user, opt, objs, viols = [], [], [], []
    for i, k in enumerate(kinds):
        if k == "G":
            g = GradientResults(batch_id=None, metadata={}, evaluations=None, realizations=None, gradients=None)
            user.append(g)
            opt.append(g)
            objs.append(None)
            viols.append(None)
            continue
        obj = T.real("%s_objective%d" % (tag, i), (), nan="sym")
        viol = T.real("%s_violation%d" % (tag, i), (1,), lo=0.0)
        info = types.SimpleNamespace(bound_violation=viol, linear_violation=None, nonlinear_violation=None)
        fo = None if k == "F0" else types.SimpleNamespace(weighted_objective=obj)
        o = FunctionResults(batch_id=None, metadata={}, evaluations=None, realizations=None, functions=fo, constraint_info=info)
        if flip:
            # the user-domain image has an unrelated objective (e.g. sign-flipped): it must play no role in the comparison
            uobj = T.real("%s_user_objective%d" % (tag, i), (), nan="sym")
            # ... and so has its violation (a scaled one, e.g.): the tolerance applies to the violation in the domain the optimizer works in
            uviol = T.real("%s_user_violation%d" % (tag, i), (1,), lo=0.0)
            u = FunctionResults(batch_id=None, metadata={}, evaluations=None, realizations=None,
                                functions=None if k == "F0" else types.SimpleNamespace(weighted_objective=uobj),
                                constraint_info=types.SimpleNamespace(bound_violation=uviol, linear_violation=None, nonlinear_violation=None))
        else:
            u = o
        user.append(u)
        opt.append(o)
        objs.append(obj)
        viols.append(viol)
    return tuple(user), tuple(opt), objs, viols


def cases_step(tier):
    lens = (1, 2) if tier == "quick" else (1, 2, 3)
    for what in ("best", "last"):
        for L in lens:
            for kinds in itertools.product(KINDS, repeat=L):
                if tier == "quick" and L == 2 and kinds.count("F") == 0:
                    continue
                for tol in ("none", "zero", "sym"):
                    for flip in (False, True):
                        for inc in (False, True):
                            if tier == "quick" and what == "last" and ((flip and tol != "sym") or tol == "zero"):
                                continue
                            yield "%s/%s/tol=%s/%s/%s" % (what, "".join(k if k != "F0" else "f" for k in kinds), tol, "transformed" if flip else "plain", "incumbent" if inc else "empty"), {
                                "what": what, "kinds": list(kinds), "tol": tol, "flip": flip, "incumbent": inc}
    # longer result tuples (parallel batches of up to five vectors; a function result followed by results that cannot be tracked)
    for what in ("best", "last"):
        for kinds in (("F", "F0", "G"), ("F", "G", "G"), ("F", "F", "F"), ("F", "F", "F", "F"), ("F", "F0", "F", "F0", "G"), ("F", "F", "F", "F", "F")):
            if tier == "thorough" and len(kinds) == 3:
                continue  # all tuples of length three are enumerated above
            for tol in ("none", "sym"):
                for inc in (False, True):
                    yield "%s/%s/tol=%s/plain/%s" % (what, "".join(k if k != "F0" else "f" for k in kinds), tol, "incumbent" if inc else "empty"), {
                        "what": what, "kinds": list(kinds), "tol": tol, "flip": False, "incumbent": inc}
    # the tracker is reset (its "results" set to None, as between the runs of a plan) after it had tracked a result: what follows is
    # judged as by a fresh tracker - nothing remembered of the earlier optimum, in whatever domain
    for what in ("best", "last"):
        for kinds in (("F",), ("F", "F")):
            for flip in (False, True):
                yield "%s/%s/tol=sym/%s/incumbent-then-reset" % (what, "".join(kinds), "transformed" if flip else "plain"), {
                    "what": what, "kinds": list(kinds), "tol": "sym", "flip": flip, "incumbent": True, "reset": True}
    # the event type given as the plain integer of the enumeration (EventType is an IntEnum; Event does not convert): same event
    for what in ("best", "last"):
        for tname in ("int", "numpy-int"):
            yield "%s/F/tol=none/plain/incumbent/event-type-as-%s" % (what, tname), {"what": what, "kinds": ["F"], "tol": "none", "flip": False, "incumbent": True, "event_type_as": tname}
    for ev in ("foreign-source", "other-event", "no-results"):
        yield "ignored/%s" % ev, {"what": "best", "kinds": ["F"], "tol": "none", "flip": False, "incumbent": True, "ignore": ev}


def scn_step(T, case):
    from ropt.enums import EventType
    from ropt.plan import Event
    from ropt.results import FunctionResults

    if T.symbolic:
        sh = T.shadow([MT, MU])
        cls = T.under_contract(sh, MT, "DefaultTrackerHandler")
        T.under_contract(sh, MT, "DefaultTrackerHandler.handle_event")
        for q in ("_update_optimal_result", "_get_new_optimal_result", "_get_last_result", "_violates_constraint"):
            T.under_contract(sh, MU, q)
    else:
        cls = T.func(MT, "DefaultTrackerHandler")
    src, foreign = uuid.uuid4(), uuid.uuid4()
    tol = None if case["tol"] == "none" else (0.0 if case["tol"] == "zero" else T.real("tolerance", (), lo=0.0))
    trk = cls(None, what=case["what"], constraint_tolerance=tol, sources={src})
    T.prove("C12.init.tracker_starts_empty", trk["results"] is None)
    # arbitrary pre-state satisfying the invariant
    m = None
    inc_user = inc_opt = None
    if case["incumbent"]:
        # the pre-state is reached the way every state is reached: by an earlier event that delivered a feasible function result with
        # (optimizer-domain) objective m - whatever the tracker keeps of it, and where, is its own business
        m = T.real("incumbent_objective", ())
        inc_opt = FunctionResults(batch_id=None, metadata={}, evaluations=None, realizations=None, functions=types.SimpleNamespace(weighted_objective=m))
        if case["flip"]:
            inc_user = FunctionResults(batch_id=None, metadata={}, evaluations=None, realizations=None,
                                       functions=types.SimpleNamespace(weighted_objective=T.real("incumbent_user_objective", ())))
        else:
            inc_user = inc_opt
        first = {"results": (inc_user,)}
        if case["flip"]:
            first["transformed_results"] = (inc_opt,)
        trk.handle_event(Event(event_type=EventType.FINISHED_EVALUATION, config=None, source=src, data=first))
        T.prove("C12.history.a_first_feasible_function_result_is_tracked", trk["results"] is inc_user)
        if trk["results"] is not inc_user:
            return
        if case.get("reset"):
            trk["results"] = None
            m, inc_user, inc_opt = None, None, None
    user, opt, objs, viols = _results(T, "new", case["kinds"], case["flip"])
    data = {"results": user}
    if case["flip"]:
        data["transformed_results"] = opt
    ign = case.get("ignore")
    etype = EventType.START_EVALUATION if ign == "other-event" else EventType.FINISHED_EVALUATION
    if case.get("event_type_as"):
        etype = int(etype) if case["event_type_as"] == "int" else np.int64(int(etype))
    ev = Event(event_type=etype, config=None,
               source=foreign if ign == "foreign-source" else src, data={} if ign == "no-results" else data)
    trk.handle_event(ev)
    got = trk["results"]
    if ign:
        T.prove("C12.ignored_events_leave_the_tracked_result_unchanged", got is inc_user)
        return
    L = len(user)

    def feasible(i):
        if tol is None:
            return True
        return viols[i][0] <= tol

    def cand(i, need_objective):
        if case["kinds"][i] != "F":
            return False
        c = feasible(i)
        if need_objective:
            c = c & (~T.np.isnan(objs[i]) if T.symbolic else not np.isnan(objs[i]))
        return c

    chosen = -1 if got is inc_user else next((i for i in range(L) if got is user[i]), None)
    T.prove("C12.tracked_result_is_a_delivered_user_domain_result", chosen is not None)
    if chosen is None:
        return
    if case["what"] == "last":
        if chosen == -1:
            T.prove("C12.last.unchanged_only_if_no_feasible_function_result_was_delivered", T.all([~cand(i, False) if T.symbolic and not isinstance(cand(i, False), bool) else not cand(i, False) for i in range(L)]))
        else:
            T.prove("C12.last.holds_the_most_recent_feasible_function_result", T.all([cand(chosen, False)] + [(~cand(i, False) if T.symbolic and not isinstance(cand(i, False), bool) else not cand(i, False)) for i in range(chosen + 1, L)]))
        return
    neg = lambda c: (~c if T.symbolic and not isinstance(c, (bool, np.bool_)) else not c)  # noqa: E731
    if chosen == -1:
        # nothing displaced the incumbent: no candidate is strictly better (and without an incumbent there is no candidate at all)
        T.prove("C12.best.unchanged_only_if_no_candidate_is_better",
                T.all([neg(cand(i, True)) if m is None else T.implies(cand(i, True), m <= objs[i]) for i in range(L) if case["kinds"][i] == "F"] or [True]))
    else:
        k = chosen
        T.prove("C12.best.new_result_is_a_feasible_function_result_with_defined_objective", cand(k, True))
        T.prove("C12.best.new_result_is_strictly_better_than_the_incumbent", True if m is None else objs[k] < m)
        T.prove("C12.best.new_result_is_the_first_minimal_candidate_of_the_event",
                T.all([T.implies(cand(i, True), objs[k] < objs[i]) for i in range(k) if case["kinds"][i] == "F"]
                      + [T.implies(cand(i, True), objs[k] <= objs[i]) for i in range(k + 1, L) if case["kinds"][i] == "F"] or [True]))
        if hasattr(trk, "_transformed_results"):
            T.prove("C12.best.remembered_optimizer_domain_result_matches_the_tracked_one", trk._transformed_results is opt[k])
    # the invariant's ghost part: the new minimum is min(m, candidates) - follows from the three clauses above


# ------------------------------------------------------------------------------------ BasicOptimizer reports the tracked best
def cases_basic(tier):
    for has in (True, False):
        yield "tracked=%s" % has, {"has": has}


def scn_basic(T, case):
    stored = types.SimpleNamespace(evaluations=types.SimpleNamespace(variables=np.array([1.0, 2.0]))) if case["has"] else None
    log = []
    current = lambda: stored  # noqa: E731  (what the tracker holds at the moment)

    class FakePlan:
        def __init__(self, ctx):
            log.append(("plan", ctx))
            self._f = None

        def step_exists(self, k):
            return False

        def handler_exists(self, k):
            return False

        def has_function(self):
            return self._f is not None

        def add_step(self, name):
            log.append(("add_step", name))
            return "step-id"

        def add_handler(self, name, **kw):
            log.append(("add_handler", name, kw))
            return "tracker-id"

        def add_function(self, f):
            self._f = f

        def run_function(self, *a):
            return self._f(self, *a)

        def run_step(self, step, **kw):
            log.append(("run_step", step))
            return "EXIT"

        def get(self, id_, key):
            log.append(("get", id_, key))
            return current()

    if T.symbolic:
        sh = T.shadow([MB], stubs={(MB, "Plan"): FakePlan})
        cls = T.under_contract(sh, MB, "BasicOptimizer")
        T.under_contract(sh, MB, "BasicOptimizer.run")
        restore = None
    else:
        import ropt.plan._basic_optimizer as real

        restore = (real, real.Plan)
        real.Plan = FakePlan
        cls = real.BasicOptimizer
    try:
        # made by its real constructor; run twice (the second run of the same object tracks nothing, or something else)
        bo = cls({"variables": {"initial_values": [0.0]}}, lambda x, c: None, constraint_tolerance=1e-10)
        bo.run()
        first = (bo.results, bo.variables, bo.exit_code)
        first_stored = stored
        stored = types.SimpleNamespace(evaluations=types.SimpleNamespace(variables=np.array([3.0, 4.0]))) if not case["has"] else None
        log_first = list(log)
        bo.run()
        T.prove("C12.basic_optimizer.second_run_of_the_same_object_reports_what_THAT_run_tracked",
                bo.results is stored and ((bo.variables is None) if stored is None else (bo.variables is stored.evaluations.variables)) and bo.exit_code == "EXIT")
        stored, log[:] = first_stored, log_first
        bo._results = type(bo._results)(*first)
    finally:
        if restore:
            restore[0].Plan = restore[1]
    T.prove("C12.basic_optimizer.reports_exactly_the_tracked_result", bo.results is stored and bo.exit_code == "EXIT")
    T.prove("C12.basic_optimizer.variables_are_those_of_the_tracked_result", (bo.variables is None) if stored is None else (bo.variables is stored.evaluations.variables))
    handlers = [e for e in log if e[0] == "add_handler"]
    T.prove("C12.basic_optimizer.tracker_follows_the_optimizer_step_with_the_configured_tolerance",
            len(handlers) == 1 and handlers[0][1] == "tracker" and handlers[0][2].get("sources") == {"step-id"} and handlers[0][2].get("constraint_tolerance") == 1e-10)
    T.prove("C12.basic_optimizer.reads_the_tracker_after_the_step", [e[0] for e in log if e[0] in ("run_step", "get")] == ["run_step", "get"] and ("get", "tracker-id", "results") in log)


# ------------------------------------------------------------------------------------ a delivered result has reached the tracker
def cases_delivery(tier):
    for depth in (1, 2, 3):
        for where in range(depth):
            for what in ("best", "last"):
                yield "depth=%d/tracker-in-plan-%d/%s" % (depth, where, what), {"depth": depth, "where": where, "what": what}


def scn_delivery(T, case):
    """'Delivered so far' includes the event during which a user callback aborts: an observer (it runs after every handler of the
    emitting plan and of its ancestors) that has seen a result and raises must not be able to leave a tracker of any of those
    plans without that result."""
    from ropt.enums import EventType, OptimizerExitCode
    from ropt.exceptions import OptimizationAborted
    from ropt.plan import Event
    from ropt.results import FunctionResults

    MP, MC = "ropt.plan._plan", "ropt.plan._context"
    if T.symbolic:
        sh = T.shadow([MT, MU, MP, MC])
        cls = T.under_contract(sh, MT, "DefaultTrackerHandler")
        T.under_contract(sh, MT, "DefaultTrackerHandler.handle_event")
        plan_cls, ctx_cls = T.under_contract(sh, MP, "Plan"), T.under_contract(sh, MC, "OptimizerContext")
        T.under_contract(sh, MP, "Plan.emit_event")
        T.under_contract(sh, MC, "OptimizerContext.call_observers")
    else:
        cls, plan_cls, ctx_cls = T.func(MT, "DefaultTrackerHandler"), T.func(MP, "Plan"), T.func(MC, "OptimizerContext")
    seen = []

    def observer(event):
        seen.extend(event.data["results"])
        raise OptimizationAborted(exit_code=OptimizerExitCode.USER_ABORT)

    from contracts import stepflow

    octx = ctx_cls(evaluator=None, plugin_manager=stepflow.PlanPlugins())
    octx.add_observer(EventType.FINISHED_EVALUATION, observer)
    plans, parent = [], None
    for d in range(case["depth"]):
        parent = plan_cls(octx, parent)
        plans.append(parent)
    src = uuid.uuid4()
    trk = cls(plans[case["where"]], what=case["what"], constraint_tolerance=None, sources={src})
    stepflow.add_handler(plans[case["where"]], trk)
    obj = T.real("objective", ())
    res = FunctionResults(batch_id=None, metadata={}, evaluations=None, realizations=None, functions=types.SimpleNamespace(weighted_objective=obj))
    ev = Event(event_type=EventType.FINISHED_EVALUATION, config=None, source=src, data={"results": (res,)})
    try:
        plans[-1].emit_event(ev)
        aborted = False
    except OptimizationAborted:
        aborted = True
    T.prove("C12.delivery.the_abort_of_the_observer_is_not_swallowed", aborted and seen == [res])
    T.prove("C12.delivery.a_result_seen_by_an_observer_has_reached_every_tracker_of_the_plan_chain", trk["results"] is res)


# ------------------------------------------------------------------------------------ a tracker added through the plan keeps its options
def cases_added(tier):
    for what in ("best", "last"):
        for tol in ("none", "zero", "half"):
            yield "%s/constraint_tolerance=%s" % (what, tol), {"what": what, "tol": tol}


def scn_added(T, case):
    """'All tolerances including None': the tracker that Plan.add_handler creates through the built-in handler plug-in is configured
    with exactly the options given - None (no feasibility filtering) included, not replaced by a default."""
    from ropt.enums import EventType
    from ropt.plan import Event
    from ropt.results import FunctionResults

    MP, MC, MD = "ropt.plan._plan", "ropt.plan._context", "ropt.plugins.plan.default"
    if T.symbolic:
        sh = T.shadow([MT, MU, MP, MC, MD])
        plan_cls, ctx_cls, plug_cls = T.under_contract(sh, MP, "Plan"), sh.get(MC, "OptimizerContext"), T.under_contract(sh, MD, "DefaultPlanHandlerPlugin")
        T.under_contract(sh, MP, "Plan.add_handler")
        T.under_contract(sh, MD, "DefaultPlanHandlerPlugin.create")
        # the plug-in's table of handler classes is filled when its module body runs, i.e. with the class object imported there; point
        # it at the shadow of the same class (same source text) so that the tracker's body runs on symbolic values
        table = sh.ns[MD].get("_RESULT_HANDLER_OBJECTS")
        if isinstance(table, dict) and "tracker" in table:
            table["tracker"] = sh.get(MT, "DefaultTrackerHandler")
    else:
        plan_cls, ctx_cls, plug_cls = T.func(MP, "Plan"), T.func(MC, "OptimizerContext"), T.func(MD, "DefaultPlanHandlerPlugin")
    asked = []
    pm = types.SimpleNamespace(get_plugin=lambda kind, method: asked.append((kind, method)) or plug_cls())
    plan = plan_cls(ctx_cls(evaluator=None, plugin_manager=pm))
    src = uuid.uuid4()
    tol = {"none": None, "zero": 0.0, "half": 0.5}[case["tol"]]
    hid = plan.add_handler("tracker", what=case["what"], constraint_tolerance=tol, sources={src})
    T.prove("C12.added.handler_comes_from_the_plan_handler_plugin_of_that_name", asked == [("plan_handler", "tracker")])
    viol = T.real("violation", (1,), lo=0.75, hi=2.0)  # infeasible for every tolerance but None
    obj = T.real("objective", ())
    info = types.SimpleNamespace(bound_violation=viol, linear_violation=None, nonlinear_violation=None)
    res = FunctionResults(batch_id=None, metadata={}, evaluations=None, realizations=None, functions=types.SimpleNamespace(weighted_objective=obj), constraint_info=info)
    plan.emit_event(Event(event_type=EventType.FINISHED_EVALUATION, config=None, source=src, data={"results": (res,)}))
    got = plan.get(hid, "results")
    T.prove("C12.added.tracker_filters_with_exactly_the_given_tolerance", (got is res) if tol is None else (got is None))


# ------------------------------------------------------------------------------------ what the plan steps hand on (shared contract)
def cases_steps(tier):
    from contracts import stepcontract

    return stepcontract.cases(tier)


def scn_steps(T, case):
    from contracts import stepcontract

    stepcontract.scenario(T, case, "C12")


SCENARIOS = [
    Scenario("tracker_step_from_any_state", scn_step, cases_step, {"quick": 10, "thorough": 60}),
    Scenario("basic_optimizer_reports_tracked", scn_basic, cases_basic, {"quick": 1, "thorough": 1}),
    Scenario("delivered_results_reach_the_tracker", scn_delivery, cases_delivery, {"quick": 1, "thorough": 3}),
    Scenario("tracker_added_through_the_plan", scn_added, cases_added, {"quick": 2, "thorough": 5}),
    Scenario("plan_steps_hand_over", scn_steps, cases_steps, {"quick": 1, "thorough": 2}),
]

MANIFEST = {
    "category": "proof",
    "text": "Deductive, inductive over histories: preservation of the tracker invariant (retained result = first delivered candidate with minimal optimizer-domain objective; NaN, "
            "infeasible, function-less, gradient and foreign results never displace or block) is discharged by z3 for handle_event from an arbitrary invariant state and an arbitrary "
            "event with symbolic objectives (incl. NaN), violations and tolerance; results tuples per event up to length 3. BasicOptimizer.run is proved to report exactly the tracked result.",
    "note": "results per event bounded to <= 5 (loop unrolled; all tuples up to length 2 (3 thorough), selected ones of length 3-5), history length unbounded by induction; floats as extended reals; Plan replaced by a recording stub for BasicOptimizer.run",
    "technique": "contract-based deductive verification: representation invariant with ghost history, preservation proved by symbolic execution of the real source + z3/cvc5; bounded run-time contract checking as stand-in",
}
